"""Generic driver: seeds -> scenarios -> simulated runs -> oracles -> evidence.

A check module (checks/cNN.py) provides

  PROPERTY, LEVEL ('exploration' | 'fault_enumeration'), RULE (text),
  COMPONENTS_REAL, COMPONENTS_STUB, ASSUMPTIONS (lists of str),
  RUNS = {'quick': n, 'thorough': n},
  gen(rnd, tier) -> scenario dict   (JSON-able, without 'decisions'),
  execute(sim, scn) -> None         (builds the world on `sim`, runs it, reports
                                     through sim.violation / sim.anomaly / sim.probe),
  optional: corpus() -> [scenario], systematic(tier) -> iterable of scenarios,
            shrink(scn) -> iterable of smaller candidate scenarios,
            draw_bias(scn) -> bias dict for DrawSource, SIM_KW.
"""

import concurrent.futures as cf
import faulthandler
import glob
import hashlib
import importlib
import json
import multiprocessing
import os
import signal
import subprocess
import sys
import time
import traceback

from .decide import KeyRnd, mix, canonical
from .world import Sim

VERIF = os.path.dirname(os.path.dirname(os.path.abspath(__file__)))
RUN_WALL_LIMIT = 60  # seconds of wall clock per single simulated run


class HarnessError(Exception):
    pass


def load_check(pid):
    return importlib.import_module("checks.%s" % pid.lower())


# --------------------------------------------------------------------------- one run


class RunTimeout(BaseException):
    pass


def _alarm(signum, frame):
    raise RunTimeout()


def purge_library_modules():
    """Hermetic runs (VERIF_HERMETIC=1; costs roughly 100 ms per run): whatever the code under test keeps in
    module-level state (caches, counters, memoised objects) cannot leak from one simulated run into the next when
    the library is imported afresh for every run.  By default runs share the imported library within a worker
    process; a violation that depends on such carried-over state does not replay alone, and the runner then tries
    the other scenarios showing the same kind (the defect usually also shows inside a single scenario)."""
    for k in [k for k in sys.modules if k == "aiocoap" or k.startswith("aiocoap.") or k == "tests" or k.startswith("tests.")]:
        del sys.modules[k]
    # helper modules that keep a reference to an imported library module must forget it as well
    env = sys.modules.get("simkit.oscore_env")
    if env is not None and hasattr(env, "_STATE"):
        env._STATE.pop("osc", None)


def run_one(check, scn, want_events=False):
    """Execute one scenario. Returns a result dict. Never raises for things the
    scenario does; harness problems come back as result['harness_error']."""
    replay = scn.get("decisions") if scn.get("mode") == "replay" else None
    try:
        from checks import common as _common
        _common.set_family(bool(scn.get("v4")) and getattr(check, "SUPPORTS_V4", False))
    except ImportError:
        pass
    sim = Sim(scn.get("run_seed", 0), replay=replay)
    res = {"violations": [], "harness_error": None}
    old = signal.signal(signal.SIGALRM, _alarm)
    signal.setitimer(signal.ITIMER_REAL, RUN_WALL_LIMIT)
    try:
        bias = check.draw_bias(scn) if hasattr(check, "draw_bias") else None
        if getattr(check, "USES_AIOCOAP_NET", True):
            sim.install(draw_bias=bias)
        try:
            check.execute(sim, scn)
        except RunTimeout:
            res["harness_error"] = "wall-clock watchdog: run exceeded %ds" % RUN_WALL_LIMIT
        except Exception as e:  # noqa
            res["harness_error"] = "exception in harness/execute: %s" % "".join(
                traceback.format_exception(type(e), e, e.__traceback__)[-6:])
    except RunTimeout:
        res["harness_error"] = "wall-clock watchdog: run exceeded %ds" % RUN_WALL_LIMIT
    finally:
        signal.setitimer(signal.ITIMER_REAL, 0)
        signal.signal(signal.SIGALRM, old)
        if sim.loop.harness_errors and not res["harness_error"]:
            res["harness_error"] = "exception in simulator event: " + sim.loop.harness_errors[0]
        res["digest"] = sim.digest()
        res["violations"] = sim.violations
        res["anomalies"] = sim.anomalies
        res["probes"] = sim.probes
        res["faults"] = {k[6:]: v for k, v in sim.net.stats.items() if k.startswith("fault.")}
        for k, v in getattr(sim, "extra_faults", {}).items():
            res["faults"][k] = res["faults"].get(k, 0) + v
        res["sim_time"] = sim.loop.now
        res["datagrams"] = len(sim.net.wire)
        res["steps"] = sim.loop.steps
        res["decisions"] = dict(sim.decider.record)
        res["nontrivial"] = bool(res["faults"]) or bool(getattr(sim, "nontrivial", False))
        res["scn_patch"] = getattr(sim, "scenario_patch", None)
        if getattr(sim, "sim_time_total", None) is not None:
            res["sim_time"] = sim.sim_time_total
        if getattr(sim, "datagrams_total", None) is not None:
            res["datagrams"] = sim.datagrams_total
        sig = getattr(sim, "signature", None)
        if sig is None:
            h = hashlib.blake2b(digest_size=8)
            for e in sim.events:
                if e[1] in ("tx", "rx", "icmp", "op", "app"):
                    h.update(repr((e[1], e[2], e[5][0] if e[1] == "tx" else (e[3] if len(e) > 3 else None))).encode())
            sig = h.hexdigest()
        res["signature"] = sig
        if want_events:
            res["events"] = [repr(e) for e in sim.events]
        try:
            sim.close()
        except Exception:
            pass
        if os.environ.get("VERIF_HERMETIC") == "1":
            purge_library_modules()
    return res


def make_random_scn(check, base_seed, index, tier):
    run_seed = mix(base_seed, check.PROPERTY, index)
    scn = check.gen(KeyRnd(mix(run_seed, "gen")), tier)
    scn["run_seed"] = run_seed
    scn["property"] = check.PROPERTY
    scn.setdefault("origin", "random:%d:%d" % (base_seed, index))
    return scn


def replayable(scn, res):
    out = dict(scn)
    out["mode"] = "replay"
    out["decisions"] = res["decisions"]
    # a check that enumerates fault points inside one run may pin the failing point(s) for the replay file
    out.update(res.get("scn_patch") or {})
    return out


# --------------------------------------------------------------------------- workers

_G = {}


def _worker_init():
    faulthandler.enable()


def _worker(args):
    pid, tier, base_seed, items = args
    check = _G["check"]
    fixed = _G["fixed"]
    agg = {
        "runs": 0, "faults": {}, "probes": {}, "anoms": {}, "sigs": set(), "nontrivial_sigs": set(),
        "sim_time": 0.0, "datagrams": 0, "steps": 0, "violations": [], "harness_errors": [],
        "samples": [], "fault_free": 0, "digests": [], "decisions_asked": 0,
    }
    for kind, idx in items:
        if kind == "fixed":
            scn = dict(fixed[idx])
            scn.setdefault("run_seed", mix(base_seed, pid, "fixed", idx))
            scn.setdefault("property", pid)
        else:
            scn = make_random_scn(check, base_seed, idx, tier)
        res = run_one(check, scn)
        agg["runs"] += 1
        if res["harness_error"]:
            agg["harness_errors"].append((kind, idx, res["harness_error"]))
            continue
        for k, v in res["faults"].items():
            agg["faults"][k] = agg["faults"].get(k, 0) + v
        for k, v in res["probes"].items():
            agg["probes"][k] = agg["probes"].get(k, 0) + v
        for a in res["anomalies"]:
            agg["anoms"][a["kind"]] = agg["anoms"].get(a["kind"], 0) + 1
        agg["sigs"].add(res["signature"])
        if res["nontrivial"]:
            agg["nontrivial_sigs"].add(res["signature"])
        if not res["faults"]:
            agg["fault_free"] += 1
        agg["sim_time"] += res["sim_time"]
        agg["datagrams"] += res["datagrams"]
        agg["steps"] += res["steps"]
        agg["digests"].append((kind, idx, res["digest"]))
        if res["violations"]:
            agg["violations"].append((kind, idx, replayable(scn, res), res["violations"]))
        if len(agg["samples"]) < 1 and res["nontrivial"]:
            agg["samples"].append(replayable(scn, res))
    return agg


def _chunks(lst, n):
    for i in range(0, len(lst), n):
        yield lst[i : i + n]


# --------------------------------------------------------------------------- known findings


def load_known():
    p = os.path.join(VERIF, "known_findings.json")
    if not os.path.exists(p):
        return []
    with open(p) as f:
        return json.load(f)["findings"]


# --------------------------------------------------------------------------- main entry


def trim_sample(scn, limit=6000):
    s = json.dumps(scn)
    if len(s) <= limit:
        return scn
    out = {k: v for k, v in scn.items() if k not in ("decisions", "ops")}
    out["ops"] = (scn.get("ops") or [])[:12]
    out["decisions_count"] = len(scn.get("decisions", {}))
    out["truncated"] = True
    s = json.dumps(out)
    if len(s) > limit:
        out = {"truncated": True, "text": s[:limit]}
    return out


def check_main(pid, tier, base_seed, jobs=None, budget_s=None, quiet=False):
    from . import minimise

    t0 = time.time()
    check = load_check(pid)
    jobs = jobs or min(16, os.cpu_count() or 1)
    fixed = []
    corpus_n = 0
    if hasattr(check, "corpus"):
        for s in check.corpus():
            s = dict(s)
            s.setdefault("origin", "corpus:builtin:%d" % corpus_n)
            fixed.append(s)
            corpus_n += 1
    for path in sorted(glob.glob(os.path.join(VERIF, "corpus", pid, "*.json"))):
        with open(path) as f:
            s = json.load(f)
        s["origin"] = "corpus:" + os.path.basename(path)
        s.pop("expected", None)
        fixed.append(s)
        corpus_n += 1
    sys_n = 0
    if hasattr(check, "systematic"):
        for s in check.systematic(tier):
            s = dict(s)
            s.setdefault("origin", "systematic:%d" % sys_n)
            fixed.append(s)
            sys_n += 1
    n_rand = check.RUNS[tier]
    items = [("fixed", i) for i in range(len(fixed))] + [("rand", i) for i in range(n_rand)]
    _G["check"] = check
    _G["fixed"] = fixed
    chunk = max(1, min(200, len(items) // (jobs * 8) or 1))
    work = [(pid, tier, base_seed, c) for c in _chunks(items, chunk)]
    budget_s = budget_s or getattr(check, "BUDGET", {}).get(tier, 100 if tier == "quick" else 3000)

    total = {
        "runs": 0, "faults": {}, "probes": {}, "anoms": {}, "sigs": set(), "nontrivial_sigs": set(),
        "sim_time": 0.0, "datagrams": 0, "steps": 0, "violations": [], "harness_errors": [],
        "samples": [], "fault_free": 0, "digests": [],
    }
    skipped = 0
    ctx = multiprocessing.get_context("fork")
    with cf.ProcessPoolExecutor(max_workers=jobs, mp_context=ctx, initializer=_worker_init) as ex:
        futs = []
        it = iter(work)
        pending = set()
        # submit lazily so that the wall budget can stop the batch
        def submit_some():
            nonlocal skipped
            while len(pending) < jobs * 2:
                try:
                    w = next(it)
                except StopIteration:
                    return False
                if time.time() - t0 > budget_s:
                    skipped += len(w[3])
                    continue
                pending.add(ex.submit(_worker, w))
            return True
        submit_some()
        while pending:
            done, _ = cf.wait(pending, timeout=RUN_WALL_LIMIT * 3, return_when=cf.FIRST_COMPLETED)
            if not done:
                raise HarnessError("worker pool made no progress for %ds" % (RUN_WALL_LIMIT * 3))
            for f in done:
                pending.discard(f)
                agg = f.result()
                for k in ("runs", "sim_time", "datagrams", "steps", "fault_free"):
                    total[k] += agg[k]
                for k in ("faults", "probes", "anoms"):
                    for kk, v in agg[k].items():
                        total[k][kk] = total[k].get(kk, 0) + v
                total["sigs"] |= agg["sigs"]
                total["nontrivial_sigs"] |= agg["nontrivial_sigs"]
                total["violations"] += agg["violations"]
                total["harness_errors"] += agg["harness_errors"]
                total["digests"] += agg["digests"]
                if len(total["samples"]) < 3:
                    total["samples"] += agg["samples"]
            submit_some()

    # ---- verdicts
    known = [k for k in load_known() if k["property"] == pid and k["status"] == "open"]
    known_keys = {k["key"]: k for k in known}
    unknown = {}
    known_hit = {}
    for kind, idx, scn, viols in sorted(total["violations"], key=lambda v: (v[0] != "fixed", v[1])):
        for v in viols:
            if v["kind"] in known_keys:
                known_hit.setdefault(v["kind"], (scn, v))
            else:
                unknown.setdefault(v["kind"], [])
                if len(unknown[v["kind"]]) < 200:
                    unknown[v["kind"]].append((scn, v))
    exit_code = 0
    lines = []
    for key, (scn, v) in known_hit.items():
        lines.append("KNOWN-FINDING: property=%s %s [%s]" % (pid, known_keys[key]["what"], key))
    reported = 0
    for key, cands in list(unknown.items())[:4]:
        # A run may have been influenced by state the code under test kept from an earlier run in the same worker
        # process (process-global caches): such a scenario does not reproduce alone.  Try the other scenarios that
        # showed the same kind before giving up.
        path = None
        # alternate between directed/systematic and random scenarios, at most 40 attempts
        fixed_c = [c for c in cands if not str(c[0].get("origin", "")).startswith("random")]
        rand_c = [c for c in cands if str(c[0].get("origin", "")).startswith("random")]
        order = []
        while (fixed_c or rand_c) and len(order) < 40:
            if rand_c:
                order.append(rand_c.pop(0))
            if fixed_c:
                order.append(fixed_c.pop(0))
        for (scn, v) in order:
            path = minimise.report(check, scn, key, quiet=quiet)
            if path is not None:
                break
        if path is None:
            total["harness_errors"].append(("replay", key, "violation did not reproduce on replay (%d scenarios tried): %s" % (len(cands), cands[0][1])))
            continue
        lines.append("VIOLATION property=%s replay=%s" % (pid, path))
        lines.append("  kind=%s detail=%s" % (key, json.dumps(v["detail"])[:400]))
        reported += 1
        exit_code = 1
    if total["harness_errors"]:
        for he in total["harness_errors"][:5]:
            lines.append("HARNESS-ERROR %s" % (he,))
        if exit_code == 0:
            exit_code = 2
    wall = time.time() - t0

    # ---- evidence
    samples = [trim_sample(s) for s in total["samples"][:2]]
    if not samples and fixed:
        samples = [trim_sample(fixed[0])]
    ev = {
        "property_id": pid,
        "tier": tier,
        "seed": base_seed,
        "level": check.LEVEL,
        "coverage": {
            "evaluations": total["runs"],
            "distinct_nontrivial": len(total["nontrivial_sigs"]),
            "rule": check.RULE,
            "samples": samples,
            "distinct_signatures_all": len(total["sigs"]),
            "random_runs": n_rand - skipped if skipped <= n_rand else 0,
            "corpus_replays": corpus_n,
            "systematic_cases": sys_n,
            "skipped_for_wall_budget": skipped,
            "fault_free_runs": total["fault_free"],
            "faults_fired": dict(sorted(total["faults"].items())),
            "probes": dict(sorted(total["probes"].items())),
            "anomalies": dict(sorted(total["anoms"].items())),
            "simulated_seconds_total": round(total["sim_time"], 3),
            "datagrams": total["datagrams"],
            "loop_iterations": total["steps"],
            "runs_per_hour": int(total["runs"] / wall * 3600) if wall > 0 else 0,
            "workers": jobs,
            "components_real": check.COMPONENTS_REAL,
            "components_stub": check.COMPONENTS_STUB,
            "interpreter": sys.version.split()[0],
            "known_findings_hit": sorted(known_hit),
            "exhaustive": False,
        },
        "assumptions": check.ASSUMPTIONS,
        "wall_s": round(wall, 2),
        "violations": reported,
    }
    if hasattr(check, "evidence_extra"):
        ev["coverage"].update(check.evidence_extra(total))
    evdir = os.environ.get("VERIF_EVIDENCE_DIR") or os.path.join(VERIF, "evidence")
    os.makedirs(evdir, exist_ok=True)
    with open(os.path.join(evdir, "%s.json" % pid), "w") as f:
        json.dump(ev, f, indent=1, sort_keys=True)
        f.write("\n")
    zero = [k for k in getattr(check, "EXPECTED_PROBES", []) if not total["probes"].get(k)]
    if zero and tier == "thorough":
        lines.append("WARNING: probes never hit: %s" % ", ".join(zero))
    summary = "%s %s: %d runs (%d corpus, %d systematic, %d random), %d distinct non-trivial, faults=%s, %.1fs" % (
        pid, tier, total["runs"], corpus_n, sys_n, n_rand - skipped, len(total["nontrivial_sigs"]),
        dict(sorted(total["faults"].items())), wall)
    print(summary)
    for l in lines:
        print(l)
    print("RESULT property=%s exit=%d" % (pid, exit_code))
    return exit_code, total
