"""setup / determinism / mutant self-tests."""

import concurrent.futures as cf
import glob
import json
import multiprocessing
import os
import shutil
import subprocess
import sys
import time

VERIF = os.path.dirname(os.path.dirname(os.path.abspath(__file__)))


def all_checks():
    out = []
    for p in sorted(glob.glob(os.path.join(VERIF, "checks", "c[0-9][0-9].py"))):
        out.append(os.path.basename(p)[:-3].upper())
    return out


def setup():
    """Nothing is built or downloaded: verify interpreters and imports."""
    from .world import import_aiocoap, REPO

    ok = True
    aiocoap = import_aiocoap()
    print("aiocoap from", os.path.dirname(aiocoap.__file__), "python", sys.version.split()[0])
    # OSCORE environment (python3-vt + system cryptography + shims)
    if os.path.exists(os.path.join(VERIF, "simkit", "oscore_env.py")):
        p = subprocess.run([os.path.join(VERIF, "run"), "selftest-oscore"], capture_output=True, text=True)
        print(p.stdout.strip()[-2000:])
        if p.returncode != 0:
            print(p.stderr.strip()[-2000:])
            print("WARNING: OSCORE environment self-test failed; C11-C13 will report harness errors")
    print("checks present:", " ".join(all_checks()))
    return 0 if ok else 2


def _digests(args):
    pid, tier, seed, lo, hi = args
    sys.path.insert(0, VERIF)
    from . import runner

    check = runner.load_check(pid)
    out = []
    for i in range(lo, hi):
        scn = runner.make_random_scn(check, seed, i, tier)
        res = runner.run_one(check, scn)
        out.append((i, res["digest"], res["harness_error"], sorted({v["kind"] for v in res["violations"]})))
    return out


def print_digests(pid, n, seed, jobs):
    """Print 'index digest' lines for the first n random scenarios (used by the
    determinism self-test in fresh interpreters)."""
    ctx = multiprocessing.get_context("fork")
    per = max(1, n // max(1, jobs))
    work = [(pid, "quick", seed, lo, min(n, lo + per)) for lo in range(0, n, per)]
    res = []
    if jobs <= 1:
        for w in work:
            res += _digests(w)
    else:
        with cf.ProcessPoolExecutor(max_workers=jobs, mp_context=ctx) as ex:
            for r in ex.map(_digests, work):
                res += r
    res.sort()
    for i, d, he, kinds in res:
        print("D %d %s %s %s" % (i, d, "HE" if he else "-", ",".join(kinds)))
    return 0


def determinism(ids, jobs=None, n=200):
    """Each property: n seeds, digests compared across worker counts 1/4/16 and
    a fresh interpreter under another PYTHONHASHSEED."""
    ids = [i.upper() for i in ids] or all_checks()
    bad = 0
    for pid in ids:
        runs = []
        for (j, hs) in ((1, "0"), (4, "0"), (16, "0"), (16, "12345")):
            env = dict(os.environ)
            env["VERIF_HASHSEED"] = hs
            p = subprocess.run([os.path.join(VERIF, "run"), "digests", pid, str(n), "--jobs", str(j)],
                               capture_output=True, text=True, env=env, timeout=1800)
            lines = [l for l in p.stdout.splitlines() if l.startswith("D ")]
            if p.returncode != 0 or len(lines) != n:
                print("%s: digest run failed (jobs=%d hashseed=%s): rc=%d %s" % (pid, j, hs, p.returncode, p.stderr[-500:]))
                bad += 1
            runs.append(lines)
        same = all(r == runs[0] for r in runs[1:])
        he = sum(1 for l in runs[0] if " HE " in l)
        print("%s: %d seeds x 4 configurations (jobs 1/4/16, hash seeds 0/12345): %s%s" % (
            pid, n, "IDENTICAL" if same else "DIFFERENT", (" (%d harness errors)" % he) if he else ""))
        if he:
            bad += 1  # a digest of a run that ended in a harness error proves nothing
        if not same:
            bad += 1
            for a, b in zip(runs[0], runs[3]):
                if a != b:
                    print("   first difference:", a, "|", b)
                    break
    return 0 if not bad else 2


def mutants(ids):
    """Apply each patch in mutants/<id>/*.patch to a scratch copy of the tree
    under test and expect the quick check to exit 1."""
    ids = [i.upper() for i in ids] or all_checks()
    repo = os.environ.get("VERIF_REPO", "/repo")
    missed = 0
    total = 0
    marginal = []
    for pid in ids:
        for patch in sorted(glob.glob(os.path.join(VERIF, "mutants", pid, "*.patch")) +
                            glob.glob(os.path.join(VERIF, "seeded", "*", "patch.diff"))):
            if "seeded" in patch:
                meta = os.path.join(os.path.dirname(patch), "meta.json")
                try:
                    with open(meta) as f:
                        meta_d = json.load(f)
                        if pid not in (meta_d.get("run_with_checks") or [meta_d.get("property")]):
                            continue
                        if meta_d.get("superseded_by_fix"):
                            # a later "fix:" commit in the tree under test removed what this change exploited: with it the
                            # change no longer breaks the property (its own demonstration passes), nothing is left to catch
                            print("%s %-40s SKIPPED (no longer breaks the property since fix %s)" % (
                                pid, os.path.basename(os.path.dirname(patch)), meta_d["superseded_by_fix"]))
                            continue
                except Exception:
                    continue
            total += 1
            scratch = "/dev/shm/verif-mutant-%d" % os.getpid()
            shutil.rmtree(scratch, ignore_errors=True)
            os.makedirs(scratch)
            try:
                shutil.copytree(os.path.join(repo, "aiocoap"), os.path.join(scratch, "aiocoap"),
                                ignore=shutil.ignore_patterns("__pycache__"))
                p = subprocess.run(["patch", "-p1", "-s", "-d", scratch, "-i", patch], capture_output=True, text=True)
                if p.returncode != 0:
                    print("%s %s: patch does not apply: %s" % (pid, os.path.basename(patch), p.stdout[-300:]))
                    missed += 1
                    continue
                env = dict(os.environ)
                env["VERIF_REPO"] = scratch
                env["VERIF_EVIDENCE_DIR"] = os.path.join(scratch, "evidence")
                t0 = time.time()
                # the configured seed first; a change that only some seeds' quick tier catches is reported as such
                # (MARGINAL) so that the workload can be biased towards it
                tried = []
                for seed in (os.environ.get("VERIF_SEED", "0"), "1", "2"):
                    if seed in tried:
                        continue
                    tried.append(seed)
                    env["VERIF_SEED"] = seed
                    p = subprocess.run([os.path.join(VERIF, "run"), pid, "--tier", "quick"], capture_output=True,
                                       text=True, env=env, timeout=1800)
                    if p.returncode != 0:
                        break
                kinds = [l.strip() for l in p.stdout.splitlines() if l.strip().startswith("kind=")]
                name = os.path.basename(os.path.dirname(patch)) if "seeded" in patch else os.path.basename(patch)
                if p.returncode == 1:
                    print("%s %-40s CAUGHT%s in %.0fs %s" % (pid, name, "" if len(tried) == 1 else " (MARGINAL: seed %s only)" % tried[-1],
                                                             time.time() - t0, kinds[0][:100] if kinds else ""))
                    if len(tried) > 1:
                        marginal.append("%s %s" % (pid, name))
                else:
                    print("%s %-40s MISSED (rc=%d)" % (pid, name, p.returncode))
                    missed += 1
            finally:
                shutil.rmtree(scratch, ignore_errors=True)
    print("mutants: %d total, %d missed, %d marginal%s" % (total, missed, len(marginal), (": " + ", ".join(marginal)) if marginal else ""))
    return 0 if not missed else 1
