"""Environment and small helpers for the OSCORE checks (C11, C12, C13).

* `prepare()` arranges `sys.path` (stand-ins `/verif/shims` before any
  site-packages, the tree under test first, the system's dist-packages --
  which hold `cryptography` 38 for CPython 3.11 -- *appended*), imports
  `aiocoap.oscore` from VERIF_REPO and returns the module.  A missing
  `cryptography` is reported as `EnvError` (a harness error naming the cause).
* `selftest()` validates the cbor2 stand-in: RFC 8949 Appendix A examples of the
  supported types, then the RFC 8613 Appendix C vectors of
  /repo/tests/test_oscore.py (TestOSCOAPStatic, TestOSCORECompression,
  TestAlgorithms) with `aiocoap.defaults.oscore_missing_modules` forced to [].
  Run it as `cd /verif && python3-vt -B -m simkit.oscore_env` (exit 0 = ok),
  or call `selftest_subprocess()` from another interpreter (`./run setup`).
* helpers: in-memory security contexts, seeded `secrets`, the byte-level wire
  (`to_wire` / `from_wire`), OSCORE option parsing independent of aiocoap.
"""

import hashlib
import os
import sys

VERIF = os.path.dirname(os.path.dirname(os.path.abspath(__file__)))
SHIMS = os.path.join(VERIF, "shims")
DISTPKG = "/usr/lib/python3/dist-packages"
PY311 = os.environ.get("VERIF_PY311", "python3-vt")

MAX_SEQNO = 2 ** 40 - 1


class EnvError(RuntimeError):
    pass


_STATE = {}


def prepare():
    """Idempotent. Returns the module aiocoap.oscore of the tree under test."""
    if "osc" in _STATE:
        return _STATE["osc"]
    if VERIF not in sys.path:
        sys.path.insert(0, VERIF)
    from simkit.world import import_aiocoap, REPO

    if SHIMS in sys.path:
        sys.path.remove(SHIMS)
    sys.path.insert(0, SHIMS)
    if DISTPKG not in sys.path and os.path.isdir(DISTPKG):
        sys.path.append(DISTPKG)  # appended, never prepended
    import_aiocoap()  # puts VERIF_REPO at sys.path[0], asserts origin
    import cbor2
    import filelock

    for mod in (cbor2, filelock):
        if not getattr(mod, "IS_VERIF_SHIM", False):
            # a real package would be fine too, but then the evidence must not call it a stub
            _STATE.setdefault("real_modules", []).append(mod.__name__)
    try:
        import cryptography  # noqa: F401
        from cryptography.hazmat.primitives.ciphers.aead import AESCCM  # noqa: F401
    except Exception as e:  # ImportError, or a binary module built for another CPython
        raise EnvError("OSCORE checks need the 'cryptography' package under %s: %r "
                       "(expected in %s for CPython 3.11)" % (sys.executable, e, DISTPKG))
    try:
        import aiocoap.oscore as osc
    except Exception as e:
        raise EnvError("cannot import aiocoap.oscore from %s: %r" % (REPO, e))
    origin = os.path.realpath(osc.__file__)
    if not origin.startswith(os.path.realpath(REPO) + os.sep):
        raise EnvError("aiocoap.oscore imported from %s, not from %s" % (origin, REPO))
    _STATE["osc"] = osc
    return osc


# --------------------------------------------------------------------------- selftest

# RFC 8949 Appendix A, restricted to the types the stand-in supports
_RFC8949 = [
    (0, "00"), (1, "01"), (10, "0a"), (23, "17"), (24, "1818"), (25, "1819"), (100, "1864"),
    (1000, "1903e8"), (1000000, "1a000f4240"), (1000000000000, "1b000000e8d4a51000"),
    (18446744073709551615, "1bffffffffffffffff"), (-1, "20"), (-10, "29"), (-100, "3863"), (-1000, "3903e7"),
    (-18446744073709551616, "3bffffffffffffffff"),
    (False, "f4"), (True, "f5"), (None, "f6"),
    (b"", "40"), (bytes.fromhex("01020304"), "4401020304"),
    ("", "60"), ("a", "6161"), ("IETF", "6449455446"), ("\"\\", "62225c"), ("ü", "62c3bc"),
    ("水", "63e6b0b4"), ("\U00010151", "64f0908591"),
    ([], "80"), ([1, 2, 3], "83010203"), ([1, [2, 3], [4, 5]], "8301820203820405"),
    (list(range(1, 26)), "98190102030405060708090a0b0c0d0e0f101112131415161718181819"),
    ({}, "a0"), ({1: 2, 3: 4}, "a201020304"), ({"a": 1, "b": [2, 3]}, "a26161016162820203"),
    (["a", {"b": "c"}], "826161a161626163"),
    ({"a": "A", "b": "B", "c": "C", "d": "D", "e": "E"}, "a56161614161626142616361436164614461656145"),
]


def selftest(verbose=True):
    """Returns 0 when the stand-ins are good enough for aiocoap.oscore."""
    import unittest

    osc = prepare()
    import cbor2

    bad = 0
    for value, hx in _RFC8949:
        enc = cbor2.dumps(value)
        if enc.hex() != hx:
            bad += 1
            print("cbor2 stand-in: dumps(%r) = %s, expected %s" % (value, enc.hex(), hx))
        dec = cbor2.loads(bytes.fromhex(hx))
        if dec != value or type(dec) is not type(value):
            bad += 1
            print("cbor2 stand-in: loads(%s) = %r, expected %r" % (hx, dec, value))
    for hx in ("", "18", "1903", "44010203", "6261", "8301", "a101", "1c", "5f", "c0", "fb3ff199999999999a", "62c328"):
        try:
            cbor2.loads(bytes.fromhex(hx))
        except cbor2.CBORDecodeError:
            pass
        else:
            bad += 1
            print("cbor2 stand-in: loads(%s) did not raise CBORDecodeError" % hx)
    # the structures OSCORE builds (RFC 8613 C.1.1 info for the sender key, C.4 AAD)
    info = cbor2.dumps([b"", None, 10, "Key", 16])
    if info.hex() != "8540f60a634b657910":
        bad += 1
        print("cbor2 stand-in: RFC 8613 C.1.1 info mismatch: %s" % info.hex())
    aad = cbor2.dumps(["Encrypt0", b"", cbor2.dumps([1, [10], b"", bytes.fromhex("14"), b""])])
    if aad.hex() != "8368456e63727970743040488501810a40411440":
        bad += 1
        print("cbor2 stand-in: RFC 8613 C.4 AAD mismatch: %s" % aad.hex())

    import aiocoap.defaults

    saved = aiocoap.defaults.oscore_missing_modules
    aiocoap.defaults.oscore_missing_modules = lambda: []
    ran = 0
    try:
        from simkit.world import REPO

        if REPO not in sys.path:
            sys.path.insert(0, REPO)
        sys.modules.pop("tests.test_oscore", None)
        import importlib

        t = importlib.import_module("tests.test_oscore")
        origin = os.path.realpath(t.__file__)
        if not origin.startswith(os.path.realpath(REPO) + os.sep):
            raise EnvError("tests.test_oscore imported from %s" % origin)
        suite = unittest.TestSuite()
        loader = unittest.TestLoader()
        for name in ("TestOSCOAPStatic", "TestOSCORECompression", "TestAlgorithms"):
            suite.addTests(loader.loadTestsFromTestCase(getattr(t, name)))
        stream = sys.stdout if verbose else open(os.devnull, "w")
        res = unittest.TextTestRunner(stream=stream, verbosity=1 if verbose else 0).run(suite)
        ran = res.testsRun
        skipped = len(res.skipped)
        ok = res.wasSuccessful() and ran >= 15 and skipped == 0
        if not ok:
            bad += 1
            print("RFC 8613 vector tests: run=%d skipped=%d failures=%d errors=%d" % (
                ran, skipped, len(res.failures), len(res.errors)))
    finally:
        aiocoap.defaults.oscore_missing_modules = saved
    print("selftest-oscore: cbor2 stand-in %s; %d RFC 8949 examples, %d RFC 8613 / algorithm tests; "
          "aiocoap.oscore from %s; cryptography %s; python %s" % (
              "ok" if not bad else "FAILED", len(_RFC8949), ran, os.path.dirname(osc.__file__),
              __import__("cryptography").__version__, sys.version.split()[0]))
    return 0 if not bad else 1


def selftest_subprocess():
    """For `./run setup`, which itself runs under another interpreter."""
    import subprocess

    env = dict(os.environ, PYTHONHASHSEED="0", PYTHONDONTWRITEBYTECODE="1")
    p = subprocess.run([PY311, "-B", "-m", "simkit.oscore_env"], cwd=VERIF, env=env,
                       capture_output=True, text=True, timeout=300)
    sys.stdout.write(p.stdout[-3000:])
    if p.returncode != 0:
        sys.stdout.write(p.stderr[-3000:])
    return p.returncode


# --------------------------------------------------------------------------- helpers for the checks


class SeededSecrets:
    """Stand-in for the module `secrets` inside aiocoap.oscore: a deterministic
    `token_bytes` that never returns the same value twice (the counter is part
    of the hashed input and of the output)."""

    def __init__(self, seed):
        self.seed = str(seed)
        self.n = 0
        self.issued = []

    def token_bytes(self, nbytes=32):
        self.n += 1
        out = b""
        i = 0
        while len(out) < nbytes:
            out += hashlib.sha256(("%s|%d|%d" % (self.seed, self.n, i)).encode()).digest()
            i += 1
        v = out[:nbytes]
        if nbytes >= 4:
            v = self.n.to_bytes(2, "big") + v[2:]  # distinct by construction
        self.issued.append(v)
        return v

    def token_hex(self, nbytes=32):
        return self.token_bytes(nbytes).hex()


def memory_context_class(osc):
    """In-memory security context (as tests/test_oscore.py builds it)."""
    cls = _STATE.get("memcls")
    if cls is not None and _STATE.get("memcls_for") is osc:
        return cls

    class MemoryContext(osc.CanProtect, osc.CanUnprotect, osc.SecurityContextUtils):
        echo_recovery = None

        def post_seqnoincrease(self):
            pass

    _STATE["memcls"] = MemoryContext
    _STATE["memcls_for"] = osc
    return MemoryContext


def make_context(osc, alg, hashfun, sender_id, recipient_id, id_context, salt, secret, seqno=0,
                 window=32, initialized=True, echo=None):
    ctx = memory_context_class(osc)()
    ctx.alg_aead = osc.algorithms[alg]
    ctx.hashfun = osc.hashfunctions[hashfun]
    ctx.sender_id = sender_id
    ctx.recipient_id = recipient_id
    ctx.id_context = id_context
    ctx.derive_keys(salt, secret)
    ctx.sender_sequence_number = seqno
    ctx.recipient_replay_window = osc.ReplayWindow(window, lambda: None)
    if initialized:
        ctx.recipient_replay_window.initialize_empty()
    ctx.echo_recovery = echo
    return ctx


def aead_algorithms(osc):
    """Names of the non-group AEAD algorithms, in registry order."""
    return [name for name, a in osc.algorithms.items() if isinstance(a, osc.AeadAlgorithm)]


def to_wire(msg, mid, token, mtype=None):
    """Serialise an outgoing aiocoap message as a datagram."""
    from aiocoap.numbers.types import Type

    msg.mid = mid
    msg.token = token
    msg.mtype = Type.CON if mtype is None else mtype
    return msg.encode()


def from_wire(data):
    """Parse a datagram; returns an INCOMING aiocoap message (may raise
    aiocoap.error.UnparsableMessage and whatever else the parser raises)."""
    from aiocoap import Message

    return Message.decode(data)


def build_message(code, options, payload):
    """An OUTGOING aiocoap message from raw (number, value) options."""
    from aiocoap import Message
    from simkit import refcodec as rc

    m = Message(code=code)
    if options:
        m.opt.decode(rc.encode_options(options, b""))
    m.payload = payload
    return m


def options_of(msg):
    """[(number, value)] of an aiocoap message, decoded by the reference codec."""
    from simkit import refcodec as rc

    opts, _ = rc.decode_options(msg.opt.encode(), 0)
    return [(int(n), bytes(v)) for n, v in opts]


def lenient_oscore_option(value):
    """Field view of a (possibly tampered) OSCORE option value the way a
    tolerant receiver reads it: n up to 7, reserved bits reported, trailing
    bytes reported. Raises ValueError only when announced bytes are missing."""
    if value == b"":
        return {"flags": 0, "piv": None, "kid_context": None, "kid": None, "rest": b"", "reserved": 0, "group": False}
    fb = value[0]
    tail = value[1:]
    n = fb & 7
    piv = None
    if n:
        if len(tail) < n:
            raise ValueError("short piv")
        piv, tail = tail[:n], tail[n:]
    ctxv = None
    if fb & 0x10:
        if not tail or len(tail) - 1 < tail[0]:
            raise ValueError("short kid context")
        s = tail[0]
        ctxv, tail = tail[1:1 + s], tail[1 + s:]
    kid = None
    if fb & 0x08:
        kid, tail = tail, b""
    return {"flags": fb, "piv": piv, "kid_context": ctxv, "kid": kid, "rest": tail, "reserved": fb & 0xC0,
            "group": bool(fb & 0x20)}


def build_oscore_option(piv=None, kid=None, kid_context=None, extra_flags=0):
    fb = (len(piv) if piv else 0) | (0x08 if kid is not None else 0) | (0x10 if kid_context is not None else 0)
    fb |= extra_flags
    out = bytes([fb & 0xFF]) + (piv or b"")
    if kid_context is not None:
        out += bytes([len(kid_context) & 0xFF]) + kid_context
    if kid is not None:
        out += kid
    return out


def parse_oscore_option(value):
    """Independent parser of the OSCORE option value (RFC 8613 section 6.1).
    Returns dict(flags, n, piv (bytes|None), kid_context (bytes|None), kid (bytes|None), rest) or
    raises ValueError when the value is malformed."""
    if value == b"":
        return {"flags": 0, "n": 0, "piv": None, "kid_context": None, "kid": None, "rest": b""}
    fb = value[0]
    tail = value[1:]
    n = fb & 7
    if fb & 0xC0 or n in (6, 7):
        raise ValueError("reserved bits")
    piv = None
    if n:
        if len(tail) < n:
            raise ValueError("short piv")
        piv, tail = tail[:n], tail[n:]
    ctxv = None
    if fb & 0x10:
        if not tail or len(tail) - 1 < tail[0]:
            raise ValueError("short kid context")
        s = tail[0]
        ctxv, tail = tail[1:1 + s], tail[1 + s:]
    kid = None
    if fb & 0x08:
        kid, tail = tail, b""
    return {"flags": fb, "n": n, "piv": piv, "kid_context": ctxv, "kid": kid, "rest": tail}


def h(b):
    return None if b is None else bytes(b).hex()


def unh(s):
    return None if s is None else bytes.fromhex(s)


if __name__ == "__main__":
    sys.exit(selftest())
