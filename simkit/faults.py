"""Swarm configuration of network faults and the fate generator built from it."""

LAT = 0.005


def swarm(rnd, kinds=("drop", "dup", "delay", "reorder"), fault_free=0.15, heavy=0.15):
    """Pick which fault kinds are enabled in this run and their rates."""
    cfg = {"p_drop": 0.0, "p_dup": 0.0, "p_delay": 0.0, "p_reorder": 0.0, "p_bounce": 0.0,
           "p_corrupt": 0.0, "delay_max": 1.0}
    if rnd.chance(fault_free):
        return cfg
    scale = 3.0 if rnd.chance(heavy) else 1.0
    for k in kinds:
        if rnd.chance(0.6):
            base = {"drop": 0.12, "dup": 0.12, "delay": 0.25, "reorder": 0.1, "bounce": 0.03,
                    "corrupt": 0.1}[k]
            cfg["p_" + k] = round(min(0.6, base * scale * rnd.uniform(0.3, 1.5)), 4)
    cfg["delay_max"] = rnd.choice([0.05, 0.5, 3.0, 12.0])
    return cfg


def active(cfg):
    """True when the configuration injects any network fault at all (an all-zero swarm configuration does not)."""
    return any((cfg or {}).get(k) for k in ("p_drop", "p_dup", "p_delay", "p_reorder", "p_bounce", "p_corrupt"))


def fate_gen(cfg):
    if not any(cfg.get(k) for k in ("p_drop", "p_dup", "p_delay", "p_reorder", "p_bounce", "p_corrupt")):
        return None
    pd, pu, pl, pr, pb, pc = (cfg.get("p_drop", 0), cfg.get("p_dup", 0), cfg.get("p_delay", 0),
                              cfg.get("p_reorder", 0), cfg.get("p_bounce", 0), cfg.get("p_corrupt", 0))
    dmax = cfg.get("delay_max", 1.0)

    def gen(r, entry):
        x = r.random()
        if x < pd:
            return ["drop"]
        x -= pd
        if x < pu:
            n = 2 if r.chance(0.7) else 3
            return ["dup", [round(LAT + (r.uniform(0, dmax) if i else 0.0), 6) for i in range(n)]]
        x -= pu
        if x < pl:
            return ["deliver", round(LAT + r.uniform(0, dmax), 6)]
        x -= pl
        if x < pr:
            # hold back so that later datagrams overtake this one
            return ["deliver", round(LAT + r.uniform(0.02, 0.3), 6)]
        x -= pr
        if x < pb:
            return ["bounce", r.choice([111, 113, 101]), LAT * 2]
        x -= pb
        if x < pc:
            k = r.choice(["flip", "flip", "trunc", "insert", "replace"])
            if k == "flip":
                spec = ["flip", r.randrange(0, 1 << 16)]
            elif k == "trunc":
                spec = ["trunc", r.randrange(0, 1 << 16)]
            else:
                spec = [k, r.randrange(0, 1 << 16), r.randrange(0, 256)]
            return ["corrupt", LAT, spec]
        return ["deliver", LAT]

    return gen
