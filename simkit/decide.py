"""Decision source: every lazily made choice of a run (datagram fates, peer
reactions, random draws of the library, stalls, I/O errors) goes through
`Decider.get(key, default, gen)`.

* generation mode: the value is produced by `gen(rnd)` where `rnd` is a small
  PRNG derived from (run_seed, key) only -- so decisions on one link do not
  shift when operations elsewhere are removed -- and recorded iff it differs
  from the default;
* replay mode: the value is read from the recorded dict, missing keys mean
  default.  No PRNG is involved in replay.
"""

import hashlib
import json

MASK = (1 << 64) - 1


class KeyRnd:
    """splitmix64 stream; the subset of random.Random's interface we use."""

    __slots__ = ("s",)

    def __init__(self, seed):
        self.s = seed & MASK

    def _next(self):
        self.s = (self.s + 0x9E3779B97F4A7C15) & MASK
        z = self.s
        z = ((z ^ (z >> 30)) * 0xBF58476D1CE4E5B9) & MASK
        z = ((z ^ (z >> 27)) * 0x94D049BB133111EB) & MASK
        return z ^ (z >> 31)

    def random(self):
        return (self._next() >> 11) / 9007199254740992.0

    def randrange(self, a, b=None):
        if b is None:
            a, b = 0, a
        return a + self._next() % (b - a)

    def randint(self, a, b):
        return a + self._next() % (b - a + 1)

    def uniform(self, a, b):
        return a + (b - a) * self.random()

    def choice(self, seq):
        return seq[self._next() % len(seq)]

    def chance(self, p):
        return self.random() < p

    def shuffle(self, lst):
        for i in range(len(lst) - 1, 0, -1):
            j = self._next() % (i + 1)
            lst[i], lst[j] = lst[j], lst[i]

    def sample(self, seq, k):
        lst = list(seq)
        self.shuffle(lst)
        return lst[:k]

    def randbytes(self, n):
        out = bytearray()
        while len(out) < n:
            out += self._next().to_bytes(8, "little")
        return bytes(out[:n])

    def weighted(self, pairs):
        """pairs: [(weight, value), ...]"""
        total = sum(w for w, _ in pairs)
        x = self.random() * total
        for w, v in pairs:
            x -= w
            if x < 0:
                return v
        return pairs[-1][1]


def mix(*parts):
    h = hashlib.blake2b(
        "|".join(str(p) for p in parts).encode(), digest_size=8
    ).digest()
    return int.from_bytes(h, "big")


def rnd_for(*parts):
    return KeyRnd(mix(*parts))


def jnorm(v):
    """Normalise to what a JSON round trip would give (tuples -> lists)."""
    if isinstance(v, (list, tuple)):
        return [jnorm(x) for x in v]
    if isinstance(v, dict):
        return {str(k): jnorm(x) for k, x in v.items()}
    if isinstance(v, (bytes, bytearray)):
        raise TypeError("bytes in decision value; use hex")
    return v


class Decider:
    def __init__(self, seed, replay=None):
        self.seed = seed
        self.replay = replay  # dict or None
        self.record = {}
        self.counters = {}
        self.asked = 0

    @property
    def replaying(self):
        return self.replay is not None

    def index(self, site):
        n = self.counters.get(site, 0)
        self.counters[site] = n + 1
        return n

    def get(self, key, default, gen):
        self.asked += 1
        if self.replay is not None:
            if key in self.replay:
                v = self.replay[key]
                self.record[key] = v
                return v
            return default
        v = jnorm(gen(KeyRnd(mix(self.seed, key))))
        if v != default:
            self.record[key] = v
        return v

    def get_indexed(self, site, default, gen):
        return self.get("%s#%d" % (site, self.index(site)), default, gen)


class DrawSource:
    """Stand-in for the `random` module inside aiocoap.messagemanager /
    aiocoap.tokenmanager.  `bias` may map a site to a generator function."""

    def __init__(self, decider, name, bias=None):
        self.decider = decider
        self.name = name
        self.bias = bias or {}
        self.log = []

    def randint(self, a, b):
        site = "draw:%s:randint" % self.name
        g = self.bias.get("randint")
        v = self.decider.get_indexed(
            site, a, (lambda r: g(r, a, b)) if g else (lambda r: r.randint(a, b))
        )
        self.log.append(("randint", a, b, v))
        return v

    def uniform(self, a, b):
        site = "draw:%s:uniform" % self.name
        g = self.bias.get("uniform")
        v = self.decider.get_indexed(
            site, a, (lambda r: g(r, a, b)) if g else (lambda r: r.uniform(a, b))
        )
        self.log.append(("uniform", a, b, v))
        return v


def canonical(obj):
    return json.dumps(obj, sort_keys=True, separators=(",", ":"))
