"""SimFS / SimPath: an in-memory POSIX-like file system whose *path arithmetic*
is the real pathlib and whose *I/O* is simulated and journalled (DESIGN 3.5,
use C19).

* `SimFS` -- directories and regular files (inodes, so an open handle keeps
  reading the object it opened even after a rename replaced the name),
  `mtime_ns` / `ctime_ns` taken from the virtual clock plus a change counter
  (two changes in the same instant still differ), kernel-like path walking
  (ENOENT / ENOTDIR / ENAMETOOLONG / EISDIR / ENOTEMPTY, `ValueError("embedded
  null byte")` for a NUL anywhere in a path argument) and an **operation
  journal**: every call made through the system-under-test facing API is one
  numbered entry with its raw and its normalised absolute path arguments,
  recorded *before* the operation is attempted (so refused attempts are
  visible as well).

* `SimPath` -- subclass of `pathlib.PurePosixPath` (clean on Python 3.12):
  `/`-joining, `..`, absolute right-hand sides, `parent`, `relative_to`,
  `name`, hashing and equality stay real pathlib code; only the I/O methods go
  to the `SimFS` the class is bound to (`fs.Path`).

* `TempfileShim` -- what `aiocoap.cli.fileserver` uses of the `tempfile`
  module (`NamedTemporaryFile`, plus `mkstemp`-like helpers), on the SimFS.

* `install(fs, module)` / `uninstall(saved)` -- put `fs.Path` and the tempfile
  shim in place of the module-level names `Path` and `tempfile` of
  `aiocoap.cli.fileserver`.

The harness-side API (`add_dir`, `add_file`, `snapshot`, `read`, `lookup`) is
not journalled.
"""

import errno
import os
import posixpath
import stat as _stat
from pathlib import PurePosixPath

NAME_MAX = 255
PATH_MAX = 4096
DEV = 0x51


class StatResult:
    __slots__ = ("st_mode", "st_ino", "st_dev", "st_nlink", "st_uid", "st_gid", "st_size",
                 "st_atime", "st_mtime", "st_ctime", "st_atime_ns", "st_mtime_ns", "st_ctime_ns")

    def __init__(self, node):
        self.st_mode = node.mode
        self.st_ino = node.ino
        self.st_dev = DEV
        self.st_nlink = node.nlink
        self.st_uid = 1000
        self.st_gid = 1000
        self.st_size = len(node.data) if node.children is None else 4096
        self.st_mtime_ns = node.mtime_ns
        self.st_ctime_ns = node.ctime_ns
        self.st_atime_ns = node.mtime_ns
        self.st_mtime = node.mtime_ns / 1e9
        self.st_ctime = node.ctime_ns / 1e9
        self.st_atime = self.st_mtime

    def __repr__(self):
        return "StatResult(mode=%o, ino=%d, size=%d, mtime_ns=%d, ctime_ns=%d)" % (
            self.st_mode, self.st_ino, self.st_size, self.st_mtime_ns, self.st_ctime_ns)


class Node:
    __slots__ = ("ino", "mode", "children", "data", "mtime_ns", "ctime_ns", "nlink")

    def __init__(self, ino, is_dir, stamp, perm=None):
        self.ino = ino
        if is_dir:
            self.mode = _stat.S_IFDIR | (0o755 if perm is None else perm)
            self.children = {}
            self.data = None
            self.nlink = 2
        else:
            self.mode = _stat.S_IFREG | (0o644 if perm is None else perm)
            self.children = None
            self.data = b""
            self.nlink = 1
        self.mtime_ns = stamp
        self.ctime_ns = stamp

    @property
    def is_dir(self):
        return self.children is not None


def _oserr(code, path, path2=None):
    cls = {errno.ENOENT: FileNotFoundError, errno.ENOTDIR: NotADirectoryError,
           errno.EISDIR: IsADirectoryError, errno.EEXIST: FileExistsError,
           errno.EACCES: PermissionError, errno.EPERM: PermissionError}.get(code, OSError)
    if path2 is not None:
        return cls(code, os.strerror(code), path, None, path2)
    return cls(code, os.strerror(code), path)


def normalise(raw, cwd="/"):
    """Lexically normalised absolute form of a path string (what the journal
    stores next to the raw argument).  NUL bytes are kept as they are."""
    if not raw.startswith("/"):
        raw = posixpath.join(cwd, raw)
    n = posixpath.normpath(raw)
    if n.startswith("//"):
        n = "/" + n.lstrip("/")
    return n


def inside(path, root):
    """Is the normalised absolute `path` the directory `root` or below it?"""
    root = root.rstrip("/") or "/"
    if root == "/":
        return True
    return path == root or path.startswith(root + "/")


class SimFile:
    """An open file description on a SimFS regular file (binary or text)."""

    def __init__(self, fs, node, path, mode, fd):
        self._fs = fs
        self._node = node
        self.name = path
        self.mode = mode
        self._fd = fd
        self._pos = 0
        self.closed = False
        self._binary = "b" in mode
        self._readable = "r" in mode or "+" in mode
        self._writable = any(c in mode for c in "wax+")
        self._append = "a" in mode

    # -- helpers
    def _check(self):
        if self.closed:
            raise ValueError("I/O operation on closed file.")

    def fileno(self):
        self._check()
        return self._fd

    def readable(self):
        return self._readable

    def writable(self):
        return self._writable

    def seekable(self):
        return True

    def seek(self, pos, whence=0):
        self._check()
        if whence == 0:
            new = pos
        elif whence == 1:
            new = self._pos + pos
        else:
            new = len(self._node.data) + pos
        if new < 0:
            raise OSError(errno.EINVAL, os.strerror(errno.EINVAL))
        self._pos = new
        return new

    def tell(self):
        self._check()
        return self._pos

    def read(self, n=-1):
        self._check()
        if not self._readable:
            import io
            raise io.UnsupportedOperation("not readable")
        self._fs._journal("read", [self.name], fd=self._fd, offset=self._pos, size=n)
        data = self._node.data
        if n is None or n < 0:
            out = bytes(data[self._pos:])
        else:
            out = bytes(data[self._pos:self._pos + n])
        self._pos += len(out)
        return out if self._binary else out.decode("utf-8")

    def write(self, b):
        self._check()
        if not self._writable:
            import io
            raise io.UnsupportedOperation("not writable")
        if not self._binary:
            b = b.encode("utf-8")
        b = bytes(b)
        self._fs._journal("write", [self.name], fd=self._fd, offset=self._pos, size=len(b))
        node = self._node
        if self._append:
            self._pos = len(node.data)
        data = node.data
        if self._pos > len(data):
            data = data + b"\0" * (self._pos - len(data))
        node.data = data[:self._pos] + b + data[self._pos + len(b):]
        self._pos += len(b)
        st = self._fs._stamp()
        node.mtime_ns = st
        node.ctime_ns = st
        return len(b)

    # the rest of what io.BufferedReader / BufferedRandom offer
    def peek(self, n=0):
        self._check()
        if not self._readable:
            import io
            raise io.UnsupportedOperation("not readable")
        self._fs._journal("read", [self.name], fd=self._fd, offset=self._pos, size=n, peek=True)
        return bytes(self._node.data[self._pos:self._pos + max(n, 1, 4096)])

    def read1(self, n=-1):
        return self.read(n)

    def readall(self):
        return self.read()

    def readinto(self, b):
        data = self.read(len(b))
        b[:len(data)] = data if self._binary else data.encode("utf-8")
        return len(data)

    readinto1 = readinto

    def readline(self, size=-1):
        self._check()
        data = self._node.data
        end = data.find(b"\n", self._pos)
        end = len(data) if end < 0 else end + 1
        if size is not None and size >= 0:
            end = min(end, self._pos + size)
        return self.read(end - self._pos)

    def readlines(self, hint=-1):
        return list(self)

    def isatty(self):
        return False

    def truncate(self, size=None):
        self._check()
        if size is None:
            size = self._pos
        self._fs._journal("truncate", [self.name], fd=self._fd, size=size)
        d = self._node.data
        self._node.data = d[:size] + b"\0" * max(0, size - len(d))
        st = self._fs._stamp()
        self._node.mtime_ns = st
        self._node.ctime_ns = st
        return size

    def flush(self):
        self._check()

    def close(self):
        if self.closed:
            return
        self._fs._journal("close", [self.name], fd=self._fd)
        self.closed = True
        self._fs.open_files.pop(self._fd, None)

    def __enter__(self):
        self._check()
        return self

    def __exit__(self, *a):
        self.close()
        return False

    def __iter__(self):
        data = self.read()
        return iter(data.splitlines(True))


class SimFS:
    def __init__(self, clock=None, epoch_ns=1_700_000_000 * 10 ** 9, cwd="/"):
        self.clock = clock or (lambda: 0.0)
        self.epoch_ns = epoch_ns
        self.cwd = cwd
        self.changes = 0
        self._ino = 1
        self._fd = 2
        self._tmp = 0
        self.journal = []
        self.journal_enabled = True
        self.ctx_fn = None  # () -> JSON-able attribution stored with each journal entry
        self.on_op = None  # fn(entry) called for every journal entry
        self.open_files = {}
        self.root = Node(self._next_ino(), True, self._stamp())
        self.Path = type("SimPath", (SimPath,), {"_fs": self})
        self.tempfile = TempfileShim(self)

    # ---------------------------------------------------------------- basics
    def _next_ino(self):
        self._ino += 1
        return self._ino

    def _stamp(self):
        self.changes += 1
        return self.epoch_ns + int(round(self.clock() * 1e9)) + self.changes

    def _journal(self, op, raws, **extra):
        """Record one system-under-test operation (before it is attempted)."""
        if not self.journal_enabled:
            return None
        e = {"n": len(self.journal), "t": self.clock(), "op": op, "raw": list(raws),
             "paths": [normalise(r, self.cwd) for r in raws],
             "ctx": self.ctx_fn() if self.ctx_fn is not None else None, "err": None}
        e.update(extra)
        self.journal.append(e)
        if self.on_op is not None:
            self.on_op(e)
        return e

    @staticmethod
    def _fail(entry, exc):
        if entry is not None:
            entry["err"] = errno.errorcode.get(getattr(exc, "errno", None), type(exc).__name__)
        return exc

    def _str(self, path):
        p = os.fspath(path)
        if isinstance(p, bytes):
            p = p.decode("utf-8", "surrogateescape")
        return p

    # ---------------------------------------------------------------- path walking (kernel semantics)
    def _walk(self, raw, want_parent=False):
        """Resolve like the kernel does: every intermediate component must
        exist and be a directory, `..` is followed physically.  Returns
        (parent_node, name, node_or_None); for the root: (None, '', root)."""
        if "\0" in raw:
            raise ValueError("embedded null byte")
        if raw == "":
            raise _oserr(errno.ENOENT, raw)
        if len(raw.encode("utf-8", "surrogateescape")) >= PATH_MAX:
            raise _oserr(errno.ENAMETOOLONG, raw)
        full = raw if raw.startswith("/") else posixpath.join(self.cwd, raw)
        comps = [c for c in full.split("/") if c not in ("", ".")]
        trailing_slash = full.endswith("/") or full.endswith("/.")
        stack = [self.root]
        names = [""]
        for i, c in enumerate(comps):
            last = i == len(comps) - 1
            cur = stack[-1]
            if not cur.is_dir:
                raise _oserr(errno.ENOTDIR, raw)
            if c == "..":
                if len(stack) > 1:
                    stack.pop()
                    names.pop()
                continue
            if len(c.encode("utf-8", "surrogateescape")) > NAME_MAX:
                raise _oserr(errno.ENAMETOOLONG, raw)
            child = cur.children.get(c)
            if child is None:
                if last:
                    if trailing_slash and not want_parent:
                        raise _oserr(errno.ENOENT, raw)
                    return cur, c, None
                raise _oserr(errno.ENOENT, raw)
            stack.append(child)
            names.append(c)
        node = stack[-1]
        if trailing_slash and not node.is_dir:
            raise _oserr(errno.ENOTDIR, raw)
        if len(stack) == 1:
            return None, "", node
        return stack[-2], names[-1], node

    # ---------------------------------------------------------------- harness side (not journalled)
    def add_dir(self, path, parents=True):
        node = self.root
        for c in [c for c in path.split("/") if c]:
            nxt = node.children.get(c)
            if nxt is None:
                if not parents and c != path.rstrip("/").split("/")[-1]:
                    raise _oserr(errno.ENOENT, path)
                nxt = Node(self._next_ino(), True, self._stamp())
                node.children[c] = nxt
                node.nlink += 1
            node = nxt
        return node

    def add_file(self, path, data=b""):
        d, name = posixpath.split(path)
        parent = self.add_dir(d)
        node = Node(self._next_ino(), False, self._stamp())
        node.data = bytes(data)
        parent.children[name] = node
        return node

    def lookup(self, path):
        try:
            return self._walk(path)[2]
        except (OSError, ValueError):
            return None

    def read(self, path):
        n = self.lookup(path)
        return None if n is None or n.is_dir else bytes(n.data)

    def snapshot(self, under=None, exclude=None, meta=False):
        """{absolute path: None for a directory | bytes for a file} of the
        whole tree, of the subtree `under` (inclusive), or of everything
        *not* under `exclude`.  With meta=True values are (data, ino,
        mtime_ns)."""
        out = {}

        def rec(node, path):
            keep = True
            if under is not None and not inside(path, under):
                keep = False
            if exclude is not None and inside(path, exclude):
                keep = False
            if keep:
                val = None if node.is_dir else bytes(node.data)
                out[path] = (val, node.ino, node.mtime_ns) if meta else val
            if node.is_dir:
                for name, ch in node.children.items():
                    rec(ch, (path.rstrip("/") + "/" + name))

        rec(self.root, "/")
        return out

    # ---------------------------------------------------------------- "system calls" (journalled)
    def stat(self, path):
        raw = self._str(path)
        e = self._journal("stat", [raw])
        try:
            _, _, node = self._walk(raw)
            if node is None:
                raise _oserr(errno.ENOENT, raw)
        except (OSError, ValueError) as exc:
            raise self._fail(e, exc)
        return StatResult(node)

    lstat = stat

    def open(self, path, mode="r"):
        raw = self._str(path)
        e = self._journal("open", [raw], mode=mode)
        try:
            parent, name, node = self._walk(raw)
            creating = any(c in mode for c in "wax")
            if node is None:
                if not creating:
                    raise _oserr(errno.ENOENT, raw)
                node = Node(self._next_ino(), False, self._stamp())
                parent.children[name] = node
                st = self._stamp()
                parent.mtime_ns = st
                parent.ctime_ns = st
            else:
                if "x" in mode:
                    raise _oserr(errno.EEXIST, raw)
                if node.is_dir:
                    raise _oserr(errno.EISDIR, raw)
                if "w" in mode:
                    node.data = b""
                    st = self._stamp()
                    node.mtime_ns = st
                    node.ctime_ns = st
        except (OSError, ValueError) as exc:
            raise self._fail(e, exc)
        self._fd += 1
        f = SimFile(self, node, raw, mode, self._fd)
        if e is not None:
            e["fd"] = self._fd
        self.open_files[self._fd] = f
        return f

    def listdir(self, path):
        raw = self._str(path)
        e = self._journal("scandir", [raw])
        try:
            _, _, node = self._walk(raw)
            if node is None:
                raise _oserr(errno.ENOENT, raw)
            if not node.is_dir:
                raise _oserr(errno.ENOTDIR, raw)
        except (OSError, ValueError) as exc:
            raise self._fail(e, exc)
        return list(node.children)

    def unlink(self, path):
        raw = self._str(path)
        e = self._journal("unlink", [raw])
        try:
            parent, name, node = self._walk(raw)
            if node is None:
                raise _oserr(errno.ENOENT, raw)
            if node.is_dir:
                raise _oserr(errno.EISDIR, raw)
            del parent.children[name]
            node.nlink -= 1
            st = self._stamp()
            parent.mtime_ns = st
            parent.ctime_ns = st
            node.ctime_ns = st
        except (OSError, ValueError) as exc:
            raise self._fail(e, exc)

    def rename(self, src, dst):
        rs, rd = self._str(src), self._str(dst)
        e = self._journal("rename", [rs, rd])
        try:
            sp, sname, snode = self._walk(rs, want_parent=True)
            if snode is None:
                raise _oserr(errno.ENOENT, rs, rd)
            if sp is None:
                raise _oserr(errno.EBUSY, rs, rd)
            dp, dname, dnode = self._walk(rd, want_parent=True)
            if dp is None:
                raise _oserr(errno.EBUSY, rs, rd)
            if dnode is snode:
                return
            if dnode is not None:
                if dnode.is_dir and not snode.is_dir:
                    raise _oserr(errno.EISDIR, rs, rd)
                if snode.is_dir and not dnode.is_dir:
                    raise _oserr(errno.ENOTDIR, rs, rd)
                if dnode.is_dir and dnode.children:
                    raise _oserr(errno.ENOTEMPTY, rs, rd)
            if snode.is_dir:
                # a directory cannot be moved below itself
                ns, nd = normalise(rs, self.cwd), normalise(rd, self.cwd)
                if inside(nd, ns):
                    raise _oserr(errno.EINVAL, rs, rd)
            del sp.children[sname]
            if dnode is not None:
                dnode.nlink -= 1
            dp.children[dname] = snode
            st = self._stamp()
            for n in (sp, dp):
                n.mtime_ns = st
                n.ctime_ns = st
            snode.ctime_ns = st
        except (OSError, ValueError) as exc:
            raise self._fail(e, exc)

    replace = rename

    def mkdir(self, path, mode=0o777):
        raw = self._str(path)
        e = self._journal("mkdir", [raw])
        try:
            parent, name, node = self._walk(raw, want_parent=True)
            if node is not None:
                raise _oserr(errno.EEXIST, raw)
            node = Node(self._next_ino(), True, self._stamp(), perm=mode & 0o755)
            parent.children[name] = node
            parent.nlink += 1
            st = self._stamp()
            parent.mtime_ns = st
            parent.ctime_ns = st
        except (OSError, ValueError) as exc:
            raise self._fail(e, exc)

    def rmdir(self, path):
        raw = self._str(path)
        e = self._journal("rmdir", [raw])
        try:
            parent, name, node = self._walk(raw)
            if node is None:
                raise _oserr(errno.ENOENT, raw)
            if not node.is_dir:
                raise _oserr(errno.ENOTDIR, raw)
            if parent is None:
                raise _oserr(errno.EBUSY, raw)
            if node.children:
                raise _oserr(errno.ENOTEMPTY, raw)
            del parent.children[name]
            parent.nlink -= 1
            st = self._stamp()
            parent.mtime_ns = st
            parent.ctime_ns = st
        except (OSError, ValueError) as exc:
            raise self._fail(e, exc)

    def mkstemp(self, dir, prefix="tmp", suffix="", mode="w+b"):
        """Create a uniquely named file in `dir`; returns an open SimFile
        whose .name is the absolute path (as tempfile does: abspath(dir)/name)."""
        rawdir = self._str(dir)
        e = self._journal("mkstemp", [rawdir])
        try:
            if "\0" in rawdir:
                raise ValueError("embedded null byte")
            absdir = rawdir if rawdir.startswith("/") else posixpath.join(self.cwd, rawdir)
            absdir = posixpath.normpath(absdir)  # tempfile applies os.path.abspath
            _, _, dnode = self._walk(absdir)
            if dnode is None:
                raise _oserr(errno.ENOENT, posixpath.join(absdir, prefix + "XXXXXXXX" + suffix))
            if not dnode.is_dir:
                raise _oserr(errno.ENOTDIR, posixpath.join(absdir, prefix + "XXXXXXXX" + suffix))
            while True:
                self._tmp += 1
                # deterministic stand-in for tempfile's random 8 characters
                x = (self._tmp * 0x9E3779B1) & 0xFFFFFFFFFF
                alphabet = "abcdefghijklmnopqrstuvwxyz0123456789_"
                s = ""
                for _ in range(8):
                    s += alphabet[x % len(alphabet)]
                    x //= len(alphabet)
                name = prefix + s + suffix
                if name not in dnode.children:
                    break
            if len(name.encode()) > NAME_MAX:
                raise _oserr(errno.ENAMETOOLONG, posixpath.join(absdir, name))
            node = Node(self._next_ino(), False, self._stamp(), perm=0o600)
            dnode.children[name] = node
            st = self._stamp()
            dnode.mtime_ns = st
            dnode.ctime_ns = st
        except (OSError, ValueError) as exc:
            raise self._fail(e, exc)
        full = posixpath.join(absdir, name)
        if e is not None:
            e["raw"].append(full)
            e["paths"].append(normalise(full, self.cwd))
        self._fd += 1
        f = SimFile(self, node, full, mode, self._fd)
        if e is not None:
            e["fd"] = self._fd
        self.open_files[self._fd] = f
        return f


class SimPath(PurePosixPath):
    """PurePosixPath whose I/O goes to the SimFS in the class attribute `_fs`
    (use `fs.Path`, a subclass bound to one SimFS)."""

    _fs = None

    # -- queries
    def stat(self, *, follow_symlinks=True):
        return self._fs.stat(str(self))

    def lstat(self):
        return self._fs.stat(str(self))

    def exists(self, *, follow_symlinks=True):
        # same error policy as pathlib.Path.exists (3.12)
        try:
            self._fs.stat(str(self))
        except OSError as e:
            if e.errno not in (errno.ENOENT, errno.ENOTDIR, errno.EBADF, errno.ELOOP):
                raise
            return False
        except ValueError:
            return False
        return True

    def _mode_is(self, pred):
        try:
            return pred(self._fs.stat(str(self)).st_mode)
        except OSError as e:
            if e.errno not in (errno.ENOENT, errno.ENOTDIR, errno.EBADF, errno.ELOOP):
                raise
            return False
        except ValueError:
            return False

    def is_dir(self):
        return self._mode_is(_stat.S_ISDIR)

    def is_file(self):
        return self._mode_is(_stat.S_ISREG)

    def is_symlink(self):
        return False

    def is_mount(self):
        return str(self) == "/"

    def samefile(self, other):
        a = self._fs.stat(str(self))
        b = self._fs.stat(os.fspath(other))
        return a.st_ino == b.st_ino

    # -- reading / writing
    def open(self, mode="r", buffering=-1, encoding=None, errors=None, newline=None):
        return self._fs.open(str(self), mode)

    def read_bytes(self):
        with self.open("rb") as f:
            return f.read()

    def read_text(self, encoding=None, errors=None):
        with self.open("rb") as f:
            return f.read().decode(encoding or "utf-8", errors or "strict")

    def write_bytes(self, data):
        with self.open("wb") as f:
            return f.write(bytes(data))

    def write_text(self, data, encoding=None, errors=None, newline=None):
        with self.open("wb") as f:
            return f.write(data.encode(encoding or "utf-8", errors or "strict"))

    def touch(self, mode=0o666, exist_ok=True):
        if self.exists():
            if not exist_ok:
                raise _oserr(errno.EEXIST, str(self))
            return
        self.open("xb").close()

    # -- directories
    def iterdir(self):
        for name in self._fs.listdir(str(self)):
            yield self / name

    def mkdir(self, mode=0o777, parents=False, exist_ok=False):
        try:
            self._fs.mkdir(str(self), mode)
        except FileNotFoundError:
            if not parents or self.parent == self:
                raise
            self.parent.mkdir(parents=True, exist_ok=True)
            self.mkdir(mode, parents=False, exist_ok=exist_ok)
        except OSError:
            if not exist_ok or not self.is_dir():
                raise

    def rmdir(self):
        self._fs.rmdir(str(self))

    # -- names
    def unlink(self, missing_ok=False):
        try:
            self._fs.unlink(str(self))
        except FileNotFoundError:
            if not missing_ok:
                raise

    def rename(self, target):
        self._fs.rename(str(self), os.fspath(target))
        return self.with_segments(target)

    def replace(self, target):
        self._fs.rename(str(self), os.fspath(target))
        return self.with_segments(target)

    # -- lexical
    def absolute(self):
        if self.is_absolute():
            return self
        return self.with_segments(self._fs.cwd, self)

    def resolve(self, strict=False):
        # no symbolic links in SimFS: resolving is lexical normalisation
        if strict:
            self._fs.stat(str(self))
        return self.with_segments(normalise(str(self), self._fs.cwd))

    def expanduser(self):
        return self

    @classmethod
    def cwd(cls):
        return cls(cls._fs.cwd)


class _NamedTemporaryFile:
    """Result of TempfileShim.NamedTemporaryFile: file-like, `.name`,
    context manager, optional delete on close."""

    def __init__(self, fs, f, delete):
        self._fs = fs
        self.file = f
        self.name = f.name
        self.delete = delete
        self._closed = False

    def __getattr__(self, attr):
        return getattr(self.__dict__["file"], attr)

    def close(self):
        if self._closed:
            return
        self._closed = True
        self.file.close()
        if self.delete:
            try:
                self._fs.unlink(self.name)
            except FileNotFoundError:
                pass

    def __enter__(self):
        return self

    def __exit__(self, *a):
        self.close()
        return False


class TempfileShim:
    """Stand-in for the `tempfile` module on a SimFS."""

    def __init__(self, fs, tempdir="/tmp"):
        self._fs = fs
        self.tempdir = tempdir

    def gettempdir(self):
        return self.tempdir

    def gettempprefix(self):
        return "tmp"

    def NamedTemporaryFile(self, mode="w+b", buffering=-1, encoding=None, newline=None, suffix=None,
                           prefix=None, dir=None, delete=True, *, errors=None, delete_on_close=True):
        if dir is None:
            dir = self.tempdir
        f = self._fs.mkstemp(dir, prefix="tmp" if prefix is None else prefix,
                             suffix="" if suffix is None else suffix, mode=mode)
        return _NamedTemporaryFile(self._fs, f, delete)

    def mkstemp(self, suffix=None, prefix=None, dir=None, text=False):
        if dir is None:
            dir = self.tempdir
        f = self._fs.mkstemp(dir, prefix="tmp" if prefix is None else prefix,
                             suffix="" if suffix is None else suffix, mode="w+b")
        return f.fileno(), f.name

    def TemporaryFile(self, mode="w+b", **kw):
        kw.pop("delete", None)
        return self.NamedTemporaryFile(mode=mode, delete=True, **kw)


def install(fs, module):
    """Replace `Path` and `tempfile` in `module` (aiocoap.cli.fileserver).
    Returns what uninstall() needs."""
    saved = (module, module.Path, module.tempfile)
    module.Path = fs.Path
    module.tempfile = fs.tempfile
    return saved


def uninstall(saved):
    module, path, tmp = saved
    module.Path = path
    module.tempfile = tmp
