"""SimFS for the OSCORE persistence check (C13): an in-memory POSIX-like file
system with an operation journal, process-death crash injection before any
step (optionally tearing a write), I/O-error injection, and the stand-ins that
replace the module-level names `open`, `os`, `io`, `tempfile`, `filelock`
inside aiocoap.oscore.

Model (DESIGN 3.5)
  * every call that reaches the "kernel" is one numbered *step* in
    `fs.journal`: lock, open, write, flush, fsync, close, mkstemp, replace,
    unlink, unlock (`write` is the hand-over into the buffered writer, `flush`
    the transfer into the file; both are listed because the library calls
    both; reads and closes of read-only descriptors have no effect and are not
    steps);
  * **crash before step i** (process death): steps 1..i-1 are complete and
    stay visible, step i does not happen, user-space buffers, descriptors and
    locks vanish, the lock *file* stays.  A `flush` may additionally be torn:
    only a prefix of the buffered bytes reaches the file before death;
  * after death every further call of the dead process raises `Crash` and has
    no effect (finalisers of abandoned objects cannot touch the new
    incarnation's files: objects are bound to an epoch);
  * **I/O errors**: rule {"op": kind, "nth": k, "count": c, "errno": name}
    makes the k-th .. (k+c-1)-th step of that kind fail with OSError and no
    effect;
  * `powerloss=True` (exploratory, never gating): at death every file falls
    back to its last fsynced content (empty if never synced); directory
    operations are assumed to be ordered and durable.
"""

import errno as _errno
import io as _real_io
import posixpath


class Crash(BaseException):
    """The simulated process died. BaseException: library code must not be
    able to swallow it with `except Exception`."""


class SeamMissing(BaseException):
    """Library code used a file-system facility the simulation does not model:
    a harness limitation, never an observation about the library."""


ERRNOS = {"ENOSPC": _errno.ENOSPC, "EIO": _errno.EIO, "EMFILE": _errno.EMFILE, "EACCES": _errno.EACCES,
          "EDQUOT": _errno.EDQUOT, "ENFILE": _errno.ENFILE}


class Inode:
    __slots__ = ("data", "synced")

    def __init__(self, data=b""):
        self.data = bytearray(data)
        self.synced = None  # content at the last fsync


class Desc:
    __slots__ = ("inode", "path", "pos", "readable", "writable", "append", "epoch")


class SimFS:
    def __init__(self, powerloss=False):
        self.files = {}
        self.dirs = {"/"}
        self.journal = []  # [step, op, path, extra]
        self.step = 0
        self.epoch = 0
        self.dead = False
        self.fds = {}
        self.next_fd = 3
        self.locks = {}
        self.crash_plan = []  # [[step, torn_bytes or -1], ...] ascending
        self.io_rules = []
        self.op_counts = {}
        self.io_fired = []  # (step, op, errno name)
        self.crashes = []  # (step, op, torn)
        self.tmp_counter = 0
        self.powerloss = powerloss

    # ---- setup by the harness (not journalled) -------------------------------
    def mkdir(self, path):
        path = posixpath.normpath(path)
        parts = path.strip("/").split("/")
        cur = ""
        for p in parts:
            cur += "/" + p
            self.dirs.add(cur)

    def put(self, path, data):
        path = posixpath.normpath(path)
        self.mkdir(posixpath.dirname(path))
        ino = Inode(data)
        ino.synced = bytes(data)
        self.files[path] = ino

    def get(self, path):
        ino = self.files.get(posixpath.normpath(path))
        return None if ino is None else bytes(ino.data)

    def listing(self):
        return sorted(self.files)

    def restart(self):
        """A new process starts on the surviving file system."""
        self.dead = False
        self.epoch += 1
        self.fds = {}
        self.locks = {}

    # ---- step bookkeeping -----------------------------------------------------
    def _norm(self, path):
        if isinstance(path, bytes):
            path = path.decode()
        if not isinstance(path, str):
            raise TypeError("path must be str, not %s" % type(path).__name__)
        if "\0" in path:
            raise ValueError("embedded null byte")
        if not path.startswith("/"):
            path = "/" + path
        return posixpath.normpath(path)

    def _check_epoch(self, epoch):
        if self.dead or epoch != self.epoch:
            raise Crash()

    def _begin(self, op, path=None, extra=None):
        """Account one step. Returns None, or the number of bytes a torn flush
        may still transfer before the process dies."""
        if self.dead:
            raise Crash()
        self.step += 1
        i = self.step
        n = self.op_counts.get(op, 0)
        self.op_counts[op] = n + 1
        self.journal.append([i, op, path, extra])
        if self.crash_plan and self.crash_plan[0][0] <= i:
            point = self.crash_plan.pop(0)
            torn = point[1] if len(point) > 1 else -1
            if op == "flush" and torn is not None and torn >= 0:
                self.crashes.append((i, op, torn))
                return torn
            self.crashes.append((i, op, -1))
            self.die()
            raise Crash()
        for r in self.io_rules:
            if r["op"] == op and r["nth"] <= n < r["nth"] + r.get("count", 1):
                name = r.get("errno", "EIO")
                self.io_fired.append((i, op, name))
                self.journal[-1][3] = "FAILED:" + name
                raise OSError(ERRNOS[name], "simulated %s" % name, path)
        return None

    def die(self):
        self.dead = True
        self.fds = {}
        self.locks = {}
        if self.powerloss:
            for ino in self.files.values():
                ino.data = bytearray(ino.synced if ino.synced is not None else b"")

    # ---- descriptor level -------------------------------------------------------
    def _new_fd(self, ino, path, readable, writable, append=False):
        d = Desc()
        d.inode, d.path, d.pos, d.readable, d.writable, d.append, d.epoch = (
            ino, path, 0, readable, writable, append, self.epoch)
        fd = self.next_fd
        self.next_fd += 1
        self.fds[fd] = d
        return fd

    def _desc(self, fd):
        if self.dead:
            raise Crash()
        d = self.fds.get(fd)
        if d is None or d.epoch != self.epoch:
            raise OSError(_errno.EBADF, "Bad file descriptor")
        return d

    def open_fd(self, path, readable, writable, create=False, trunc=False, excl=False, append=False):
        path = self._norm(path)
        ro = readable and not writable
        self._begin("open", path, "r" if ro else ("w" + ("t" if trunc else "") + ("c" if create else "")))
        if path in self.dirs:
            raise IsADirectoryError(_errno.EISDIR, "Is a directory", path)
        ino = self.files.get(path)
        if ino is None:
            if not create:
                raise FileNotFoundError(_errno.ENOENT, "No such file or directory", path)
            if posixpath.dirname(path) not in self.dirs:
                raise FileNotFoundError(_errno.ENOENT, "No such file or directory", path)
            ino = Inode()
            self.files[path] = ino
        elif excl and create:
            raise FileExistsError(_errno.EEXIST, "File exists", path)
        if trunc and writable:
            ino.data = bytearray()
        return self._new_fd(ino, path, readable, writable, append)

    def pwrite_step(self, fd, data, op="flush"):
        d = self._desc(fd)
        if not d.writable:
            raise OSError(_errno.EBADF, "not open for writing")
        torn = self._begin(op, d.path, len(data))
        if torn is not None:
            data = data[:torn]
        if d.append:
            d.pos = len(d.inode.data)
        end = d.pos + len(data)
        if d.pos > len(d.inode.data):
            d.inode.data.extend(b"\0" * (d.pos - len(d.inode.data)))
        d.inode.data[d.pos:end] = data
        d.pos = end
        if torn is not None:
            self.die()
            raise Crash()
        return len(data)

    def read_all(self, fd):
        d = self._desc(fd)
        if not d.readable:
            raise OSError(_errno.EBADF, "not open for reading")
        out = bytes(d.inode.data[d.pos:])
        d.pos = len(d.inode.data)
        return out

    def fsync(self, fd):
        d = self._desc(fd)
        self._begin("fsync", d.path)
        d.inode.synced = bytes(d.inode.data)

    def close_fd(self, fd, journal=True):
        d = self._desc(fd)
        if journal:
            self._begin("close", d.path)
        self.fds.pop(fd, None)

    def truncate_fd(self, fd, size):
        d = self._desc(fd)
        self._begin("truncate", d.path, size)
        del d.inode.data[size:]

    # ---- path level -----------------------------------------------------------------
    def mkstemp(self, suffix=None, prefix=None, dir=None, text=False):
        if dir is None:
            raise SeamMissing("mkstemp without dir=")
        dirp = self._norm(dir)
        self._begin("mkstemp", dirp)
        if dirp not in self.dirs:
            raise FileNotFoundError(_errno.ENOENT, "No such file or directory", dirp)
        while True:
            self.tmp_counter += 1
            name = "%s%s%s" % (prefix if prefix is not None else "tmp", "sim%05d" % self.tmp_counter,
                               suffix if suffix is not None else "")
            path = posixpath.join(dirp, name)
            if path not in self.files:
                break
        self.journal[-1][2] = path
        ino = Inode()
        self.files[path] = ino
        return self._new_fd(ino, path, True, True), path

    def replace(self, src, dst):
        src, dst = self._norm(src), self._norm(dst)
        self._begin("replace", dst, src)
        if src not in self.files:
            raise FileNotFoundError(_errno.ENOENT, "No such file or directory", src)
        if dst in self.dirs:
            raise IsADirectoryError(_errno.EISDIR, "Is a directory", dst)
        self.files[dst] = self.files.pop(src)

    def unlink(self, path):
        path = self._norm(path)
        self._begin("unlink", path)
        if path not in self.files:
            raise FileNotFoundError(_errno.ENOENT, "No such file or directory", path)
        del self.files[path]

    def exists(self, path):
        path = self._norm(path)
        return path in self.files or path in self.dirs

    def listdir(self, path):
        path = self._norm(path)
        self._begin("scandir", path)
        if path not in self.dirs:
            raise FileNotFoundError(_errno.ENOENT, "No such file or directory", path)
        pre = path.rstrip("/") + "/"
        names = set()
        for p in list(self.files) + list(self.dirs):
            if p.startswith(pre) and p != path:
                names.add(p[len(pre):].split("/")[0])
        return sorted(names)

    # ---- locks ---------------------------------------------------------------------
    def lock(self, path, owner):
        """flock()-like: the lock belongs to the INODE the path names right now (created if missing), not to the path.
        Returns the inode on success, None when somebody else holds it.  self.locks: id(inode) -> (inode, owner)."""
        path = self._norm(path)
        self._begin("lock", path)
        if path not in self.files:
            if posixpath.dirname(path) not in self.dirs:
                raise FileNotFoundError(_errno.ENOENT, "No such file or directory", path)
            self.files[path] = Inode()
        ino = self.files[path]
        held = self.locks.get(id(ino))
        if held is not None and held[1] is not owner:
            return None
        self.locks[id(ino)] = (ino, owner)
        return ino

    def unlock(self, path, owner, ino=None):
        """Release the lock `owner` holds (on the inode it locked, wherever its path went).  A process that is
        waiting for that lock (polling flock on the same, still existing file) gets it at once."""
        path = self._norm(path)
        self._begin("unlock", path)
        for key, (i, o) in list(self.locks.items()):
            if o is owner and (ino is None or i is ino):
                del self.locks[key]
                waiter = getattr(self, "lock_waiter", None)
                if waiter is not None and self.files.get(waiter[0]) is i:
                    # the waiter's next poll opens the same file and succeeds -- before the releasing process does
                    # anything else
                    self.lock_waiter = None
                    self.locks[key] = (i, waiter[1])
                    waiter[1]._granted = i


# --------------------------------------------------------------------------- file objects


class SimFile:
    """What `open()` / `io.open()` return: buffered, text or binary."""

    def __init__(self, fs, fd, mode, path, closefd=True):
        self.fs = fs
        self.fd = fd
        self.mode = mode
        self.name = path
        self.binary = "b" in mode
        self.epoch = fs.epoch
        self.buf = bytearray()
        self.closed = False
        self.closefd = closefd
        self.writable_ = any(c in mode for c in "wa+x")
        self.readable_ = "r" in mode or "+" in mode

    def _alive(self):
        self.fs._check_epoch(self.epoch)
        if self.closed:
            raise ValueError("I/O operation on closed file.")

    def readable(self):
        return self.readable_

    def writable(self):
        return self.writable_

    def fileno(self):
        self._alive()
        return self.fd

    def read(self, n=-1):
        self._alive()
        if self.buf:
            self.flush()
        data = self.fs.read_all(self.fd)
        if n is not None and n >= 0:
            # rewind what was not asked for
            d = self.fs._desc(self.fd)
            d.pos -= max(0, len(data) - n)
            data = data[:n]
        return data if self.binary else data.decode("utf-8")

    def write(self, data):
        self._alive()
        if not self.writable_:
            raise _real_io.UnsupportedOperation("not writable")
        if self.binary:
            if isinstance(data, str):
                raise TypeError("a bytes-like object is required, not 'str'")
            raw = bytes(data)
        else:
            if not isinstance(data, str):
                raise TypeError("write() argument must be str, not %s" % type(data).__name__)
            raw = data.encode("utf-8")
        d = self.fs._desc(self.fd)
        self.fs._begin("write", d.path, len(raw))
        self.buf += raw
        return len(data)

    def flush(self):
        self._alive()
        if self.buf:
            data = bytes(self.buf)
            # a failing flush keeps the buffer (as BufferedWriter does)
            self.fs.pwrite_step(self.fd, data, "flush")
            self.buf = bytearray()
        elif self.writable_:
            d = self.fs._desc(self.fd)
            self.fs._begin("flush", d.path, 0)

    def seek(self, pos, whence=0):
        self._alive()
        if self.buf:
            self.flush()
        d = self.fs._desc(self.fd)
        if whence == 0:
            d.pos = pos
        elif whence == 1:
            d.pos += pos
        else:
            d.pos = len(d.inode.data) + pos
        return d.pos

    def tell(self):
        self._alive()
        return self.fs._desc(self.fd).pos + len(self.buf)

    def truncate(self, size=None):
        self._alive()
        if self.buf:
            self.flush()
        if size is None:
            size = self.fs._desc(self.fd).pos
        self.fs.truncate_fd(self.fd, size)
        return size

    def close(self):
        if self.closed:
            return
        self.fs._check_epoch(self.epoch)
        try:
            if self.buf:
                self.flush()
        finally:
            if not self.fs.dead:
                self.closed = True
                if self.closefd:
                    self.fs.close_fd(self.fd, journal=self.writable_)

    def __enter__(self):
        self._alive()
        return self

    def __exit__(self, *exc):
        self.close()
        return False

    def __iter__(self):
        text = self.read()
        return iter(text.splitlines(True))


def _open(fs, file, mode="r", buffering=-1, encoding=None, errors=None, newline=None, closefd=True, opener=None):
    for c in mode:
        if c not in "rwaxbt+":
            raise ValueError("invalid mode: %r" % mode)
    if isinstance(file, int) and not isinstance(file, bool):
        d = fs._desc(file)
        return SimFile(fs, file, mode, d.path, closefd=closefd)
    plus = "+" in mode
    if "r" in mode:
        fd = fs.open_fd(file, True, plus)
    elif "w" in mode:
        fd = fs.open_fd(file, plus, True, create=True, trunc=True)
    elif "a" in mode:
        fd = fs.open_fd(file, plus, True, create=True, append=True)
    elif "x" in mode:
        fd = fs.open_fd(file, plus, True, create=True, excl=True)
    else:
        raise ValueError("invalid mode: %r" % mode)
    return SimFile(fs, fd, mode, fs._norm(file))


# --------------------------------------------------------------------------- module stand-ins


class OpenShim:
    def __init__(self, fs):
        self.fs = fs

    def __call__(self, file, mode="r", *a, **kw):
        return _open(self.fs, file, mode, *a, **kw)


class IoShim:
    """`io` inside aiocoap.oscore: only `open` goes to SimFS."""

    def __init__(self, fs):
        self.fs = fs
        self.BytesIO = _real_io.BytesIO
        self.StringIO = _real_io.StringIO
        self.UnsupportedOperation = _real_io.UnsupportedOperation
        self.SEEK_SET, self.SEEK_CUR, self.SEEK_END = 0, 1, 2

    def open(self, file, mode="r", *a, **kw):
        return _open(self.fs, file, mode, *a, **kw)

    def __getattr__(self, name):
        raise SeamMissing("io.%s is not modelled by SimFS" % name)


class OsShim:
    """`os` inside aiocoap.oscore."""

    O_RDONLY, O_WRONLY, O_RDWR, O_CREAT, O_EXCL, O_TRUNC, O_APPEND = 0, 1, 2, 0o100, 0o200, 0o1000, 0o2000
    O_CLOEXEC = 0o2000000
    sep = "/"
    name = "posix"
    linesep = "\n"

    def __init__(self, fs):
        self.fs = fs
        self.path = _PathShim(fs)

    def fsync(self, fd):
        if hasattr(fd, "fileno"):
            fd = fd.fileno()
        self.fs.fsync(fd)

    fdatasync = fsync

    def replace(self, src, dst, **kw):
        self.fs.replace(self.fspath(src), self.fspath(dst))

    rename = replace

    def unlink(self, path, **kw):
        self.fs.unlink(self.fspath(path))

    remove = unlink

    def close(self, fd):
        self.fs.close_fd(fd)

    def open(self, path, flags, mode=0o777, **kw):
        acc = flags & 3
        return self.fs.open_fd(self.fspath(path), acc in (0, 2), acc in (1, 2), create=bool(flags & self.O_CREAT),
                               trunc=bool(flags & self.O_TRUNC), excl=bool(flags & self.O_EXCL),
                               append=bool(flags & self.O_APPEND))

    def write(self, fd, data):
        return self.fs.pwrite_step(fd, bytes(data), "flush")

    def read(self, fd, n):
        return self.fs.read_all(fd)[:n]

    def ftruncate(self, fd, size):
        self.fs.truncate_fd(fd, size)

    def listdir(self, path="."):
        return self.fs.listdir(self.fspath(path))

    def fspath(self, p):
        if isinstance(p, (str, bytes)):
            return p
        if hasattr(p, "__fspath__"):
            return p.__fspath__()
        raise TypeError("expected str, bytes or os.PathLike object, not %s" % type(p).__name__)

    def fdopen(self, fd, mode="r", *a, **kw):
        return _open(self.fs, fd, mode, *a, **kw)

    def getpid(self):
        return 4242 + self.fs.epoch

    def urandom(self, n):
        raise SeamMissing("os.urandom used by library code: randomness must come through the `secrets` seam")

    def __getattr__(self, name):
        raise SeamMissing("os.%s is not modelled by SimFS" % name)


class _PathShim:
    def __init__(self, fs):
        self.fs = fs
        for n in ("join", "basename", "dirname", "normpath", "split", "splitext", "isabs", "sep", "commonpath",
                  "relpath"):
            setattr(self, n, getattr(posixpath, n))

    def abspath(self, p):
        return self.fs._norm(p)

    realpath = abspath

    def exists(self, p):
        return self.fs.exists(p)

    def isfile(self, p):
        return self.fs._norm(p) in self.fs.files

    def isdir(self, p):
        return self.fs._norm(p) in self.fs.dirs

    def __getattr__(self, name):
        raise SeamMissing("os.path.%s is not modelled by SimFS" % name)


class TempfileShim:
    def __init__(self, fs):
        self.fs = fs

    def mkstemp(self, suffix=None, prefix=None, dir=None, text=False):
        return self.fs.mkstemp(suffix=suffix, prefix=prefix, dir=dir, text=text)

    def __getattr__(self, name):
        raise SeamMissing("tempfile.%s is not modelled by SimFS" % name)


class SimTimeout(TimeoutError):
    def __init__(self, lock_file):
        super().__init__("The file lock %r could not be acquired." % (lock_file,))
        self.lock_file = lock_file


class FilelockShim:
    """`filelock` inside aiocoap.oscore. A crash releases the lock and leaves
    the lock file; a second holder gets `Timeout`."""

    def __init__(self, fs):
        self.fs = fs
        self.Timeout = SimTimeout
        shim = self

        class FileLock:
            def __init__(self, lock_file, timeout=-1, **kw):
                self._lock_file = lock_file
                self._epoch = None
                self._count = 0

            @property
            def lock_file(self):
                return self._lock_file

            @property
            def is_locked(self):
                return self._count > 0 and self._epoch == shim.fs.epoch and not shim.fs.dead

            def acquire(self, timeout=None, poll_interval=0.05, **kw):
                if self.is_locked:
                    self._count += 1
                    return self
                ino = shim.fs.lock(self._lock_file, self)
                if ino is None:
                    # somebody else holds it: while we wait (up to `timeout`, polling), that somebody goes on
                    # working -- the check may have registered what it does meanwhile
                    hook = getattr(shim.fs, "on_lock_contention", None)
                    if hook is not None:
                        shim.fs.on_lock_contention = None
                        self._granted = None
                        shim.fs.lock_waiter = (shim.fs._norm(self._lock_file), self)
                        try:
                            hook()
                        finally:
                            shim.fs.lock_waiter = None
                        ino = self._granted or shim.fs.lock(self._lock_file, self)
                    if ino is None:
                        raise SimTimeout(self._lock_file)
                self._ino = ino
                self._epoch = shim.fs.epoch
                self._count = 1
                return self

            def release(self, force=False):
                if self._count <= 0:
                    return
                shim.fs._check_epoch(self._epoch)
                self._count = 0 if force else self._count - 1
                if self._count == 0:
                    shim.fs.unlock(self._lock_file, self, getattr(self, "_ino", None))

            def __enter__(self):
                self.acquire()
                return self

            def __exit__(self, *exc):
                self.release()

        self.FileLock = FileLock
        self.UnixFileLock = FileLock
        self.SoftFileLock = FileLock
        self.BaseFileLock = FileLock


PATCHED_NAMES = ("open", "os", "io", "tempfile", "filelock", "secrets", "time")


class TimeShim:
    """Stand-in for the module `time` inside aiocoap.oscore (should the module ever read a clock): the simulated wall
    clock.  It stands still unless the scenario moves it (`wall` is set by the harness, e.g. at every restart of the
    process); the monotonic clock only moves forward."""

    def __init__(self, wall=1_700_000_000.0):
        self.wall = wall
        self.mono = 1000.0

    def time(self):
        return self.wall

    def time_ns(self):
        return int(self.wall * 1e9)

    def monotonic(self):
        return self.mono

    def monotonic_ns(self):
        return int(self.mono * 1e9)

    perf_counter = monotonic

    def advance(self, d):
        self.wall += d
        if d > 0:
            self.mono += d

    def sleep(self, d):
        self.advance(max(0.0, d))

    def __getattr__(self, name):
        import time as _t
        v = getattr(_t, name)
        if callable(v) and name not in ("strftime", "gmtime", "localtime", "mktime", "struct_time", "asctime", "ctime"):
            raise SeamMissing("aiocoap.oscore uses time.%s, which the simulation does not provide" % name)
        return v


class Seams:
    """Install / remove the six module-level names in aiocoap.oscore."""

    def __init__(self, osc, fs, secrets, clock=None):
        self.osc = osc
        self.clock = clock if clock is not None else TimeShim()
        self.values = {"open": OpenShim(fs), "os": OsShim(fs), "io": IoShim(fs), "tempfile": TempfileShim(fs),
                       "filelock": FilelockShim(fs), "secrets": secrets, "time": self.clock}
        self.saved = None

    def __enter__(self):
        missing = object()
        self.saved = {n: self.osc.__dict__.get(n, missing) for n in PATCHED_NAMES}
        self._missing = missing
        for n, v in self.values.items():
            setattr(self.osc, n, v)
        return self

    def __exit__(self, *exc):
        for n, old in self.saved.items():
            if old is self._missing:
                try:
                    delattr(self.osc, n)
                except AttributeError:
                    pass
            else:
                setattr(self.osc, n, old)
        return False
