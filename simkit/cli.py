"""Command line: ./run <id> [--tier quick|thorough] [--replay file] [--events]
                 ./run setup | selftest-determinism [ids...] | selftest-mutants [ids...]"""

import os
import sys

VERIF = os.path.dirname(os.path.dirname(os.path.abspath(__file__)))
sys.path.insert(0, VERIF)


def main(argv):
    if not argv:
        print(__doc__)
        return 2
    cmd = argv[0]
    args = argv[1:]
    tier = os.environ.get("VERIF_TIER") or "quick"
    replay = None
    events = False
    jobs = None
    rest = []
    i = 0
    while i < len(args):
        a = args[i]
        if a == "--tier":
            if not os.environ.get("VERIF_TIER"):
                tier = args[i + 1]
            i += 2
        elif a == "--replay":
            replay = args[i + 1]
            i += 2
        elif a == "--events":
            events = True
            i += 1
        elif a == "--jobs":
            jobs = int(args[i + 1])
            i += 2
        else:
            rest.append(a)
            i += 1
    seed = int(os.environ.get("VERIF_SEED", "0") or 0)
    if cmd == "setup":
        from simkit import selftest
        return selftest.setup()
    if cmd == "selftest-determinism":
        from simkit import selftest
        return selftest.determinism(rest, jobs=jobs)
    if cmd == "selftest-mutants":
        from simkit import selftest
        return selftest.mutants(rest)
    if cmd == "selftest-oscore":
        from simkit import oscore_env
        return oscore_env.selftest()
    if cmd == "digests":
        from simkit import selftest
        return selftest.print_digests(rest[0], int(rest[1]), seed, jobs or 1)
    pid = cmd.upper()
    from simkit import runner, minimise
    try:
        check = runner.load_check(pid)
        if replay:
            return minimise.replay_file(check, replay, show_events=events)
        code, _ = runner.check_main(pid, tier, seed, jobs=jobs)
        return code
    except runner.HarnessError as e:
        print("HARNESS-ERROR", e)
        return 2


if __name__ == "__main__":
    try:
        rc = main(sys.argv[1:])
    except SystemExit:
        raise
    except BaseException as e:  # never exit 0 on a crash
        import traceback
        traceback.print_exc()
        print("HARNESS-ERROR", repr(e))
        rc = 2
    sys.stdout.flush()
    os._exit(rc) if False else sys.exit(rc)
