"""SimStreamNet: simulated TCP for the virtual-time loop.

`SimLoop.create_server / create_connection` forward to an instance of
`SimStreamNet` stored in `loop.streamnet`.  A connection is a pair of
`SimStreamTransport`s joined by two ordered byte pipes.  `write()` appends to
the outgoing pipe; the pipe's *chunk policy* cuts the pending bytes into chunks
(any cut points, single bytes, coalescing across writes) and delivers each via
`data_received` at a chosen virtual time, order preserved.

Faults: reset at byte offset n of a direction (both sides get
`connection_lost(ConnectionResetError)`, undelivered bytes are discarded),
orderly EOF at byte offset n (`eof_received`, then `connection_lost(None)`),
refusal of a connection (`ConnectionRefusedError` from `create_connection`),
delays and stalls of single deliveries.

Chunk policy of a direction (JSON-able dict, chosen by
`streamnet.policy_for(conn, direction)`; default `{"mode": "whole"}`):

  mode "whole"   everything pending at a delivery instant is one chunk
  mode "bytes"   single bytes (for the first `limit` bytes, default all)
  mode "cuts"    chunk boundaries exactly at the absolute stream offsets `cuts`
                 (plus wherever the writer had not produced more bytes yet)
  mode "fixed"   chunks of `size` bytes
  mode "random"  lazy decisions through `sim.decider`, stable keys
                 "tcp:<conn>:<dir>:n#<k>" (size of the k-th chunk, 0 = all
                 pending) and "tcp:<conn>:<dir>:d#<k>" (delay before it)
  common keys    latency (write -> first delivery while idle, default 0.001 s),
                 gap (between consecutive deliveries, default 0.0001 s),
                 reset_at, eof_at (absolute offsets), max_small (bound on the
                 number of deliveries after which the rest arrives whole)

The semantics follow asyncio's selector transports: `close()` stops reading,
lets the bytes already written reach the peer followed by EOF, and calls
`connection_lost(None)` through `call_soon`; `abort()` resets; writes after
`close()` are dropped; an exception escaping `data_received` is a fatal
transport error (reported to the loop's exception handler, connection torn
down, `connection_lost(exc)`); a falsy return of `eof_received()` closes the
transport; `Server.wait_closed()` waits for the server to be closed *and* all
accepted connections to be gone (Python >= 3.12.1).

Protocols carrying `IS_HARNESS = True` (scripted peers) are called directly, so
their exceptions are harness errors; everything else is library code and is
called through `loop.library_callback`, so its exceptions land in
`sim.loop_exceptions()`.
"""

import asyncio
import errno
import hashlib
import socket as _socket

from . import refcodec as rc

DEFAULT_LATENCY = 0.001
DEFAULT_GAP = 0.0001


def _norm_host(host):
    if host is None:
        return None
    h = str(host)
    if h.startswith("[") and h.endswith("]"):
        h = h[1:-1]
    if "%" in h:
        h = h.split("%", 1)[0]
    return h.lower()


class OrderedSet:
    """Insertion-ordered stand-in for a `set` of objects hashed by identity
    (TCPServer._pool): same interface as far as aiocoap uses it, but the
    iteration order does not depend on addresses."""

    def __init__(self, items=()):
        self._d = {}
        for i in items:
            self._d[i] = None

    def add(self, item):
        self._d[item] = None

    def remove(self, item):
        del self._d[item]

    def discard(self, item):
        self._d.pop(item, None)

    def pop(self):
        k = next(iter(self._d))
        del self._d[k]
        return k

    def clear(self):
        self._d.clear()

    def copy(self):
        return OrderedSet(self._d)

    def __contains__(self, item):
        return item in self._d

    def __iter__(self):
        return iter(list(self._d))

    def __len__(self):
        return len(self._d)

    def __bool__(self):
        return bool(self._d)


def order_tcp_pools(ctx):
    """Replace the `_pool` set of every TCPServer-like token interface of an
    aiocoap context by an insertion-ordered set (it is iterated in
    `TCPServer.shutdown`, where the order decides the order of the Release
    messages).  Returns the number of pools replaced."""
    n = 0
    for ri in getattr(ctx, "request_interfaces", []):
        ti = getattr(ri, "token_interface", None)
        pool = getattr(ti, "_pool", None)
        if isinstance(pool, (set, frozenset)):
            ti._pool = OrderedSet(pool)
            n += 1
    return n


class _FakeSock:
    """What `transport.get_extra_info("socket")` returns."""

    family = _socket.AF_INET6
    type = _socket.SOCK_STREAM
    proto = 0

    def __init__(self, sockname, peername):
        self._sockname = sockname
        self._peername = peername

    def getsockname(self):
        return self._sockname

    def getpeername(self):
        if self._peername is None:
            raise OSError(errno.ENOTCONN, "not connected")
        return self._peername

    def fileno(self):
        return -1

    def setsockopt(self, *a):
        pass

    def getsockopt(self, *a):
        return 0


class ChunkPolicy:
    def __init__(self, net, conn, direction, spec):
        self.net = net
        self.spec = dict(spec or {})
        self.mode = self.spec.get("mode", "whole")
        self.latency = self.spec.get("latency", DEFAULT_LATENCY)
        self.gap = self.spec.get("gap", DEFAULT_GAP)
        self.cuts = sorted(set(int(c) for c in self.spec.get("cuts", []) if int(c) > 0))
        self.size = max(1, int(self.spec.get("size", 1)))
        self.limit = self.spec.get("limit")
        self.max_small = int(self.spec.get("max_small", 400))
        self.reset_at = self.spec.get("reset_at")
        self.eof_at = self.spec.get("eof_at")
        # the reader stops reading once it has got this many bytes (its receive window closes): what the writer
        # writes beyond stays in the writer's buffer until Pipe.unstall()
        self.stall_at = self.spec.get("stall_at")
        self.key = "tcp:%s:%s" % (conn.name, direction)
        self.k = 0  # deliveries so far
        self.kd = 0  # delays drawn so far

    def _rand_size(self, pending, k):
        def gen(r):
            x = r.random()
            if x < 0.30:
                return 0
            if x < 0.50:
                return 1
            if x < 0.62:
                return r.randint(1, 5)
            if x < 0.72:
                return r.choice([11, 12, 13, 14, 15])
            if x < 0.80:
                return max(1, pending - 1)
            if x < 0.90:
                return max(1, pending // 2)
            return r.randint(1, max(1, pending))

        return self.net.sim.decider.get("%s:n#%d" % (self.key, k), 0, gen)

    def _rand_delay(self, default, k):
        def gen(r):
            x = r.random()
            if x < 0.7:
                return default
            if x < 0.8:
                return 0.0
            if x < 0.95:
                return round(r.uniform(0.0, 0.05), 6)
            return round(r.uniform(0.05, 3.0), 4)

        return self.net.sim.decider.get("%s:d#%d" % (self.key, k), default, gen)

    def next_size(self, pending, delivered):
        """Number of bytes (1..pending) of the next chunk."""
        k = self.k
        self.k += 1
        n = pending
        if k >= self.max_small:
            n = pending
        elif self.mode == "bytes":
            if self.limit is None or delivered < self.limit:
                n = 1
        elif self.mode == "fixed":
            n = self.size
        elif self.mode == "cuts":
            for c in self.cuts:
                if c > delivered:
                    n = c - delivered
                    break
        elif self.mode == "random":
            n = self._rand_size(pending, k)
            if not isinstance(n, int) or isinstance(n, bool) or n <= 0:
                n = pending
        return max(1, min(pending, n))

    def delay(self, first):
        d = self.latency if first else self.gap
        if self.mode == "random" and self.kd < self.max_small:
            d = self._rand_delay(d, self.kd)
            if isinstance(d, bool) or not isinstance(d, (int, float)) or d < 0:
                d = 0.0
        self.kd += 1
        return d


class Pipe:
    """One direction of a connection."""

    def __init__(self, net, conn, direction, spec):
        self.net = net
        self.conn = conn
        self.direction = direction
        self.policy = ChunkPolicy(net, conn, direction, spec)
        self.buf = bytearray()
        self.stream = bytearray()  # every byte ever written (for the oracles)
        self.written = 0
        self.delivered = 0
        self.discarded = 0
        self.writes = []  # (t, offset, length)
        self.chunks = []  # (t, offset, length)
        self.scheduled = False
        self.fin = False  # writer closed: EOF follows the pending bytes
        self.fin_delivered = False
        self.dead = False
        self.src = None
        self.dst = None
        self.dropped_writes = []  # (t, data) written after close

    # -- writer side
    def write(self, data):
        off = self.written
        self.written += len(data)
        self.stream += data
        self.buf += data
        self.writes.append((self.net.loop.now, off, len(data)))
        self.kick(first=True)

    def kick(self, first):
        if self.scheduled or self.dead:
            return
        if self.dst is None or not self.dst._attached:
            return
        if not self.buf and not (self.fin and not self.fin_delivered) and not self._fault_due():
            return
        self.scheduled = True
        self.net.loop.after(self.policy.delay(first), self._deliver)

    def _fault_due(self):
        p = self.policy
        return (p.reset_at is not None and self.delivered >= p.reset_at and self.written >= p.reset_at) or (
            p.eof_at is not None and self.delivered >= p.eof_at and self.written >= p.eof_at)

    def stalled(self):
        p = self.policy
        return p.stall_at is not None and self.delivered >= p.stall_at

    def unstall(self):
        """The reader reads again (or the connection is finally given up by the kernel)."""
        if self.policy.stall_at is not None:
            self.policy.stall_at = None
            self.net.sim.log("tcp", "unstall", self.conn.name, self.direction, self.delivered)
            if self.src is not None and self.src._lingering and not self.buf:
                self._flushed()
            self.kick(first=False)

    def _flushed(self):
        """Nothing is left in the writer's buffer: a close() that had to wait for that completes now."""
        src = self.src
        if src is not None and src._lingering and not src._lost_scheduled and not src._closed:
            src._lingering = False
            src._lost_scheduled = True
            self.net.loop.call_soon(src._call_connection_lost, None)

    def discard(self):
        self.discarded += len(self.buf)
        del self.buf[:]
        self._flushed()

    # -- simulator event
    def _deliver(self):
        self.scheduled = False
        if self.dead:
            return
        dst = self.dst
        sim = self.net.sim
        if dst._closed or dst._closing or dst._read_eof:
            self.discard()
            return
        if dst._paused:
            return  # resume_reading kicks
        p = self.policy
        if self.stalled():
            if self.buf and not getattr(self, "_stall_counted", False):
                self._stall_counted = True
                sim.log("tcp", "fault-stall", self.conn.name, self.direction, self.delivered)
                self.net.count("stall")
            return
        if p.reset_at is not None and self.delivered >= p.reset_at:
            sim.log("tcp", "fault-reset", self.conn.name, self.direction, self.delivered)
            self.net.count("reset")
            self.conn.reset()
            return
        if p.eof_at is not None and self.delivered >= p.eof_at:
            sim.log("tcp", "fault-eof", self.conn.name, self.direction, self.delivered)
            self.net.count("eof")
            self.discard()
            self.fin = True
            self.dead = True
            dst._eof_from_peer()
            return
        if not self.buf:
            if self.fin and not self.fin_delivered:
                self.fin_delivered = True
                sim.log("tcp", "eof", self.conn.name, self.direction, self.delivered)
                dst._eof_from_peer()
            return
        n = p.next_size(len(self.buf), self.delivered)
        for lim in (p.reset_at, p.eof_at, p.stall_at):
            if lim is not None and self.delivered < lim < self.delivered + n:
                n = lim - self.delivered
        chunk = bytes(self.buf[:n])
        del self.buf[:n]
        off = self.delivered
        self.delivered += n
        self.chunks.append((self.net.loop.now, off, n))
        if self.buf:
            self.net.count("cut")
        sim.log("tcp", "chunk", self.conn.name, self.direction, off, n,
                chunk.hex() if n <= 48 else hashlib.sha256(chunk).hexdigest()[:16])
        dst._data_from_peer(chunk)
        if not self.buf:
            self._flushed()
        self.kick(first=False)


class SimStreamTransport(asyncio.Transport):
    def __init__(self, net, conn, side, sockname, peername):
        super().__init__(extra={
            "sockname": sockname,
            "peername": peername,
            "socket": _FakeSock(sockname, peername),
            "ssl_object": None,
        })
        self.net = net
        self.loop = net.loop
        self.conn = conn
        self.side = side  # "c" connector, "s" acceptor
        self._protocol = None
        self._harness = False
        self._attached = False
        self._closing = False
        self._closed = False
        self._read_eof = False  # EOF received from the peer
        self._write_eof = False
        self._paused = False
        self._lost_called = False
        self._lost_scheduled = False
        self._lingering = False  # close() was called with unsent bytes the peer does not take: connection_lost waits
        self.out = None  # Pipe we write into
        self.inp = None  # Pipe we read from
        self.server = None
        self.close_time = None
        self.close_reason = None  # "close" (protocol called close()), "eof", "reset", "fatal"
        self.lost = None  # (t, exc type name or None)
        self.fatal = None  # exception that escaped data_received
        self.fatal_late = False

    # -- asyncio.BaseTransport
    def is_closing(self):
        return self._closing or self._closed

    def set_protocol(self, protocol):
        self._protocol = protocol
        self._harness = bool(getattr(protocol, "IS_HARNESS", False))

    def get_protocol(self):
        return self._protocol

    def close(self, _reason="close"):
        if self._closing or self._closed:
            return
        self._closing = True
        self.close_time = self.loop.now
        self.close_reason = _reason
        self.net.sim.log("tcp", "close", self.conn.name, self.side, _reason)
        # we stop reading: whatever the peer still sends is lost
        if self.inp is not None:
            self.inp.discard()
        # what we wrote still reaches the peer, followed by EOF
        if self.out is not None and not self._write_eof:
            self.out.fin = True
            self.out.kick(first=True)
        if self.out is not None and self.out.buf and self.out.stalled() and not self.out.dead:
            # asyncio: with a non-empty write buffer close() only stops reading; connection_lost(None) is called
            # once the buffer has been flushed -- which a peer that does not read can put off indefinitely
            self._lingering = True
            self.net.sim.log("tcp", "close-lingers", self.conn.name, self.side, len(self.out.buf))
            self.net.count("close_linger")
            return
        self._lost_scheduled = True
        self.loop.call_soon(self._call_connection_lost, None)

    def abort(self):
        if self._closed:
            return
        self.net.sim.log("tcp", "abort", self.conn.name, self.side)
        self.conn.reset(initiator=self)

    # -- asyncio.ReadTransport
    def is_reading(self):
        return not self._paused and not self.is_closing()

    def pause_reading(self):
        self._paused = True

    def resume_reading(self):
        if self._paused:
            self._paused = False
            if self.inp is not None:
                self.inp.kick(first=False)

    # -- asyncio.WriteTransport
    def set_write_buffer_limits(self, high=None, low=None):
        pass

    def get_write_buffer_size(self):
        return 0

    def get_write_buffer_limits(self):
        return (0, 65536)

    def write(self, data):
        if not isinstance(data, (bytes, bytearray, memoryview)):
            raise TypeError("data argument must be a bytes-like object, not %r" % type(data).__name__)
        if self._write_eof:
            raise RuntimeError("Cannot call write() after write_eof()")
        data = bytes(data)
        if not data:
            return
        if self._closing or self._closed or self.out is None or self.out.dead:
            if self.out is not None:
                self.out.dropped_writes.append((self.loop.now, data))
            self.net.sim.log("tcp", "write-dropped", self.conn.name, self.side, len(data))
            return
        self.net.sim.log("tcp", "write", self.conn.name, self.side, self.out.written, len(data),
                         data.hex() if len(data) <= 48 else hashlib.sha256(data).hexdigest()[:16])
        self.out.write(data)

    def writelines(self, list_of_data):
        self.write(b"".join(bytes(d) for d in list_of_data))

    def can_write_eof(self):
        return True

    def write_eof(self):
        if self._closing or self._closed or self._write_eof:
            return
        self._write_eof = True
        self.out.fin = True
        self.out.kick(first=True)

    # -- internals
    def _call(self, what, fn, *args):
        """Call into the protocol.  Returns the exception that escaped, or None."""
        if self._harness:
            fn(*args)
            return None
        caught = []

        def guarded():
            try:
                return fn(*args)
            except (SystemExit, KeyboardInterrupt):
                raise
            except BaseException as e:
                caught.append(e)
                raise

        self.loop.library_callback(what, guarded)
        return caught[0] if caught else None

    def _attach(self, protocol):
        self.set_protocol(protocol)
        self._attached = True
        self._call("%s.connection_made()" % type(protocol).__name__, protocol.connection_made, self)
        if self.inp is not None:
            self.inp.kick(first=True)

    def _data_from_peer(self, chunk):
        exc = self._call("Fatal error: protocol.data_received() call failed.",
                         self._protocol.data_received, chunk)
        if exc is not None:
            # asyncio: _fatal_error -> _force_close(exc); the peer sees the
            # socket going away (RST, as unread data may be pending)
            self.fatal = exc
            self.fatal_late = self._closing  # raised while handling the rest of a chunk after close()
            self.net.sim.log("tcp", "fatal", self.conn.name, self.side, type(exc).__name__)
            self.conn.reset(initiator=self, exc=exc)

    def _eof_from_peer(self):
        if self._closed or self._closing:
            return
        self._read_eof = True
        keep = []

        def call():
            keep.append(self._protocol.eof_received())

        exc = self._call("protocol.eof_received()", call)
        if exc is not None:
            self.fatal = exc
            self.conn.reset(initiator=self, exc=exc)
            return
        if not (keep and keep[0]):
            self.close(_reason="eof")

    def _force_close(self, exc):
        """Immediate teardown of this side (reset / fatal error).  A no-op
        when connection_lost is already on its way (as in asyncio, where
        close() on an empty write buffer has set _conn_lost)."""
        if self._closed or self._lost_scheduled:
            return
        self._closing = True
        self._lost_scheduled = True
        if self.close_time is None:
            self.close_time = self.loop.now
            self.close_reason = "fatal" if (self.fatal is not None and exc is self.fatal) else "reset"
        if self.inp is not None:
            self.inp.discard()
        self.loop.call_soon(self._call_connection_lost, exc)

    def _call_connection_lost(self, exc):
        if self._lost_called:
            return
        self._lost_called = True
        self._closed = True
        self.lost = (self.loop.now, type(exc).__name__ if exc is not None else None)
        self.net.sim.log("tcp", "lost", self.conn.name, self.side, self.lost[1])
        proto = self._protocol
        try:
            if proto is not None and self._attached:
                if self._harness:
                    self.loop._guarded(proto.connection_lost, (exc,))
                else:
                    # we are inside a regular loop handle: exceptions reach the
                    # loop's exception handler the normal way
                    proto.connection_lost(exc)
        finally:
            if self.server is not None:
                self.server._detach(self)
                self.server = None


class Connection:
    def __init__(self, net, index, caddr, saddr):
        self.net = net
        self.index = index
        self.name = "%sc%d" % (net.prefix, index)
        self.caddr = caddr
        self.saddr = saddr
        self.c = None
        self.s = None
        self.c2s = None
        self.s2c = None
        self.was_reset = False

    def pipe(self, direction):
        return self.c2s if direction == "c2s" else self.s2c

    def reset(self, initiator=None, exc=None):
        """Both directions die; undelivered bytes are discarded.  The
        initiator (abort() / fatal error) gets `exc`, the other side (or both,
        for an injected reset) ConnectionResetError."""
        self.was_reset = True
        for p in (self.c2s, self.s2c):
            p.discard()
            p.dead = True
        for tr in (self.c, self.s):
            if tr is None:
                continue
            if tr is initiator:
                tr._force_close(exc)
            else:
                tr._force_close(ConnectionResetError(errno.ECONNRESET, "Connection reset by peer"))


class SimServer:
    """What `loop.create_server` returns."""

    def __init__(self, net, factory, host, port, harness=False):
        self.net = net
        self.factory = factory
        self.host = host
        self.port = port
        self.harness = harness
        self._serving = True
        self._active = []
        self._waiters = []
        self.sockets = (_FakeSock((host, port, 0, 0), None),)
        self.accepted = 0

    def get_loop(self):
        return self.net.loop

    def is_serving(self):
        return self._serving

    def close(self):
        if not self._serving:
            return
        self._serving = False
        self.sockets = ()
        self.net._unlisten(self)
        self.net.sim.log("tcp", "server-close", self.host, self.port)
        if not self._active:
            self._wakeup()

    def close_clients(self):
        for tr in list(self._active):
            tr.close()

    def abort_clients(self):
        for tr in list(self._active):
            tr.abort()

    def _wakeup(self):
        waiters = self._waiters
        self._waiters = None
        for w in waiters or ():
            if not w.done():
                w.set_result(None)

    def _attach(self, tr):
        self._active.append(tr)

    def _detach(self, tr):
        if tr in self._active:
            self._active.remove(tr)
        if not self._active and not self._serving and self._waiters is not None:
            self._wakeup()

    async def wait_closed(self):
        if self._waiters is None:
            return
        w = self.net.loop.create_future()
        self._waiters.append(w)
        await w

    async def start_serving(self):
        pass

    async def serve_forever(self):
        await self.net.loop.create_future()

    async def __aenter__(self):
        return self

    async def __aexit__(self, *exc):
        self.close()
        await self.wait_closed()


class SimStreamNet:
    def __init__(self, sim, client_ip="fd00::2", prefix=""):
        self.sim = sim
        self.prefix = prefix  # prepended to connection names (decision keys)
        self.loop = sim.loop
        self.listeners = []  # SimServer, in creation order
        self.conns = []
        self.names = {}  # host name -> ip | Exception
        self.client_ip = client_ip
        self.source_ip_of = None  # fn(protocol) -> ip or None
        self.policy_for = None  # fn(conn, direction) -> spec dict
        self.connect_fault = None  # fn(index, host, port) -> None | "refuse" | ["delay", d] | Exception
        self.connect_latency = DEFAULT_LATENCY
        self.accept_delay = 0.0
        self._eph = 49152
        self.attempts = 0
        self.stats = {}

    def count(self, what, n=1):
        self.stats[what] = self.stats.get(what, 0) + n

    # -- listeners -------------------------------------------------------------
    def _find(self, ip, port):
        for srv in self.listeners:
            if srv.port == port and srv.host in (ip, "::", "", None, "0.0.0.0"):
                return srv
        return None

    def _unlisten(self, srv):
        if srv in self.listeners:
            self.listeners.remove(srv)

    async def create_server(self, protocol_factory, host=None, port=None, *, ssl=None, reuse_port=None,
                            reuse_address=None, backlog=100, family=0, flags=0, sock=None,
                            start_serving=True, **kw):
        if ssl is not None:
            raise NotImplementedError("TLS is outside the simulation")
        h = _norm_host(host) if host is not None else "::"
        if h in self.names:
            v = self.names[h]
            if isinstance(v, BaseException):
                raise v
            h = v
        if not port:
            self._eph += 1
            port = self._eph
        if self._find(h, port) is not None and not reuse_port:
            raise OSError(errno.EADDRINUSE, "Address already in use")
        srv = SimServer(self, protocol_factory, h, port)
        self.listeners.append(srv)
        self.sim.log("tcp", "listen", h, port)
        return srv

    # -- connections -----------------------------------------------------------
    async def create_connection(self, protocol_factory, host=None, port=None, *, ssl=None, local_addr=None,
                                family=0, proto=0, flags=0, sock=None, server_hostname=None, **kw):
        if ssl:
            raise NotImplementedError("TLS is outside the simulation")
        index = self.attempts
        self.attempts += 1
        h = _norm_host(host)
        if h in self.names:
            v = self.names[h]
            if isinstance(v, BaseException):
                self.sim.log("tcp", "resolve-fail", h)
                raise v
            h = v
        fault = None
        if self.connect_fault is not None:
            fault = self.connect_fault(index, h, port)
        delay = self.connect_latency
        if isinstance(fault, (list, tuple)) and fault and fault[0] == "delay":
            delay = float(fault[1])
            fault = None
        fut = self.loop.create_future()

        def done():
            if not fut.done():
                fut.set_result(None)

        self.loop.after(delay, done)
        await fut
        if isinstance(fault, BaseException):
            self.sim.log("tcp", "connect-fail", h, port, type(fault).__name__)
            self.count("refuse")
            raise fault
        srv = self._find(h, port)
        if fault == "refuse" or srv is None:
            self.sim.log("tcp", "refused", h, port)
            if fault == "refuse":
                self.count("refuse")
            raise ConnectionRefusedError(errno.ECONNREFUSED, "Connect call failed (%r, %r)" % (h, port))
        protocol = protocol_factory()
        src_ip = None
        if local_addr:
            src_ip = _norm_host(local_addr[0])
        elif self.source_ip_of is not None:
            src_ip = self.source_ip_of(protocol)
        if src_ip is None:
            src_ip = self.client_ip
        self._eph += 1
        caddr = (src_ip, self._eph, 0, 0)
        saddr = (h, port, 0, 0)
        conn = Connection(self, len(self.conns), caddr, saddr)
        self.conns.append(conn)
        pol = self.policy_for or (lambda c, d: None)
        conn.c2s = Pipe(self, conn, "c2s", pol(conn, "c2s"))
        conn.s2c = Pipe(self, conn, "s2c", pol(conn, "s2c"))
        conn.c = SimStreamTransport(self, conn, "c", caddr, saddr)
        conn.s = SimStreamTransport(self, conn, "s", saddr, caddr)
        conn.c.out, conn.c.inp = conn.c2s, conn.s2c
        conn.s.out, conn.s.inp = conn.s2c, conn.c2s
        conn.c2s.src, conn.c2s.dst = conn.c, conn.s
        conn.s2c.src, conn.s2c.dst = conn.s, conn.c
        self.sim.log("tcp", "connect", conn.name, caddr[0], caddr[1], saddr[0], saddr[1])
        # connector side first (asyncio calls connection_made before
        # create_connection returns), the acceptor after `accept_delay`
        conn.c._attach(protocol)

        def accept():
            if not srv._serving or conn.was_reset:
                if not conn.was_reset:
                    conn.reset()
                return
            if srv.harness:
                sproto = srv.factory()
            else:
                box = []
                self.loop.library_callback("server protocol factory", lambda: box.append(srv.factory()))
                if not box:
                    conn.reset()
                    return
                sproto = box[0]
            srv.accepted += 1
            conn.s.server = srv
            srv._attach(conn.s)
            conn.s._attach(sproto)

        if self.accept_delay:
            self.loop.after(self.accept_delay, accept)
        else:
            accept()
        return conn.c, protocol

    # -- reporting ---------------------------------------------------------------
    def extra_faults(self):
        return {k: v for k, v in self.stats.items() if v}


# ------------------------------------------------------------------------------
# reference framing helpers and the scripted peer


def split_frames(data):
    """Cut a byte string into RFC 8323 frames with the reference codec.
    Returns ([(start, end, msg | None, error text | None)], rest).  A frame
    whose content cannot be decoded yields msg None and the error."""
    out = []
    pos = 0
    data = bytes(data)
    while True:
        total = rc.tcp_frame_length(data[pos:pos + 5])
        if total is None or pos + total > len(data):
            return out, data[pos:]
        frame = data[pos:pos + total]
        try:
            msgs, rest = rc.tcp_decode_stream(frame)
            if len(msgs) != 1 or rest:
                out.append((pos, pos + total, None, "frame length inconsistent"))
            else:
                out.append((pos, pos + total, msgs[0], None))
        except rc.FormatError as e:
            out.append((pos, pos + total, None, str(e)))
        pos += total


def length_form(first_bytes):
    """(nibble, number of extension bytes, body length) of a frame start."""
    ln = first_bytes[0] >> 4
    if ln < 13:
        return ln, 0, ln
    if ln == 13:
        return 13, 1, first_bytes[1] + 13
    if ln == 14:
        return 14, 2, int.from_bytes(first_bytes[1:3], "big") + 269
    return 15, 4, int.from_bytes(first_bytes[1:5], "big") + 65805


class TcpPeer(asyncio.Protocol):
    """Scripted CoAP-over-TCP endpoint: writes arbitrary byte strings, records
    what it receives.  Speaks only through the reference codec."""

    IS_HARNESS = True

    def __init__(self, sim, name="peer", on_data=None, on_event=None, keep_open_on_eof=False):
        self.sim = sim
        self.name = name
        self.transport = None
        self.rx = bytearray()
        self.rx_chunks = []  # (t, length)
        self.tx = bytearray()
        self.events = []  # (t, kind, info)
        self.on_data = on_data
        self.on_event = on_event
        self.keep_open_on_eof = keep_open_on_eof
        self.connected = False
        self.eof = False
        self.lost = None  # None, or (t, exc type name | None)

    # -- asyncio.Protocol
    def connection_made(self, transport):
        self.transport = transport
        self.connected = True
        self._ev("made", None)

    def data_received(self, data):
        self.rx += data
        self.rx_chunks.append((self.sim.loop.now, len(data)))
        if self.on_data is not None:
            self.on_data(self, data)

    def eof_received(self):
        self.eof = True
        self._ev("eof", None)
        return self.keep_open_on_eof

    def connection_lost(self, exc):
        self.lost = (self.sim.loop.now, type(exc).__name__ if exc is not None else None)
        self._ev("lost", self.lost[1])

    def _ev(self, kind, info):
        self.events.append((self.sim.loop.now, kind, info))
        self.sim.log("peer", self.name, kind, info)
        if self.on_event is not None:
            self.on_event(self, kind, info)

    # -- actions
    async def connect(self, host, port):
        await self.sim.loop.streamnet.create_connection(lambda: self, host, port)
        return self

    def write(self, raw):
        raw = bytes(raw)
        self.tx += raw
        if self.transport is not None:
            self.transport.write(raw)

    def send(self, msg):
        self.write(rc.tcp_encode(msg))

    def close(self):
        if self.transport is not None:
            self.transport.close()

    def abort(self):
        if self.transport is not None:
            self.transport.abort()

    @property
    def is_open(self):
        return self.connected and self.lost is None and not self.transport.is_closing()

    # -- what arrived
    def frames(self):
        return split_frames(self.rx)

    def messages(self):
        """(messages decodable so far, undecoded rest, first error or None)"""
        frames, rest = split_frames(self.rx)
        msgs = []
        for (a, b, m, err) in frames:
            if m is None:
                return msgs, bytes(self.rx[a:]), err
            msgs.append(m)
        return msgs, rest, None


class TcpPeerListener:
    """Server role for scripted peers: `factory(n)` returns the TcpPeer for the
    n-th accepted connection (or None to have a fresh passive one)."""

    def __init__(self, sim, ip, port, factory=None):
        self.sim = sim
        self.ip = ip
        self.port = port
        self.factory = factory
        self.peers = []
        self.server = None

    def _make(self):
        n = len(self.peers)
        p = self.factory(n) if self.factory is not None else None
        if p is None:
            p = TcpPeer(self.sim, "%s#%d" % (self.ip, n))
        self.peers.append(p)
        return p

    async def start(self):
        self.server = await self.sim.loop.streamnet.create_server(self._make, self.ip, self.port)
        self.server.harness = True
        return self

    def close(self):
        if self.server is not None:
            self.server.close()
