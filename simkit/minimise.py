"""Delta-debugging minimiser over scenario files and fresh-process replay."""

import hashlib
import json
import os
import re
import subprocess
import sys
import time

from .decide import canonical

VERIF = os.path.dirname(os.path.dirname(os.path.abspath(__file__)))
MAX_TRIES = 400
MAX_SECONDS = 25


def run_scn(check, scn, want_events=False):
    """Run a scenario `repeat` times in this process (default once) and return the last result.  A repeat count > 1
    is used for violations that only show when library state survives from one run to the next (process-global
    caches in the code under test): the replay file then says so explicitly."""
    from .runner import run_one, purge_library_modules

    # confirmation, minimisation and replay are hermetic: the library is imported afresh, so nothing the code under
    # test kept from earlier runs in this process can influence the outcome
    purge_library_modules()
    res = None
    for _ in range(max(1, int(scn.get("repeat", 1)))):
        res = run_one(check, scn, want_events=want_events)
    return res


def has_kind(res, key):
    return (not res["harness_error"]) and any(v["kind"] == key for v in res["violations"])


def ddmin_list(items, test, budget):
    """Classic ddmin: returns a (locally) minimal sublist for which test() holds."""
    n = 2
    while len(items) >= 1 and budget():
        chunk = max(1, len(items) // n)
        reduced = False
        # try removing chunks
        i = 0
        while i < len(items) and budget():
            cand = items[:i] + items[i + chunk :]
            if len(cand) < len(items) and test(cand):
                items = cand
                n = max(n - 1, 2)
                reduced = True
            else:
                i += chunk
        if not reduced:
            if chunk == 1:
                break
            n = min(len(items), n * 2)
    return items


def minimise(check, scn, key):
    from .runner import run_one

    t0 = time.time()
    tries = [0]

    def budget():
        return tries[0] < MAX_TRIES and time.time() - t0 < MAX_SECONDS

    def test_scn(c):
        tries[0] += 1
        return has_kind(run_scn(check, c), key)

    cur = json.loads(json.dumps(scn))
    changed = True
    rounds = 0
    while changed and budget() and rounds < 4:
        rounds += 1
        changed = False
        # 1. ops
        if isinstance(cur.get("ops"), list) and len(cur["ops"]) > 1:
            def t_ops(ops):
                c = dict(cur)
                c["ops"] = ops
                return test_scn(c)
            new = ddmin_list(cur["ops"], t_ops, budget)
            if len(new) < len(cur["ops"]):
                cur["ops"] = new
                changed = True
        # 2. decisions back to default
        dec = cur.get("decisions") or {}
        if dec:
            keys = sorted(dec)
            def t_dec(ks):
                c = dict(cur)
                c["decisions"] = {k: dec[k] for k in ks}
                return test_scn(c)
            newkeys = ddmin_list(keys, t_dec, budget)
            if len(newkeys) < len(keys):
                cur["decisions"] = {k: dec[k] for k in newkeys}
                changed = True
        # 3. check specific shrinking
        if hasattr(check, "shrink"):
            progress = True
            while progress and budget():
                progress = False
                for cand in check.shrink(cur):
                    if not budget():
                        break
                    if test_scn(cand):
                        cur = cand
                        progress = True
                        changed = True
                        break
    return cur, tries[0]


def report(check, scn, key, quiet=False):
    """Confirm, minimise, write the replay file, verify it in a fresh process.
    Returns the path, or None if the violation does not reproduce."""
    from .runner import run_one

    pid = check.PROPERTY
    first = run_scn(check, scn)
    if not has_kind(first, key):
        # state carried over from earlier runs in the worker process?  Try the scenario back to back.
        scn = dict(scn)
        for k in (2, 3):
            scn["repeat"] = k
            first = run_scn(check, scn)
            if has_kind(first, key):
                break
        else:
            return None
    second = run_scn(check, scn)
    if second["digest"] != first["digest"] and not scn.get("repeat"):
        return None
    small, tries = minimise(check, scn, key)
    res = run_scn(check, small)
    if not has_kind(res, key):
        small, res = scn, first
    v = [x for x in res["violations"] if x["kind"] == key][0]
    small = dict(small)
    small["mode"] = "replay"
    small["expected"] = {"kind": key, "detail": v["detail"], "digest": res["digest"]}
    small["minimiser_tries"] = tries
    os.makedirs(os.path.join(VERIF, "replays"), exist_ok=True)
    h = hashlib.sha256(canonical(small).encode()).hexdigest()[:10]
    name = "%s-%s-%s.json" % (pid, re.sub(r"[^A-Za-z0-9]+", "_", key)[:60], h)
    path = os.path.join(VERIF, "replays", name)
    with open(path, "w") as f:
        json.dump(small, f, indent=1, sort_keys=True)
        f.write("\n")
    # fresh process
    env = dict(os.environ)
    p = subprocess.run(
        [os.path.join(VERIF, "run"), pid, "--replay", path],
        capture_output=True, text=True, env=env, timeout=300)
    ok = p.returncode == 1 and "reproduced=yes" in p.stdout
    if not ok:
        if not quiet:
            print("fresh-process replay of %s did not reproduce:\n%s\n%s" % (path, p.stdout[-2000:], p.stderr[-2000:]))
        return None
    return path


def replay_file(check, path, show_events=False):
    from .runner import run_one

    with open(path) as f:
        scn = json.load(f)
    exp = scn.get("expected")
    scn["mode"] = "replay"
    scn.setdefault("decisions", {})
    res = run_scn(check, scn, want_events=show_events)
    if res["harness_error"]:
        print("HARNESS-ERROR", res["harness_error"])
        return 2
    kinds = sorted({v["kind"] for v in res["violations"]})
    if show_events:
        for e in res["events"]:
            print(e)
    for v in res["violations"]:
        print("violation kind=%s t=%s detail=%s" % (v["kind"], v["t"], json.dumps(v["detail"])[:1000]))
    if exp:
        same_kind = exp["kind"] in kinds
        same_digest = exp.get("digest") == res["digest"]
        print("REPLAY property=%s kind=%s digest=%s expected_digest=%s reproduced=%s" % (
            check.PROPERTY, exp["kind"], res["digest"], exp.get("digest"),
            "yes" if (same_kind and same_digest) else ("kind-only" if same_kind else "no")))
    else:
        print("REPLAY property=%s kinds=%s digest=%s" % (check.PROPERTY, kinds, res["digest"]))
    return 1 if res["violations"] else 0
