"""Simulated UDP network: SimNet, SimSocket, the socket-module shim that is put
in place of `aiocoap.transports.udp6.socket`, and the replacement for
`aiocoap.transports.udp6.getaddrinfo`.
"""

import errno as _errno
import socket as _real_socket
import struct
import types

from . import refcodec

IN6_PKTINFO = struct.Struct("16sI")
SOCK_EXT_ERR = struct.Struct("IbbbbII")

IPV6_RECVERR = 25
MSG_ERRQUEUE = 8192
IPPROTO_IPV6 = _real_socket.IPPROTO_IPV6
IPV6_PKTINFO = _real_socket.IPV6_PKTINFO


def pton(ip):
    return _real_socket.inet_pton(_real_socket.AF_INET6, ip)


def ntop(b):
    return _real_socket.inet_ntop(_real_socket.AF_INET6, b)


def norm_ip(ip):
    """One spelling per address (an IPv4-mapped address comes in two: ::ffff:10.0.0.1 and ::ffff:a00:1)."""
    try:
        return ntop(pton(ip.split("%", 1)[0]))
    except (OSError, ValueError):
        return ip


def is_mcast(ip):
    ip = ip.lower()
    if ip.startswith("::ffff:") and "." in ip:
        # IPv4-mapped: 224.0.0.0/4
        try:
            return 224 <= int(ip[7:].split(".")[0]) <= 239
        except ValueError:
            return False
    return ip.startswith("ff")


def fmt(addr):
    return "[%s]:%d" % (addr[0], addr[1])


class SimSocket:
    def __init__(self, net):
        self.net = net
        self.fd = net._next_fd()
        self.addr = None  # (ip, port)
        self.rxq = []
        self.errq = []
        self.closed = False
        self.groups = set()
        net.sockets_by_fd[self.fd] = self

    # --- what udp6 / recvmsg transport call ---------------------------------
    def setsockopt(self, level, opt, value):
        if level == IPPROTO_IPV6 and opt == _real_socket.IPV6_JOIN_GROUP:
            self.groups.add(ntop(value[:16]))
        elif level == _real_socket.IPPROTO_IP and opt == _real_socket.IP_ADD_MEMBERSHIP:
            # dual-stack socket: the IPv4 group is seen as an IPv4-mapped address
            self.groups.add("::ffff:" + _real_socket.inet_ntoa(value[:4]))

    def setblocking(self, flag):
        pass

    def fileno(self):
        return self.fd

    def bind(self, address):
        ip, port = address[0], address[1]
        if port == 0:
            port = self.net._ephemeral_port()
        if (ip, port) in self.net.bound:
            raise OSError(_errno.EADDRINUSE, "Address already in use")
        self.addr = (ip, port)
        self.net.bound[(ip, port)] = self
        self.net.log("bind", fmt(self.addr))

    def getsockname(self):
        if self.addr is None:
            return ("::", 0, 0, 0)
        return (self.addr[0], self.addr[1], 0, 0)

    def close(self):
        if self.closed:
            return
        self.closed = True
        if self.addr is not None:
            self.net.bound.pop(self.addr, None)
            self.net.log("close", fmt(self.addr))
        self.net.sockets_by_fd.pop(self.fd, None)

    def recvmsg(self, bufsize, ancbufsize=0, flags=0):
        if self.closed:
            raise OSError(_errno.EBADF, "Bad file descriptor")
        if flags & MSG_ERRQUEUE:
            if not self.errq:
                raise BlockingIOError(_errno.EAGAIN, "Resource temporarily unavailable")
            data, ee_errno, offender = self.errq.pop(0)
            anc = [(IPPROTO_IPV6, IPV6_RECVERR,
                    SOCK_EXT_ERR.pack(ee_errno, 2, 1, 4, 0, 0, 0))]
            return data, anc, MSG_ERRQUEUE, (offender[0], offender[1], 0, 0)
        if not self.rxq:
            raise BlockingIOError(_errno.EAGAIN, "Resource temporarily unavailable")
        data, src, dst_ip = self.rxq.pop(0)
        anc = [(IPPROTO_IPV6, IPV6_PKTINFO, IN6_PKTINFO.pack(pton(dst_ip), 0))]
        return data[:bufsize], anc, 0, (src[0], src[1], 0, 0)

    def sendmsg(self, buffers, ancdata=(), flags=0, address=None):
        if self.closed:
            raise OSError(_errno.EBADF, "Bad file descriptor")
        data = b"".join(bytes(b) for b in buffers)
        src_ip = None
        for level, typ, val in ancdata:
            if level == IPPROTO_IPV6 and typ == IPV6_PKTINFO:
                a, ifidx = IN6_PKTINFO.unpack_from(val)
                ip = ntop(a)
                if ip != "::":
                    src_ip = ip
        return self.net.sendmsg(self, data, src_ip, (address[0], address[1]))


class SocketShim(types.SimpleNamespace):
    """Looks like the `socket` module to udp6.py; constants pass through."""

    def __init__(self, net):
        super().__init__()
        self._net = net

    def __getattr__(self, name):
        return getattr(_real_socket, name)

    def socket(self, family=None, type=None, *a, **k):
        return SimSocket(self._net)

    def if_nametoindex(self, name):
        return 1

    def if_indextoname(self, idx):
        return "sim%d" % idx


class Fate:
    """What happens to one datagram; JSON form is a list:
    ["deliver", delay] | ["drop"] | ["dup", [d0, d1, ...]] |
    ["corrupt", delay, spec] | ["bounce", errno, delay]"""


class SimNet:
    LATENCY = 0.005

    def __init__(self, loop, decider, sim):
        self.loop = loop
        self.decider = decider
        self.sim = sim
        self.sockets_by_fd = {}
        self.bound = {}  # (ip, port) -> SimSocket or ScriptedEndpoint
        self.names = {}  # hostname -> ip, or Exception
        self.wire = []  # list of dict entries (the wire log)
        self.fate_gen = None  # fn(rnd, entry) -> fate list ; None => always default
        self.partitions = []  # (t0, t1, ipa, ipb|None)
        self.send_errors = {}  # (src_ip,src_port, dst_ip,dst_port) -> errno for failing sendmsg (consulted via decider)
        self.icmp_on_closed = False
        self.stats = {}
        self._fd = 1000
        self._port = 40000
        self.taps = []  # fn(entry) called when a datagram is sent
        self.deliver_taps = []  # fn(entry, copy_index) at delivery
        loop.net = self

    def _next_fd(self):
        self._fd += 1
        return self._fd

    def _ephemeral_port(self):
        self._port += 1
        return self._port

    def log(self, *a):
        self.sim.log("net", *a)

    def count(self, k, n=1):
        self.stats[k] = self.stats.get(k, 0) + n

    # ---- loop integration --------------------------------------------------
    def reader_added(self, fd):
        s = self.sockets_by_fd.get(fd)
        if s is not None:
            for _ in range(max(len(s.rxq), len(s.errq))):
                self.loop.call_soon(self.loop.call_reader, fd)

    # ---- scripted endpoints ------------------------------------------------
    def attach(self, endpoint, ip, port):
        """endpoint needs .on_datagram(data, src(ip,port), dst_ip)."""
        assert (ip, port) not in self.bound
        self.bound[(ip, port)] = endpoint
        endpoint.addr = (ip, port)
        endpoint.net = self

    # ---- sending -------------------------------------------------------------
    def sendmsg(self, sock, data, src_ip, dst):
        if sock.addr is None:
            # implicit bind like the kernel does
            sock.bind(("::", 0))
        src = (src_ip or sock.addr[0], sock.addr[1])
        dst = (norm_ip(dst[0]), dst[1])
        key = "senderr:%s>%s" % (fmt(src), fmt(dst))
        gen = self.sim.gens.get("senderr")
        if gen is not None or self.decider.replaying:
            e = self.decider.get_indexed(key, 0, gen or (lambda r: 0))
            if e:
                self.count("fault.senderr")
                self.sim.log("net", "senderr", fmt(src), fmt(dst), e, data.hex())
                raise OSError(e, "injected sendmsg failure")
        self.inject(data, src, dst)
        return len(data)

    def inject(self, data, src, dst, forged=False, fate=None):
        """Put a datagram on the wire (also used by scripted peers / adversary)."""
        link = "%s>%s" % (fmt(src), fmt(dst))
        idx = self.decider.index("net:" + link)
        entry = {
            "n": len(self.wire),
            "t": self.loop.now,
            "src": src,
            "dst": dst,
            "data": data,
            "link": link,
            "idx": idx,
            "forged": forged,
            "deliveries": [],
        }
        try:
            entry["msg"] = refcodec.decode(data)
        except refcodec.FormatError:
            entry["msg"] = None
        default = ["deliver", self.LATENCY]
        if fate is None:
            gen = self.fate_gen
            if gen is None and not self.decider.replaying:
                fate = default
            else:
                fate = self.decider.get(
                    "net:%s#%d" % (link, idx), default,
                    (lambda r: gen(r, entry)) if gen else (lambda r: default))
        if fate[0] != "drop" and self._partitioned(src[0], dst[0]):
            fate = ["drop"]
            entry["partitioned"] = True
            self.count("fault.partition_drop")
        entry["fate"] = fate
        self.wire.append(entry)
        self.sim.log("tx", link, idx, data.hex(), fate)
        for tap in self.taps:
            tap(entry)
        kind = fate[0]
        if kind == "deliver":
            if fate[1] != self.LATENCY:
                self.count("fault.delay")
            self.loop.after(fate[1], self._deliver, entry, data, 0)
        elif kind == "at":  # scripted: delivery at an absolute instant
            self.loop.at(fate[1], self._deliver, entry, data, 0)
        elif kind == "drop":
            self.count("fault.drop")
        elif kind == "dup":
            self.count("fault.dup")
            for i, d in enumerate(fate[1]):
                self.loop.after(d, self._deliver, entry, data, i)
        elif kind == "corrupt":
            self.count("fault.corrupt")
            self.loop.after(fate[1], self._deliver, entry, apply_corruption(data, fate[2]), 0)
        elif kind == "bounce":
            self.count("fault.bounce")
            self.loop.after(fate[2], self._bounce, entry, fate[1])
        else:
            raise ValueError("unknown fate %r" % (fate,))
        return entry

    def _partitioned(self, a, b):
        now = self.loop.now
        for t0, t1, pa, pb in self.partitions:
            if t0 <= now < t1:
                if pb is None:
                    if a == pa or b == pa:
                        return True
                elif (a, b) in ((pa, pb), (pb, pa)):
                    return True
        return False

    def _targets(self, dst):
        if is_mcast(dst[0]):
            out = []
            for (ip, port), s in list(self.bound.items()):
                if port == dst[1] and dst[0] in getattr(s, "groups", ()):
                    out.append(s)
            return out
        s = self.bound.get(dst)
        if s is None:
            # sockets bound to the wildcard address
            s = self.bound.get(("::", dst[1]))
        return [s] if s is not None else []

    def _deliver(self, entry, data, copy):
        targets = self._targets(entry["dst"])
        entry["deliveries"].append((self.loop.now, copy, bool(targets), data if data is not entry["data"] else None))
        self.sim.log("rx", entry["link"], entry["idx"], copy, bool(targets))
        for tap in self.deliver_taps:
            tap(entry, copy, data)
        if not targets:
            self.count("undeliverable")
            if self.icmp_on_closed and not is_mcast(entry["dst"][0]):
                self._bounce(entry, _errno.ECONNREFUSED)
            return
        for s in targets:
            if isinstance(s, SimSocket):
                s.rxq.append((data, entry["src"], entry["dst"][0]))
                self.loop.library_callback("reader", self.loop.call_reader, s.fd)
            else:
                s.on_datagram(data, entry["src"], entry["dst"][0])

    def _bounce(self, entry, err):
        """ICMP-style error back to the sender's error queue."""
        s = self.bound.get(entry["src"]) or self.bound.get(("::", entry["src"][1]))
        self.sim.log("icmp", entry["link"], entry["idx"], err)
        entry.setdefault("icmp", []).append((self.loop.now, err))
        if isinstance(s, SimSocket):
            s.errq.append((entry["data"], err, entry["dst"]))
            self.loop.library_callback("reader", self.loop.call_reader, s.fd)
        elif s is not None and hasattr(s, "on_icmp"):
            s.on_icmp(err, entry["dst"])

    def icmp(self, to_addr, offender, err, data=b""):
        """Inject an ICMP-style error for `to_addr`'s socket about `offender`."""
        s = self.bound.get(to_addr) or self.bound.get(("::", to_addr[1]))
        self.sim.log("icmp-inject", fmt(to_addr), fmt(offender), err)
        self.count("fault.icmp")
        if isinstance(s, SimSocket):
            s.errq.append((data, err, offender))
            self.loop.library_callback("reader", self.loop.call_reader, s.fd)

    # ---- name resolution -----------------------------------------------------
    def make_getaddrinfo(self):
        net = self

        async def getaddrinfo(loop, log, host, port):
            v = net.names.get(host, host)
            if getattr(net, "resolve_delay", 0) and host in net.names:
                # looking a name up takes a while (literal addresses are answered at once)
                import asyncio
                await asyncio.sleep(net.resolve_delay)
            if isinstance(v, Exception):
                raise v
            if v is None:
                raise _real_socket.gaierror(-2, "Name or service not known")
            try:
                pton(v)
            except OSError:
                raise _real_socket.gaierror(-2, "Name or service not known")
            yield (norm_ip(v), port, 0, 0)  # as the C library spells it

        return getaddrinfo


def apply_corruption(data, spec):
    """spec: ["flip", bitpos] | ["trunc", n] | ["insert", pos, byte] |
    ["replace", pos, byte] | ["garbage", hex]"""
    k = spec[0]
    b = bytearray(data)
    if k == "flip":
        if not b:
            return bytes(b)
        pos = spec[1] % (len(b) * 8)
        b[pos // 8] ^= 1 << (pos % 8)
    elif k == "trunc":
        b = b[: spec[1] % (len(b) + 1)]
    elif k == "insert":
        b.insert(spec[1] % (len(b) + 1), spec[2])
    elif k == "replace":
        if b:
            b[spec[1] % len(b)] = spec[2]
    elif k == "garbage":
        b = bytearray(bytes.fromhex(spec[1]))
    return bytes(b)


class ScriptedEndpoint:
    """Base for scripted peers living on the SimNet.  They speak only through
    the reference codec."""

    def __init__(self, sim, ip, port):
        self.sim = sim
        self.loop = sim.loop
        self.rx = []  # (t, src, dst_ip, msg|None, data)
        sim.net.attach(self, ip, port)
        self._mid = 0x7000

    def next_mid(self):
        self._mid = (self._mid + 1) & 0xFFFF
        return self._mid

    def on_datagram(self, data, src, dst_ip):
        try:
            msg = refcodec.decode(data)
        except refcodec.FormatError:
            msg = None
        self.rx.append((self.loop.now, src, dst_ip, msg, data))
        self.handle(msg, src, data)

    def handle(self, msg, src, data):
        pass

    def send(self, dst, msg=None, raw=None, src=None, forged=False, fate=None):
        data = raw if raw is not None else refcodec.encode(msg)
        return self.net.inject(data, src or self.addr, dst, forged=forged, fate=fate)

    def send_at(self, when, dst, msg=None, raw=None, **kw):
        self.loop.at(when, lambda: self.send(dst, msg=msg, raw=raw, **kw))
