"""Sim: one simulated run's world -- loop, network, decisions, event log,
probes -- and the installation of all seams into the aiocoap modules of the
tree under test."""

import gc
import hashlib
import logging
import os
import sys

from .decide import Decider, DrawSource
from .loop import SimLoop
from .net import SimNet, SocketShim, fmt

REPO = os.environ.get("VERIF_REPO", "/repo")


def import_aiocoap():
    """Import aiocoap from the tree under test (never the copy installed in
    the virtualenv) and return the package."""
    if sys.path[0] != REPO:
        if REPO in sys.path:
            sys.path.remove(REPO)
        sys.path.insert(0, REPO)
    import aiocoap

    origin = os.path.realpath(aiocoap.__file__)
    if not origin.startswith(os.path.realpath(REPO) + os.sep):
        raise RuntimeError("aiocoap imported from %s, not from %s" % (origin, REPO))
    return aiocoap


class ListHandler(logging.Handler):
    def __init__(self, sim):
        super().__init__(level=logging.WARNING)
        self.sim = sim

    def emit(self, record):
        msg = record.msg if isinstance(record.msg, str) else type(record.msg).__name__
        self.sim.loglines.append((self.sim.loop.now, record.levelname, record.name, msg[:160]))


class TimeShim:
    """Replacement for the `time` module inside aiocoap.protocol."""

    def __init__(self, loop, offset):
        self.loop = loop
        self.offset = offset

    def time(self):
        return self.loop.now + self.offset

    def monotonic(self):
        return self.loop.now

    def perf_counter(self):
        return self.loop.now

    def time_ns(self):
        return int(self.time() * 1e9)

    def monotonic_ns(self):
        return int(self.loop.now * 1e9)

    def __getattr__(self, name):
        import time as _t
        v = getattr(_t, name)
        if name in ("sleep", "process_time", "thread_time", "clock_gettime", "clock_gettime_ns", "perf_counter_ns", "localtime", "gmtime", "ctime", "asctime"):
            raise RuntimeError("library code uses time.%s, which the simulation does not provide" % name)
        return v


class Sim:
    current = None

    def __init__(self, seed, replay=None, wall_offset=1_700_000_000.0):
        self.seed = seed
        self.decider = Decider(seed, replay)
        self.loop = SimLoop(self)
        self.events = []
        self.gens = {}
        self.net = SimNet(self.loop, self.decider, self)
        self.probes = {}
        self.loglines = []
        self.violations = []
        self.anomalies = []
        self.wall_offset = wall_offset
        self.draws = {}
        self._saved = []
        self._handler = None
        self.contexts = []

    # ---- event log ------------------------------------------------------------
    def log(self, *a):
        self.events.append((self.loop.now,) + a)

    def digest(self):
        h = hashlib.sha256()
        for e in self.events:
            h.update(repr(e).encode())
            h.update(b"\n")
        return h.hexdigest()[:32]

    def probe(self, name, n=1):
        self.probes[name] = self.probes.get(name, 0) + n

    def violation(self, kind, detail):
        self.violations.append({"kind": kind, "detail": detail, "t": self.loop.now})

    def anomaly(self, kind, detail=""):
        self.anomalies.append({"kind": kind, "detail": str(detail)[:300], "t": self.loop.now})

    # ---- seams -----------------------------------------------------------------
    def _patch(self, module, name, value):
        missing = object()
        old = module.__dict__.get(name, missing)
        self._saved.append((module, name, old, missing))
        setattr(module, name, value)

    def install(self, draw_bias=None):
        import_aiocoap()
        import aiocoap.transports.udp6 as udp6
        import aiocoap.messagemanager as mm
        import aiocoap.tokenmanager as tm
        import aiocoap.protocol as proto

        Sim.current = self
        self._patch(udp6, "socket", SocketShim(self.net))
        self._patch(udp6, "getaddrinfo", self.net.make_getaddrinfo())
        bias = dict(draw_bias or {})
        # unless a check says otherwise, the library's initial message ID and token counter are drawn with a bias
        # towards the ends of their ranges, so that the 16-bit message ID wraps around and the token changes its
        # byte length within a run
        bias.setdefault("mm", {"randint": lambda r, a, b: r.choice([a, b, b - 1, b - 2, b - 5, b - 20, r.randint(a, b),
                                                                     r.randint(a, b), r.randint(a, b)])})
        bias.setdefault("tm", {"randint": lambda r, a, b: r.choice([a, 254, 255, b - 1, b, r.randint(a, b),
                                                                     r.randint(a, b), r.randint(a, b)])})
        self.draws["mm"] = DrawSource(self.decider, "mm", bias.get("mm"))
        self.draws["tm"] = DrawSource(self.decider, "tm", bias.get("tm"))
        self._patch(mm, "random", self.draws["mm"])
        self._patch(tm, "random", self.draws["tm"])
        self.timeshim = TimeShim(self.loop, self.wall_offset)  # .offset += d is a step of the wall clock (NTP, operator)
        self._patch(proto, "time", self.timeshim)
        # ... and whichever other module of the library reads a clock through the `time` module: there is one
        # simulated wall clock (steppable) and one monotonic clock (the loop's), no real one
        import time as _real_time
        import importlib
        for name in ("aiocoap.resource", "aiocoap.blockwise", "aiocoap.pipe", "aiocoap.interfaces", "aiocoap.transports.tcp",
                     "aiocoap.transports.rfc8323common", "aiocoap.util.asyncio.timeoutdict", "aiocoap.cli.rd",
                     "aiocoap.cli.fileserver", "aiocoap.proxy.server", "aiocoap.proxy.client"):
            try:
                importlib.import_module(name)  # (so that it is there to be patched whatever the check imports later)
            except Exception:
                pass
        for name, mod in sorted(sys.modules.items()):
            if mod is not None and (name == "aiocoap" or name.startswith("aiocoap.")) and mod is not proto \
                    and mod.__dict__.get("time") is _real_time:
                self._patch(mod, "time", self.timeshim)
        # logging: capture WARNING and above as (level, template); never format
        self._handler = ListHandler(self)
        root = logging.getLogger()
        self._old_level = root.level
        self._old_handlers = root.handlers[:]
        root.handlers[:] = [self._handler]
        root.setLevel(logging.WARNING)
        logging.raiseExceptions = False
        import warnings
        warnings.simplefilter("ignore")
        gc.disable()

    def uninstall(self):
        for module, name, old, missing in reversed(self._saved):
            if old is missing:
                try:
                    delattr(module, name)
                except AttributeError:
                    pass
            else:
                setattr(module, name, old)
        self._saved = []
        if self._handler is not None:
            root = logging.getLogger()
            root.handlers[:] = self._old_handlers
            root.setLevel(self._old_level)
            self._handler = None
        Sim.current = None

    def close(self):
        try:
            self.loop.drain_cancel()
        except BaseException:
            pass
        self.uninstall()
        try:
            self.loop.close()
        except Exception:
            pass
        self.contexts = []
        gc.collect()
        gc.enable()

    # ---- building nodes ----------------------------------------------------------
    async def server(self, site, ip, port=5683, loggername="coap-server", **kw):
        import aiocoap

        ctx = await aiocoap.Context.create_server_context(
            site, bind=(ip, port), transports=["udp6"], loggername=loggername, **kw
        )
        self.contexts.append(ctx)
        return ctx

    async def client(self, ip, loggername="coap"):
        import aiocoap

        ctx = await aiocoap.Context.create_client_context(
            transports={"udp6": {"bind": ["[%s]:0" % ip]}}, loggername=loggername
        )
        self.contexts.append(ctx)
        return ctx

    def local_addr(self, ctx):
        mi = ctx.request_interfaces[0].token_interface.message_interface
        s = mi.transport.get_extra_info("socket")
        return s.addr

    # ---- running -----------------------------------------------------------------
    def run(self, horizon=None, stop=None):
        return self.loop.run_until_quiescent(horizon=horizon, stop=stop)

    def loop_exceptions(self):
        return [(t, m, en, es) for (t, m, en, es, ctx) in self.loop.exceptions]
