"""Independent CoAP codec written from RFC 7252 section 3 and RFC 8323
section 3.2.  Deliberately imports nothing from aiocoap.

A message is a dict:
  {"type": 0..3, "code": 0..255, "mid": 0..65535, "token": bytes,
   "options": [(number, value bytes), ...]  (in wire order),
   "payload": bytes}
"""

CON, NON, ACK, RST = 0, 1, 2, 3


class FormatError(Exception):
    pass


def code(cls, detail):
    return (cls << 5) | detail


def _ext(v):
    """nibble + extension bytes for an option delta / length value"""
    if v < 13:
        return v, b""
    if v < 269:
        return 13, bytes([v - 13])
    if v < 65536 + 269:
        return 14, (v - 269).to_bytes(2, "big")
    raise ValueError("delta/length too large")


def encode_options(options, payload):
    out = bytearray()
    last = 0
    for num, val in sorted(options, key=lambda o: o[0]):  # stable: keeps order of repeats
        dn, dx = _ext(num - last)
        ln, lx = _ext(len(val))
        out.append((dn << 4) | ln)
        out += dx
        out += lx
        out += val
        last = num
    if payload:
        out.append(0xFF)
        out += payload
    return bytes(out)


def encode(msg):
    token = msg.get("token", b"")
    assert len(token) <= 8
    out = bytearray()
    out.append((1 << 6) | (msg["type"] << 4) | len(token))
    out.append(msg["code"])
    out += msg["mid"].to_bytes(2, "big")
    out += token
    out += encode_options(msg.get("options", []), msg.get("payload", b""))
    return bytes(out)


def decode_options(data, pos):
    options = []
    num = 0
    n = len(data)
    while pos < n:
        b = data[pos]
        pos += 1
        if b == 0xFF:
            if pos >= n:
                raise FormatError("payload marker followed by zero-length payload")
            return options, data[pos:]
        dn, ln = b >> 4, b & 15
        if dn == 15 or ln == 15:
            raise FormatError("reserved nibble 15")
        if dn == 13:
            if pos + 1 > n:
                raise FormatError("truncated delta ext")
            dn = data[pos] + 13
            pos += 1
        elif dn == 14:
            if pos + 2 > n:
                raise FormatError("truncated delta ext")
            dn = int.from_bytes(data[pos : pos + 2], "big") + 269
            pos += 2
        if ln == 13:
            if pos + 1 > n:
                raise FormatError("truncated length ext")
            ln = data[pos] + 13
            pos += 1
        elif ln == 14:
            if pos + 2 > n:
                raise FormatError("truncated length ext")
            ln = int.from_bytes(data[pos : pos + 2], "big") + 269
            pos += 2
        if pos + ln > n:
            raise FormatError("option value exceeds datagram")
        num += dn
        options.append((num, bytes(data[pos : pos + ln])))
        pos += ln
    return options, b""


def decode(data):
    if len(data) < 4:
        raise FormatError("shorter than header")
    ver = data[0] >> 6
    if ver != 1:
        raise FormatError("version %d" % ver)
    typ = (data[0] >> 4) & 3
    tkl = data[0] & 15
    if tkl > 8:
        raise FormatError("TKL 9-15")
    c = data[1]
    mid = int.from_bytes(data[2:4], "big")
    if len(data) < 4 + tkl:
        raise FormatError("truncated token")
    token = bytes(data[4 : 4 + tkl])
    # (RFC 7252 section 4.1 additionally calls an Empty message with trailing
    # bytes a format error; that rule is outside section 3 and is not
    # enforced here.)
    options, payload = decode_options(data, 4 + tkl)
    return {
        "type": typ,
        "code": c,
        "mid": mid,
        "token": token,
        "options": options,
        "payload": payload,
    }


# ---- RFC 8323 (CoAP over TCP) ------------------------------------------------


def tcp_encode(msg):
    """msg: code, token, options, payload (no type/mid)."""
    token = msg.get("token", b"")
    body = encode_options(msg.get("options", []), msg.get("payload", b""))
    l = len(body)
    if l < 13:
        ln, lx = l, b""
    elif l < 269:
        ln, lx = 13, bytes([l - 13])
    elif l < 65805:
        ln, lx = 14, (l - 269).to_bytes(2, "big")
    else:
        ln, lx = 15, (l - 65805).to_bytes(4, "big")
    return bytes([(ln << 4) | len(token)]) + lx + bytes([msg["code"]]) + token + body


def tcp_frame_length(data):
    """Return total frame length if determinable from the prefix, else None."""
    if not data:
        return None
    ln = data[0] >> 4
    tkl = data[0] & 15
    if ln < 13:
        return 1 + 1 + tkl + ln
    if ln == 13:
        if len(data) < 2:
            return None
        return 2 + 1 + tkl + data[1] + 13
    if ln == 14:
        if len(data) < 3:
            return None
        return 3 + 1 + tkl + int.from_bytes(data[1:3], "big") + 269
    if len(data) < 5:
        return None
    return 5 + 1 + tkl + int.from_bytes(data[1:5], "big") + 65805


def tcp_decode_stream(data):
    """Split a byte string into frames; returns (messages, rest)."""
    msgs = []
    pos = 0
    while True:
        total = tcp_frame_length(data[pos:])
        if total is None or pos + total > len(data):
            return msgs, data[pos:]
        frame = data[pos : pos + total]
        ln = frame[0] >> 4
        tkl = frame[0] & 15
        hdr = 1 + {13: 1, 14: 2, 15: 4}.get(ln, 0)
        c = frame[hdr]
        if tkl > 8:
            raise FormatError("TKL > 8")
        token = bytes(frame[hdr + 1 : hdr + 1 + tkl])
        options, payload = decode_options(frame, hdr + 1 + tkl)
        msgs.append({"code": c, "token": token, "options": options, "payload": payload})
        pos += total


# ---- option value helpers ------------------------------------------------------


def uint_bytes(v):
    return v.to_bytes((v.bit_length() + 7) // 8, "big")


def uint_value(b):
    return int.from_bytes(b, "big")


def block_bytes(num, more, szx):
    return uint_bytes((num << 4) | (0x08 if more else 0) | szx)


def block_value(b):
    v = uint_value(b)
    return v >> 4, bool(v & 8), v & 7


# option numbers (RFC 7252, 7641, 7959, 7967)
IF_MATCH, URI_HOST, ETAG, IF_NONE_MATCH, OBSERVE, URI_PORT, LOCATION_PATH = 1, 3, 4, 5, 6, 7, 8
OSCORE = 9
URI_PATH, CONTENT_FORMAT, MAX_AGE, URI_QUERY, ACCEPT, LOCATION_QUERY = 11, 12, 14, 15, 17, 20
BLOCK2, BLOCK1, SIZE2, PROXY_URI, PROXY_SCHEME, SIZE1 = 23, 27, 28, 35, 39, 60
NO_RESPONSE = 258
ECHO, REQUEST_TAG = 252, 292

# codes
EMPTY = 0
GET, POST, PUT, DELETE, FETCH, PATCH, IPATCH = 1, 2, 3, 4, 5, 6, 7
CREATED, DELETED, VALID, CHANGED, CONTENT, CONTINUE = (
    code(2, 1), code(2, 2), code(2, 3), code(2, 4), code(2, 5), code(2, 31))
BAD_REQUEST, UNAUTHORIZED, BAD_OPTION, FORBIDDEN, NOT_FOUND, METHOD_NOT_ALLOWED = (
    code(4, 0), code(4, 1), code(4, 2), code(4, 3), code(4, 4), code(4, 5))
REQUEST_ENTITY_INCOMPLETE = code(4, 8)
PRECONDITION_FAILED = code(4, 12)
REQUEST_ENTITY_TOO_LARGE = code(4, 13)
INTERNAL_SERVER_ERROR = code(5, 0)
CSM, PING, PONG, RELEASE, ABORT = code(7, 1), code(7, 2), code(7, 3), code(7, 4), code(7, 5)


def opts(msg, number):
    return [v for n, v in msg["options"] if n == number]


def opt1(msg, number):
    l = opts(msg, number)
    return l[0] if l else None


def code_str(c):
    return "%d.%02d" % (c >> 5, c & 31)


def summary(m):
    t = "CON NON ACK RST".split()[m["type"]] if m.get("type") is not None else "TCP"
    return "%s %s mid=%s tok=%s opts=%s pl=%d" % (
        t, code_str(m["code"]), m.get("mid"), m["token"].hex(),
        [(n, v.hex()) for n, v in m["options"]], len(m["payload"]))
