"""SimLoop: a virtual-time asyncio event loop (discrete event simulation).

The loop owns the only clock the system under test reads.  Besides asyncio's
own ready queue and timer heap it keeps an *I/O heap* of simulator events
(datagram arrivals, stream chunks, scripted actions, fault events).

Order inside one iteration mirrors BaseEventLoop._run_once: I/O events that
are due first (the selector part), then timers that are due, then exactly the
handles that were ready at that point, FIFO.
"""

import asyncio
import asyncio.events
import collections
import heapq

from asyncio import events


class StepLimit(Exception):
    pass


class SimLoop(asyncio.BaseEventLoop):
    def __init__(self, sim=None):
        super().__init__()
        self.now = 0.0
        self.sim = sim
        self._io = []  # heap of (time, seq, fn, args)
        self._io_seq = 0
        self._readers = {}  # fd -> callback
        self.steps = 0
        self.step_limit = 400_000
        self.exceptions = []  # (time, message, repr(exception))
        self.set_exception_handler(self._record_exception)
        self.net = None  # SimNet, provides socket lookup by fd
        self.streamnet = None  # SimStreamNet
        self.iteration_hooks = []  # called at the start of every iteration with work
        self.stall_hook = None  # fn(now) -> extra seconds to stall, or 0
        self._task_counter = 0
        self.harness_errors = []

    # -- clock -----------------------------------------------------------
    def time(self):
        return self.now

    # -- things BaseEventLoop expects ------------------------------------
    def _process_events(self, event_list):
        pass

    def _write_to_self(self):
        pass

    def _record_exception(self, loop, context):
        exc = context.get("exception")
        msg = context.get("message", "")
        self.exceptions.append(
            (self.now, str(msg).split(" at 0x")[0][:200], type(exc).__name__ if exc else None,
             str(exc)[:300] if exc else None, context)
        )

    # -- simulator events ---------------------------------------------------
    def at(self, when, fn, *args):
        """Schedule a simulator (I/O) event at absolute virtual time."""
        if when < self.now:
            when = self.now
        self._io_seq += 1
        heapq.heappush(self._io, (when, self._io_seq, fn, args))

    def after(self, delay, fn, *args):
        self.at(self.now + delay, fn, *args)

    def _guarded(self, fn, args):
        """Simulator events are harness code: an exception escaping one is a
        harness error, never an observation about the system under test.
        (Deliveries into real sockets route library exceptions to the loop's
        exception handler themselves, see SimNet._deliver.)"""
        try:
            fn(*args)
        except (SystemExit, KeyboardInterrupt):
            raise
        except Exception as e:
            import traceback
            self.harness_errors.append("".join(traceback.format_exception(type(e), e, e.__traceback__)[-5:]))

    def library_callback(self, what, fn, *args):
        """Run library code from a simulator event the way asyncio runs a
        reader/protocol callback: exceptions go to the exception handler."""
        try:
            fn(*args)
        except (SystemExit, KeyboardInterrupt):
            raise
        except BaseException as exc:
            self.call_exception_handler({"message": "Exception in callback %s" % what, "exception": exc})

    # -- worker threads --------------------------------------------------------
    executor_latency = None  # fn() -> virtual seconds a job spends queued and running in the pool

    def run_in_executor(self, executor, func, *args):
        """Worker threads are simulated, no real thread is started (their
        scheduling would not be the simulator's): the job runs in one piece at
        a later virtual instant -- the loop goes on meanwhile, which is all the
        code awaiting the job can tell -- and its outcome resolves the future."""
        fut = self.create_future()
        d = self.executor_latency() if self.executor_latency is not None else 0.001

        def job():
            try:
                res = func(*args)
            except BaseException as e:  # noqa: B902 -- handed to whoever awaits the job, as a pool does
                if not fut.done():
                    fut.set_exception(e)
            else:
                if not fut.done():
                    fut.set_result(res)

        self.at(self.now + d, self._guarded, job, ())
        if self.sim is not None:
            self.sim.probe("job_in_worker_thread")
        return fut

    # -- readers (UDP sockets) --------------------------------------------
    def add_reader(self, fd, callback, *args):
        self._readers[fd] = (callback, args)
        if self.net is not None:
            self.net.reader_added(fd)

    def remove_reader(self, fd):
        return self._readers.pop(fd, None) is not None

    def call_reader(self, fd):
        ent = self._readers.get(fd)
        if ent is None:
            return False
        cb, args = ent
        cb(*args)
        return True

    # -- TCP ----------------------------------------------------------------
    async def create_server(self, protocol_factory, host=None, port=None, **kw):
        return await self.streamnet.create_server(protocol_factory, host, port, **kw)

    async def create_connection(self, protocol_factory, host=None, port=None, **kw):
        return await self.streamnet.create_connection(protocol_factory, host, port, **kw)

    # -- running --------------------------------------------------------------
    def has_work(self):
        if self._ready:
            return True
        if self._io:
            return True
        for h in self._scheduled:
            if not h._cancelled:
                return True
        return False

    def next_event_time(self):
        t = None
        while self._scheduled and self._scheduled[0]._cancelled:
            h = heapq.heappop(self._scheduled)
            h._scheduled = False
            self._timer_cancelled_count = max(0, self._timer_cancelled_count - 1)
        if self._scheduled:
            t = self._scheduled[0]._when
        if self._io:
            ti = self._io[0][0]
            if t is None or ti < t:
                t = ti
        return t

    def _run_once(self):
        self.steps += 1
        if self.steps > self.step_limit:
            raise StepLimit("step limit %d exceeded at t=%r" % (self.step_limit, self.now))
        if not self._ready:
            t = self.next_event_time()
            if t is not None and t > self.now:
                self.now = t
            if self.stall_hook is not None:
                d = self.stall_hook(self.now)
                if d:
                    self.now += d
        for hook in self.iteration_hooks:
            hook()
        # I/O events first (like the selector), in (time, seq) order
        io = self._io
        while io and io[0][0] <= self.now:
            when, seq, fn, args = heapq.heappop(io)
            self._ready.append(events.Handle(self._guarded, (fn, args), self))
        # then due timers
        sched = self._scheduled
        while sched and sched[0]._when <= self.now:
            h = heapq.heappop(sched)
            h._scheduled = False
            if h._cancelled:
                self._timer_cancelled_count = max(0, self._timer_cancelled_count - 1)
                continue
            self._ready.append(h)
        ntodo = len(self._ready)
        for _ in range(ntodo):
            h = self._ready.popleft()
            if h._cancelled:
                continue
            h._run()
        h = None

    def run_until_quiescent(self, horizon=None, stop=None):
        """Run until nothing is left to do (or virtual time passes horizon,
        or stop() returns true).  Returns 'quiescent', 'horizon' or 'stopped'."""
        self._check_closed()
        old = events._get_running_loop()
        events._set_running_loop(None)
        events._set_running_loop(self)
        self._thread_id = __import__("threading").get_ident()
        try:
            while True:
                if stop is not None and stop():
                    return "stopped"
                if not self._ready:
                    t = self.next_event_time()
                    if t is None:
                        return "quiescent"
                    if horizon is not None and t > horizon:
                        return "horizon"
                self._run_once()
        finally:
            self._thread_id = None
            events._set_running_loop(None)
            if old is not None:
                events._set_running_loop(old)

    def run_until_complete(self, future):
        """Like the base, but quiescence with an unfinished future is an error
        rather than a hang."""
        self._check_closed()
        new_task = not asyncio.isfuture(future)
        future = asyncio.ensure_future(future, loop=self)
        self.run_until_quiescent(stop=future.done)
        if not future.done():
            future.cancel()
            raise RuntimeError("simulation quiescent before future completed")
        return future.result()

    def drain_cancel(self):
        """Cancel every task still alive (end of a run) and let the
        cancellations be processed."""
        tasks = [t for t in asyncio.all_tasks(self) if not t.done()]
        for t in tasks:
            t.cancel()
        if tasks:
            try:
                self.run_until_quiescent(horizon=self.now)
            except Exception:
                pass
        return len(tasks)
