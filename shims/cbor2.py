"""Deterministic stand-in for the `cbor2` package, sufficient for aiocoap.oscore.

Implements exactly the subset of RFC 8949 that aiocoap/oscore.py produces and
consumes: unsigned and negative integers (up to 64 bit), byte strings, text
strings, arrays, maps, false / true / null.  Encoding is canonical in the
sense OSCORE relies on: definite lengths, shortest-form heads; map entries are
emitted in insertion order (as the real cbor2 does by default).

Validated by `simkit.oscore_env.selftest()`: the RFC 8949 Appendix A examples
of the supported types and the RFC 8613 Appendix C vectors in
/repo/tests/test_oscore.py (key derivation info, AAD, full protected messages)
pass with this module in place of cbor2.

Anything outside the subset raises CBOREncodeError / CBORDecodeError instead
of guessing.
"""

import struct

__all__ = ["dumps", "loads", "CBORError", "CBOREncodeError", "CBORDecodeError"]

IS_VERIF_SHIM = True


class CBORError(Exception):
    pass


class CBOREncodeError(CBORError):
    pass


class CBORDecodeError(CBORError):
    pass


class CBORDecodeValueError(CBORDecodeError, ValueError):
    pass


class CBORDecodeEOF(CBORDecodeError, EOFError):
    pass


def _head(major, n):
    m = major << 5
    if n < 24:
        return bytes((m | n,))
    if n < 0x100:
        return bytes((m | 24, n))
    if n < 0x10000:
        return bytes((m | 25,)) + struct.pack(">H", n)
    if n < 0x100000000:
        return bytes((m | 26,)) + struct.pack(">I", n)
    if n < 0x10000000000000000:
        return bytes((m | 27,)) + struct.pack(">Q", n)
    raise CBOREncodeError("integer out of the 64 bit range")


def _enc(obj, out):
    # bool before int: bool is a subclass of int
    if obj is False:
        out.append(b"\xf4")
    elif obj is True:
        out.append(b"\xf5")
    elif obj is None:
        out.append(b"\xf6")
    elif isinstance(obj, int):
        if obj >= 0:
            out.append(_head(0, obj))
        else:
            out.append(_head(1, -1 - obj))
    elif isinstance(obj, (bytes, bytearray, memoryview)):
        b = bytes(obj)
        out.append(_head(2, len(b)))
        out.append(b)
    elif isinstance(obj, str):
        b = obj.encode("utf-8")
        out.append(_head(3, len(b)))
        out.append(b)
    elif isinstance(obj, (list, tuple)):
        out.append(_head(4, len(obj)))
        for x in obj:
            _enc(x, out)
    elif isinstance(obj, dict):
        out.append(_head(5, len(obj)))
        for k, v in obj.items():
            _enc(k, out)
            _enc(v, out)
    else:
        raise CBOREncodeError("cbor2 stand-in cannot serialise %s" % type(obj).__name__)


def dumps(obj, **kwargs):
    out = []
    _enc(obj, out)
    return b"".join(out)


def _dec(data, pos, depth):
    if depth > 64:
        raise CBORDecodeValueError("nesting too deep")
    if pos >= len(data):
        raise CBORDecodeEOF("premature end of stream")
    ib = data[pos]
    pos += 1
    major = ib >> 5
    info = ib & 0x1F
    if major == 7:
        if info == 20:
            return False, pos
        if info == 21:
            return True, pos
        if info == 22:
            return None, pos
        raise CBORDecodeValueError("unsupported simple value / float (0x%02x)" % ib)
    if info < 24:
        n = info
    elif info in (24, 25, 26, 27):
        size = 1 << (info - 24)
        if pos + size > len(data):
            raise CBORDecodeEOF("premature end of stream")
        n = int.from_bytes(data[pos:pos + size], "big")
        pos += size
    else:
        raise CBORDecodeValueError("indefinite length / reserved additional information (0x%02x)" % ib)
    if major == 0:
        return n, pos
    if major == 1:
        return -1 - n, pos
    if major in (2, 3):
        if pos + n > len(data):
            raise CBORDecodeEOF("premature end of stream")
        raw = bytes(data[pos:pos + n])
        pos += n
        if major == 2:
            return raw, pos
        try:
            return raw.decode("utf-8"), pos
        except UnicodeDecodeError as e:
            raise CBORDecodeValueError("invalid UTF-8 in text string") from e
    if major == 4:
        items = []
        for _ in range(n):
            x, pos = _dec(data, pos, depth + 1)
            items.append(x)
        return items, pos
    if major == 5:
        d = {}
        for _ in range(n):
            k, pos = _dec(data, pos, depth + 1)
            v, pos = _dec(data, pos, depth + 1)
            if isinstance(k, list):
                k = tuple(k)
            try:
                d[k] = v
            except TypeError as e:
                raise CBORDecodeValueError("unhashable map key") from e
        return d, pos
    raise CBORDecodeValueError("tags are not supported by the cbor2 stand-in")


def loads(data, **kwargs):
    if not isinstance(data, (bytes, bytearray, memoryview)):
        raise TypeError("a bytes-like object is required")
    value, _pos = _dec(bytes(data), 0, 0)
    return value
