"""Stand-in for the `filelock` package (only what aiocoap.oscore touches).

`FileLock(path)` with `.acquire(timeout=)`, `.release()`, `.lock_file`,
`.is_locked`, context manager; `Timeout`.  Backed by `fcntl.flock` on the
real file system.  The OSCORE checks never use this class at run time: inside
a simulated run `aiocoap.oscore.filelock` is replaced by the SimFS-aware lock
of `simkit.fs_oscore`; this module only has to exist so that `import
filelock` in aiocoap/oscore.py succeeds, and to behave sanely if library code
is exercised outside a simulation (selftest, plug tests).
"""

import os
import time as _time

try:
    import fcntl
except ImportError:  # pragma: no cover
    fcntl = None

IS_VERIF_SHIM = True


class Timeout(TimeoutError):
    def __init__(self, lock_file):
        super().__init__("The file lock %r could not be acquired." % (lock_file,))
        self.lock_file = lock_file


class BaseFileLock:
    def __init__(self, lock_file, timeout=-1):
        self._lock_file = os.fspath(lock_file)
        self.timeout = timeout
        self._fd = None
        self._count = 0

    @property
    def lock_file(self):
        return self._lock_file

    @property
    def is_locked(self):
        return self._fd is not None

    def _try(self):
        fd = os.open(self._lock_file, os.O_RDWR | os.O_CREAT | os.O_TRUNC, 0o644)
        try:
            if fcntl is not None:
                fcntl.flock(fd, fcntl.LOCK_EX | fcntl.LOCK_NB)
        except OSError:
            os.close(fd)
            return False
        self._fd = fd
        return True

    def acquire(self, timeout=None, poll_interval=0.05):
        if timeout is None:
            timeout = self.timeout
        self._count += 1
        if self._fd is not None:
            return self
        start = _time.monotonic()
        while True:
            if self._try():
                return self
            if 0 <= timeout <= _time.monotonic() - start:
                self._count -= 1
                raise Timeout(self._lock_file)
            _time.sleep(poll_interval)

    def release(self, force=False):
        if self._fd is None:
            return
        self._count -= 1
        if self._count <= 0 or force:
            fd, self._fd = self._fd, None
            self._count = 0
            try:
                if fcntl is not None:
                    fcntl.flock(fd, fcntl.LOCK_UN)
            finally:
                os.close(fd)

    def __enter__(self):
        self.acquire()
        return self

    def __exit__(self, *exc):
        self.release()

    def __del__(self):
        try:
            self.release(force=True)
        except Exception:
            pass


class FileLock(BaseFileLock):
    pass


UnixFileLock = FileLock
SoftFileLock = FileLock
