"""C08 -- observe server: rising numbers, latest state sent, cancellation final, no leak."""

from simkit import refcodec as rc
from simkit import faults
from simkit.net import ScriptedEndpoint, fmt
from . import common
from .common import TOL

MAX_TRANSMIT_WAIT = 93.0  # default transport tuning: ACK_TIMEOUT * (2 ** (MAX_RETRANSMIT + 1) - 1) * ACK_RANDOM_FACTOR

PROPERTY = "C08"
LEVEL = "exploration"
RUNS = {"quick": 2000, "thorough": 30000}
RULE = ("seeded scenarios: a real server with a counter resource derived from resource.ObservableResource, 1-4 scripted "
        "observers registering with CON or NON requests; state changes in bursts at arbitrary instants (also while a "
        "notification is in flight); per notification the observer ACKs, RSTs, stays silent, re-registers on the same "
        "token or deregisters (Observe=1); ICMP errors, unsuccessful and is_last notifications, context shutdown; "
        "loss/dup/delay both ways. Systematic: reaction x trigger-position grid for one observer. Non-trivial = an end "
        "event, a burst during an open exchange, or a fault occurred; distinct = distinct event-sequence hash.")
COMPONENTS_REAL = ["aiocoap.interfaces.ObservableResource._render_to_pipe", "aiocoap.resource.ObservableResource",
                   "aiocoap.protocol.ServerObservation", "aiocoap.tokenmanager", "aiocoap.messagemanager", "aiocoap.pipe",
                   "aiocoap.transports.udp6"]
COMPONENTS_STUB = ["UDP socket (SimSocket) incl. error queue", "scripted observers (reference codec)", "event loop clock (virtual)",
                   "resource._observations replaced by an insertion-ordered set (iteration order of a set of objects is "
                   "address dependent)"]
ASSUMPTIONS = ["a re-registration on the same token starts a new registration (its numbers may restart)",
               "retransmitted copies of an earlier notification (same message ID) are not 'new' notifications",
               "'a notification rendered at or after the last change is eventually sent' is judged at quiescence for "
               "registrations still alive, on what the server transmitted (not on what the lossy network delivered)"]
EXPECTED_PROBES = ["error_notification_superseded_by_change", "change_during_render", "coalesced_burst", "change_while_in_flight", "end_by_rst", "end_by_new_request", "end_by_deregister",
                   "end_by_timeout", "end_by_icmp", "end_by_senderr", "end_by_error_notification", "end_by_last_notification", "end_by_shutdown",
                   "non_registration", "several_observers", "rst_on_non_notification", "observers_share_a_host", "sendmsg_failed", "end_event_during_render", "explicit_notification", "own_observation_under_observers_token", "partition", "change_in_the_iteration_of_an_end", "resource_breaks", "notification_never_acknowledged"]

REACTIONS = ["ack", "ack", "ack", "rst", "silent", "rereg", "dereg"]


def gen(r, tier):
    nobs = r.choice([1, 1, 2, 3, 4])
    observers = []
    for i in range(nobs):
        observers.append({"id": i, "con": r.chance(0.7), "t": round(r.uniform(0, 1), 3),
                          "reactions": [r.choice(REACTIONS) if r.chance(0.5) else "ack" for _ in range(12)]})
    if r.chance(0.25):
        r.choice(observers)["sync_change"] = True
    if r.chance(0.3):
        # observers that do not want to see error responses (RFC 7967: No-Response 8 = no 4.xx, 16 = no 5.xx, 24 both)
        for o in observers:
            if r.chance(0.6):
                o["no_response"] = r.choice([8, 16, 24])
    ops = []
    t = 1.5
    for _ in range(r.randint(2, 14)):
        t += r.choice([0.0, 0.001, 0.01, 0.1, 1.0, 3.0, 10.0])
        ops.append({"op": "change", "t": round(t, 4), "n": r.choice([1, 1, 2, 3])})
        if r.chance(0.15):
            # the application hands the notification over itself (ObservableResource.updated_state(response))
            ops[-1]["explicit"] = True
    if r.chance(0.15):
        ops.append({"op": r.choice(["error_notify", "last_notify"]), "t": round(r.uniform(1.5, t + 1), 4)})
    if r.chance(0.15):
        ops.append({"op": "break", "t": round(r.uniform(1.5, t + 1), 4)})
    if r.chance(0.15):
        ops.append({"op": "icmp", "t": round(r.uniform(1.5, t + 1), 4), "observer": r.randrange(nobs)})
    if r.chance(0.15):
        # the next datagram(s) the server hands to the socket for this observer fail in sendmsg(): the error is
        # reported from inside the send, i.e. while whoever sends (the notification loop) is still in the middle of it
        ops.append({"op": "senderr", "t": round(r.uniform(0.0, t + 1), 4), "observer": r.randrange(nobs),
                    "n": r.choice([1, 1, 2]), "errno": r.choice([101, 113, 1])})
    if r.chance(0.1):
        ops.append({"op": "shutdown", "t": round(r.uniform(1.5, t + 1), 4)})
    if r.chance(0.25):
        # an end event while the registration's FIRST render is still in progress: the observer sends another request
        # on the token (or an error is reported for it) a moment after its registration request
        o = r.choice(observers)
        dt = r.choice([0.0051, 0.006, 0.008, 0.02, 0.04])
        k = r.choice(["reg0", "reg1", "icmp", "senderr"])
        if k.startswith("reg"):
            ops.append({"op": "reg", "t": round(o["t"] + dt, 4), "observer": o["id"], "observe": int(k[3])})
        elif k == "icmp":
            ops.append({"op": "icmp", "t": round(o["t"] + dt, 4), "observer": o["id"]})
        else:
            ops.append({"op": "senderr", "t": round(o["t"] + dt, 4), "observer": o["id"], "n": 1, "errno": 101})
    ops.sort(key=lambda o: o["t"])
    # rendering may take time (the resource reads its state, then awaits something): changes can land DURING a render
    if r.chance(0.2):
        # both roles: the server context itself observes something at one of its observers, and its request happens to
        # get the very token that observer registered with (the two directions choose tokens independently)
        ops.append({"op": "own_observe", "t": round(r.uniform(1.5, t + 1), 4), "observer": r.randrange(nobs)})
        ops.sort(key=lambda o: o["t"])
    part = None
    if r.chance(0.15):
        # the path to one observer is cut for a while and heals; a state change follows once it has healed
        part = {"t0": round(r.uniform(1.5, t + 1), 3), "dur": r.choice([0.5, 3.0, 20.0, 100.0]), "observer": r.randrange(nobs)}
        ops.append({"op": "change", "t": round(part["t0"] + part["dur"] + r.choice([0.5, 5.0, 50.0]), 4), "n": 1})
        ops.sort(key=lambda o: o["t"])
    if r.chance(0.08):
        # a confirmable observer that falls silent for good (crashed, or everything it sends is lost) while the resource
        # keeps changing faster than notifications time out: there is always a newer notification waiting behind the
        # unacknowledged one
        observers = observers[:2]
        o = observers[0]
        o["con"] = True
        k = r.randint(1, 3)
        o["reactions"] = ["ack"] * k + ["silent"] * 400
        o.pop("no_response", None)
        gap = r.choice([0.4, 1.0, 1.9])
        t_s = ops[-1]["t"] if ops else 2.0
        ops = [x for x in ops if x["op"] == "change" and x.get("observer", 0) < len(observers)]
        for i in range(int(r.choice([110.0, 140.0]) / gap)):
            ops.append({"op": "change", "t": round(t_s + (i + 1) * gap, 4), "n": 1})
        part = None
    early = any(o["t"] < 1.5 and o["op"] in ("reg", "icmp", "senderr") for o in ops)
    return {"observers": observers, "ops": ops, "net": faults.swarm(r, kinds=("drop", "dup", "delay"), fault_free=0.35),
            "render_delay": r.choice([0.05, 0.05, 0.005]) if early else r.choice([0, 0, 0.0005, 0.005, 0.05]), "same_host": r.chance(0.3),
            "partition": part, "slow_unwind": r.chance(0.3)}


def systematic(tier):
    out = []
    for react in ("ack", "rst", "silent", "rereg", "dereg"):
        for con in (True, False):
            for pos in (0, 1, 2):
                for gap in (0.001, 0.5, 3.0):
                    reactions = ["ack"] * 12
                    reactions[pos] = react
                    ops = [{"op": "change", "t": round(2.0 + i * gap, 4), "n": 1 + (i % 2)} for i in range(5)]
                    out.append({"observers": [{"id": 0, "con": con, "t": 0.1, "reactions": reactions},
                                              {"id": 1, "con": True, "t": 0.2, "reactions": ["ack"] * 12}],
                                "ops": ops, "net": {}, "render_delay": 0.0005 if (pos + int(gap * 10)) % 2 else 0})
    for kind, extra in (("reg", {"observe": 0}), ("reg", {"observe": 1}), ("icmp", {}), ("senderr", {"n": 1, "errno": 101}),
                        ("shutdown", {})):
        for dt in (0.006, 0.02, 0.045):
            op = dict({"op": kind, "t": round(0.1 + dt, 4), "observer": 0}, **extra)
            for su in (False, True):
                out.append({"observers": [{"id": 0, "con": True, "t": 0.1, "reactions": ["ack"] * 12},
                                          {"id": 1, "con": False, "t": 0.5, "reactions": ["ack"] * 12}],
                            "ops": sorted([op, {"op": "change", "t": 2.0, "n": 1}, {"op": "change", "t": 4.0, "n": 2}],
                                          key=lambda o: o["t"]), "net": {}, "render_delay": 0.05, "slow_unwind": su})
    for react in ("rst", "rereg", "dereg"):
        for pos in (0, 1):
            for con in (True, False):
                # the application reports a change in the very loop iteration in which a registration ends
                reactions = ["ack"] * 12
                reactions[pos] = react
                out.append({"observers": [{"id": 0, "con": True, "t": 0.1, "reactions": reactions, "sync_change": True},
                                          {"id": 1, "con": con, "t": 0.2, "reactions": ["ack"] * 12},
                                          {"id": 2, "con": True, "t": 0.3, "reactions": ["ack"] * 12},
                                          {"id": 3, "con": con, "t": 0.4, "reactions": ["ack"] * 12}],
                            "ops": [{"op": "change", "t": 2.0, "n": 1}, {"op": "change", "t": 4.0, "n": 1}], "net": {}})
    for nr in (None, 8, 16, 24):
        for con in (True, False):
            out.append({"observers": [{"id": 0, "con": con, "t": 0.1, "reactions": ["ack"] * 12, "no_response": nr},
                                      {"id": 1, "con": True, "t": 0.2, "reactions": ["ack"] * 12}],
                        "ops": [{"op": "change", "t": 2.0, "n": 1}, {"op": "break", "t": 4.0}, {"op": "change", "t": 6.0, "n": 1}], "net": {}})
            out.append({"observers": [{"id": 0, "con": con, "t": 0.1, "reactions": ["ack"] * 12, "no_response": nr}],
                        "ops": [{"op": "change", "t": 2.0, "n": 1}, {"op": "error_notify", "t": 4.0}, {"op": "change", "t": 6.0, "n": 1}], "net": {}})
    for kind in ("error_notify", "last_notify", "icmp", "shutdown", "senderr"):
        for tt in (2.0005, 2.5, 9.0):
            ops = [{"op": "change", "t": 2.0, "n": 2}, {"op": "change", "t": 4.0, "n": 1}, {"op": "change", "t": 12.0, "n": 1}]
            op = {"op": kind, "t": tt}
            if kind == "icmp":
                op["observer"] = 0
            if kind == "senderr":
                op.update(observer=0, n=1, errno=101)
            ops.append(op)
            ops.sort(key=lambda o: o["t"])
            out.append({"observers": [{"id": 0, "con": True, "t": 0.1, "reactions": ["ack"] * 12},
                                      {"id": 1, "con": False, "t": 0.2, "reactions": ["ack"] * 12}],
                        "ops": ops, "net": {}})
    # an error response handed over while a rendering is under way, replaced by a later change before the notification
    # loop came round (coalesced: nothing has to end) / not replaced (the registration ends)
    for con in (True, False):
        for later in (1.511, 1.56, None):
            ops = [{"op": "change", "t": 1.501, "n": 1}, {"op": "error_notify", "t": 1.5038}]
            if later is not None:
                ops.append({"op": "change", "t": later, "n": 1})
            out.append({"observers": [{"id": 0, "con": con, "t": 0.9, "reactions": ["ack"] * 12}], "ops": ops, "net": {},
                        "render_delay": 0.05})
    return out


def shrink(scn):
    obs = scn["observers"]
    if len(obs) > 1:
        for i in range(len(obs)):
            if any(o.get("observer") == obs[i]["id"] for o in scn["ops"]):
                continue
            c = dict(scn)
            c["observers"] = obs[:i] + obs[i + 1:]
            yield c
    if any(scn.get("net", {}).values()):
        c = dict(scn)
        c["net"] = {}
        yield c
    for i, o in enumerate(obs):
        if o.get("sync_change"):
            c = dict(scn)
            c["observers"] = obs[:i] + [{k: v for k, v in o.items() if k != "sync_change"}] + obs[i + 1:]
            yield c
    for i, o in enumerate(obs):
        for k, rct in enumerate(o["reactions"]):
            if rct != "ack":
                c = dict(scn)
                oo = dict(o)
                oo["reactions"] = o["reactions"][:k] + ["ack"] + o["reactions"][k + 1:]
                c["observers"] = obs[:i] + [oo] + obs[i + 1:]
                yield c


class OrderedSet:
    def __init__(self):
        self._d = {}

    def add(self, x):
        self._d[x] = True

    def remove(self, x):
        del self._d[x]

    def discard(self, x):
        self._d.pop(x, None)

    def __iter__(self):
        return iter(list(self._d))

    def __len__(self):
        return len(self._d)

    def __contains__(self, x):
        return x in self._d


class Observer(ScriptedEndpoint):
    def __init__(self, sim, ip, port, spec, srv):
        super().__init__(sim, ip, port)
        self.spec = spec
        self.srv = srv
        self.token = bytes([0x0B, spec["id"]])
        self.seen_mids = set()
        self.answered = {}
        self.k = 0
        self.reqs = 0

    def register(self, observe=0, fate=None):
        self.reqs += 1
        m = {"type": rc.CON if self.spec["con"] else rc.NON, "code": rc.GET, "mid": 0x3000 + self.spec["id"] * 0x100 + self.reqs,
             "token": self.token, "options": ([(rc.OBSERVE, rc.uint_bytes(observe))] if observe is not None else []) +
             [(rc.URI_PATH, b"counter")] + ([(rc.NO_RESPONSE, rc.uint_bytes(self.spec["no_response"]))] if self.spec.get("no_response") else []),
             "payload": b""}
        self.send(self.srv, msg=m, fate=fate)
        if fate is not None:
            # (scheduled after the datagram: same instant, processed right behind it)
            self.sim.loop.after(self.SYNC_LATENCY, self.on_sync_change)

    SYNC_LATENCY = 0.02

    def sync_fate(self, react):
        """the application reports a state change in the very loop iteration in which this observer's reaction (which
        ends its registration) is processed: something else the process listens to fires in the same instant"""
        if not self.spec.get("sync_change") or self.on_sync_change is None:
            return None
        self.sim.probe("change_in_the_iteration_of_an_end")
        return ["deliver", self.SYNC_LATENCY]

    on_sync_change = None

    def handle(self, msg, src, data):
        if msg is not None and 1 <= msg["code"] < 32:
            # the server context acting as a client towards this endpoint: answer (once per message ID)
            if msg["mid"] not in self.answered:
                self.answered[msg["mid"]] = {"type": rc.ACK if msg["type"] == rc.CON else rc.NON, "code": rc.CONTENT,
                                             "mid": msg["mid"] if msg["type"] == rc.CON else self.next_mid(),
                                             "token": msg["token"], "options": [(rc.OBSERVE, b"\x05")], "payload": b"theirs"}
            self.send(src, msg=self.answered[msg["mid"]])
            return
        if msg is None or msg["token"] != self.token or not (64 <= msg["code"] < 192):
            return
        if msg["type"] == rc.ACK:
            return  # piggybacked response to one of our requests
        if msg["mid"] in self.seen_mids:
            # a retransmitted copy: repeat the acknowledgement if we acknowledged
            if msg["type"] == rc.CON and self.seen_mids_react.get(msg["mid"]) in ("ack", "rereg", "dereg"):
                self.send(src, msg={"type": rc.ACK, "code": 0, "mid": msg["mid"], "token": b"", "options": [], "payload": b""})
            return
        self.seen_mids.add(msg["mid"])
        react = self.spec["reactions"][self.k] if self.k < len(self.spec["reactions"]) else "ack"
        self.k += 1
        if not hasattr(self, "seen_mids_react"):
            self.seen_mids_react = {}
        self.seen_mids_react[msg["mid"]] = react
        self.sim.log("app", "observer-react", self.spec["id"], react, msg["mid"])
        if react in ("ack", "rereg", "dereg"):
            if msg["type"] == rc.CON:
                self.send(src, msg={"type": rc.ACK, "code": 0, "mid": msg["mid"], "token": b"", "options": [], "payload": b""})
            if react == "rereg":
                self.register(0, fate=self.sync_fate(react))
            elif react == "dereg":
                self.register(1, fate=self.sync_fate(react))
        elif react == "rst":
            fate = self.sync_fate(react)
            self.send(src, msg={"type": rc.RST, "code": 0, "mid": msg["mid"], "token": b"", "options": [], "payload": b""}, fate=fate)
            if fate is not None:
                self.sim.loop.after(self.SYNC_LATENCY, self.on_sync_change)
            if msg["type"] == rc.NON:
                self.sim.probe("rst_on_non_notification")
        # silent: nothing

    seen_mids_react = {}


def execute(sim, scn):
    import asyncio
    import aiocoap
    import aiocoap.resource as resource
    from aiocoap import Message

    loop = sim.loop
    sim.net.fate_gen = faults.fate_gen(scn.get("net", {}))
    reg_log = []  # {"t", "remote", "token", "cancelled": [times]}
    renders = []

    class Counter(resource.ObservableResource):
        def __init__(self):
            super().__init__()
            if isinstance(self._observations, set):
                # (iteration order of a set of objects depends on their addresses; whatever else the library may use
                # for its book-keeping is left alone)
                self._observations = OrderedSet()
            self.state = 0
            self.counts = []
            self.changes = []

        def update_observation_count(self, n):
            self.counts.append((loop.now, n))
            sim.log("app", "count", n)

        async def add_observation(self, request, serverobservation):
            sa = request.remote.sockaddr
            reg = {"t": loop.now, "remote": (sa[0], sa[1]), "token": bytes(request.token), "cancelled": [], "pos": len(sim.events)}
            reg_log.append(reg)
            sim.log("app", "register", fmt(reg["remote"]), reg["token"].hex())
            await super().add_observation(request, serverobservation)
            orig = serverobservation._cancellation_callback

            def wrapped():
                reg["cancelled"].append(loop.now)
                reg.setdefault("cancel_pos", len(sim.events))
                sim.log("app", "cancelled", fmt(reg["remote"]), reg["token"].hex())
                orig()

            serverobservation._cancellation_callback = wrapped

        async def render_get(self, request):
            renders.append({"pos": len(sim.events), "t": loop.now, "remote": tuple(request.remote.sockaddr[:2]),
                            "token": bytes(request.token), "state": self.state})
            sim.log("app", "render", len(renders) - 1, self.state)
            state, serial = self.state, len(renders) - 1
            if getattr(self, "broken", False):
                # the resource has failed for good and says so in every rendering from now on (a returned error response,
                # not a raised one): an unsuccessful notification, which ends each registration it is rendered for
                return Message(code=aiocoap.SERVICE_UNAVAILABLE, payload=b"broken")
            if scn.get("render_delay"):
                try:
                    await asyncio.sleep(scn["render_delay"])  # the state was read before: a change may land meanwhile
                finally:
                    if scn.get("slow_unwind"):
                        # clean-up that needs the loop once more (an async context manager's exit, a task group): a
                        # cancelled render does not end in the iteration in which it is cancelled
                        sim.probe("render_unwinds_slowly")
                        await asyncio.sleep(0)
            return Message(payload=b"s=%d;r=%d" % (state, serial))

        def change_explicit(self):
            """the resource renders the new state itself and passes the message on for all observers"""
            self.state += 1
            self.changes.append(loop.now)
            renders.append({"pos": len(sim.events), "t": loop.now, "remote": None, "token": None, "state": self.state})
            sim.log("app", "render-explicit", len(renders) - 1, self.state)
            self.updated_state(Message(code=aiocoap.CONTENT, payload=b"s=%d;r=%d" % (self.state, len(renders) - 1)))

        def change(self):
            self.state += 1
            self.changes.append(loop.now)
            if renders and scn.get("render_delay") and loop.now - renders[-1]["t"] < scn["render_delay"]:
                sim.probe("change_during_render")
            try:
                self.updated_state()
            except BaseException as e:  # (CancelledError is none of Exception)
                if isinstance(e, (SystemExit, KeyboardInterrupt)):
                    raise
                sim.violation("C08/reporting-a-change-raises", {"t": loop.now, "exception": type(e).__name__, "state": self.state})

    counter = Counter()

    async def setup():
        site = resource.Site()
        site.add_resource(["counter"], counter)
        return await sim.server(site, common.SERVER_IP)

    ctx = loop.run_until_complete(setup())
    srv = (common.SERVER_IP, 5683)
    if scn.get("same_host"):
        # all observers are processes on one host: same IP address, different ports -- distinct endpoints all the same
        observers = {o["id"]: Observer(sim, common.PEER_IPS[0], 5683 + o["id"], o, srv) for o in scn["observers"]}
        if len(observers) > 1:
            sim.probe("observers_share_a_host")
    else:
        observers = {o["id"]: Observer(sim, common.PEER_IPS[o["id"]], 5683, o, srv) for o in scn["observers"]}
    if len(observers) > 1:
        sim.probe("several_observers")
    for ob in observers.values():
        ob.on_sync_change = counter.change
    for o in scn["observers"]:
        loop.at(o["t"], observers[o["id"]].register, 0)
        if not o["con"]:
            sim.probe("non_registration")
    if scn.get("partition") and scn["partition"]["observer"] in observers:
        pt = scn["partition"]
        sim.net.partitions.append((pt["t0"], pt["t0"] + pt["dur"], common.SERVER_IP, observers[pt["observer"]].addr[0]))
        sim.probe("partition")
    own_requests = []
    own = [o for o in scn["ops"] if o["op"] == "own_observe"]
    if own and own[0]["observer"] in observers:
        # the token the context's first own request will get: counter start (recorded draw) + 1
        v0 = [d for d in sim.draws["tm"].log if d[0] == "randint"][0][3]
        observers[own[0]["observer"]].token = ((v0 + 1) % (2 ** 64)).to_bytes(8, "big").lstrip(b"\0")
    global_ends = []  # (t, kind, observer id or None)
    err_before_change = {}  # instant of an error_notify op -> number of changes reported before it
    shutdown_done = []

    def do(op):
        k = op["op"]
        if k == "change" and op.get("explicit"):
            sim.probe("explicit_notification")
            for _ in range(op["n"]):
                counter.change_explicit()
        elif k == "change":
            for _ in range(op["n"]):
                counter.change()
            if op["n"] > 1:
                sim.probe("coalesced_burst")
        elif k == "break":
            sim.probe("resource_breaks")
            global_ends.append((loop.now, "resource_broken", None))
            counter.broken = True
            counter.change()
        elif k == "error_notify":
            global_ends.append((loop.now, "error_notification", None))
            err_before_change[loop.now] = len(counter.changes)
            counter.updated_state(Message(code=aiocoap.NOT_FOUND, payload=b"gone"))
        elif k == "last_notify":
            global_ends.append((loop.now, "last_notification", None))
            for o in counter._observations:
                o.trigger(Message(payload=b"s=%d;last" % counter.state), is_last=True)
        elif k == "icmp":
            if op["observer"] in observers:
                global_ends.append((loop.now, "icmp", op["observer"]))
                sim.net.icmp(srv, observers[op["observer"]].addr, 111)
        elif k == "senderr":
            if op["observer"] in observers:
                armed[observers[op["observer"]].addr] = [op["n"], op["errno"]]
        elif k == "own_observe":
            if op["observer"] in observers:
                ob = observers[op["observer"]]
                sim.probe("own_observation_under_observers_token")
                req = ctx.request(Message(code=aiocoap.GET, uri="coap://[%s]:%d/other" % ob.addr, observe=0), handle_blockwise=False)
                own_requests.append(req)
                req.observation.register_callback(lambda m: None)
                req.observation.register_errback(lambda e: None)
        elif k == "reg":
            if op["observer"] in observers:
                if renders and scn.get("render_delay") and loop.now - renders[-1]["t"] < scn["render_delay"]:
                    sim.probe("end_event_during_render")
                observers[op["observer"]].register(op["observe"])
        elif k == "shutdown":
            global_ends.append((loop.now, "shutdown", None))

            async def sd():
                await ctx.shutdown()
                shutdown_done.append(loop.now)
            loop.create_task(sd())

    armed = {}
    senderrs = []  # (t, position in the event log, destination)
    failed_sends = {}  # datagram whose sendmsg() failed -> position of the (first) failure in the event log
    net_sendmsg = sim.net.sendmsg

    def failing_sendmsg(sock, data, src_ip, dst):
        a = armed.get((dst[0], dst[1]))
        if a and sock.addr is not None and sock.addr[1] == 5683:
            a[0] -= 1
            if a[0] <= 0:
                del armed[(dst[0], dst[1])]
            sim.net.count("fault.senderr")
            sim.log("net", "senderr", fmt((dst[0], dst[1])), a[1], data.hex())
            senderrs.append((loop.now, len(sim.events), (dst[0], dst[1])))
            failed_sends.setdefault(bytes(data), len(sim.events))
            sim.probe("sendmsg_failed")
            raise OSError(a[1], "injected sendmsg failure")
        return net_sendmsg(sock, data, src_ip, dst)

    sim.net.sendmsg = failing_sendmsg

    for op in scn["ops"]:
        loop.at(op["t"], do, op)

    sim.run()

    wire = sim.net.wire
    deliveries_to_srv = common.deliveries_to(wire, srv)
    final_state = counter.state

    def render_of(e):
        p = e["msg"]["payload"]
        if p.startswith(b"s=") and b";r=" in p:
            return renders[int(p[p.index(b";r=") + 3:])]
        return None

    txpos = {}
    for pos, ev in enumerate(sim.events):
        if ev[1] == "tx":
            txpos[(ev[2], ev[3])] = pos

    # deliveries to the server per source endpoint, with their position in the event log
    entry_of = {(e["link"], e["idx"]): e for e in wire}
    rx_from = {}
    first_pos = {}
    for pos, ev in enumerate(sim.events):
        if ev[1] == "rx" and ev[5]:
            e = entry_of.get((ev[2], ev[3]))
            if e is None or e["dst"] != srv:
                continue
            first_pos.setdefault((e["src"], e["data"]), pos)
            rx_from.setdefault(e["src"], []).append((pos, ev[0], e, e["data"], first_pos[(e["src"], e["data"])]))
    for ob in observers.values():
        rx_from.setdefault(ob.addr, [])

    for oid, ob in observers.items():
        E, T = ob.addr, ob.token
        regs = [r for r in reg_log if r["remote"] == E and r["token"] == T]
        sent_all = [e for e in wire if e["src"] == srv and e["dst"] == E and e["msg"] is not None]
        sent = [e for e in sent_all if e["msg"]["token"] == T and e["msg"]["code"] >= 64]
        # new messages = first transmission per MID
        new = []
        seen = set()
        for e in sent:
            # retransmissions are byte-identical copies; (a piggybacked response carries the observer's message ID,
            # which may coincide with one of the server's own)
            if e["data"] in seen:
                continue
            seen.add(e["data"])
            new.append(e)
        # give-ups of any CON the server sent to this endpoint: a transport-level failure for the observer
        giveups = []
        by_mid = {}
        for e in sent_all:
            if e["msg"]["type"] == rc.CON:
                by_mid.setdefault(e["msg"]["mid"], []).append(e)
        for mid, txs in by_mid.items():
            if len(txs) < 5:
                continue
            t_give = txs[4]["t"] + 2 * (txs[4]["t"] - txs[3]["t"])
            acked = False
            for (tt, ee, dd) in deliveries_to_srv:
                mm = _dec(dd)
                if ee["src"] == E and mm is not None and mm["type"] in (rc.ACK, rc.RST) and mm["mid"] == mid and tt <= t_give + TOL:
                    acked = True
            if not acked:
                giveups.append(t_give)
        # attribute every new message to the registration it was rendered for (by position in the event log)
        attributed = {i: [] for i in range(len(regs))}
        for e in new:
            rd = render_of(e)
            ref = rd["pos"] if rd is not None else txpos[(e["link"], e["idx"])]
            owner = None
            for ri, reg in enumerate(regs):
                if reg["pos"] <= ref:
                    owner = ri
            if owner is not None and rd is None:
                # an end-announcing message (unsuccessful / last): it belongs to the registration that was alive when
                # it was TRIGGERED -- it may be transmitted much later when the observer's NSTART slot was busy
                trig = [t for (t, kind, who) in global_ends if kind in ("error_notification", "last_notification")
                        and t <= e["t"] + TOL]
                if trig:
                    tg = trig[-1]
                    alive = [ri for ri, reg in enumerate(regs) if reg["t"] <= tg + TOL and
                             (not reg["cancelled"] or reg["cancelled"][0] >= tg - TOL)]
                    owner = alive[-1] if alive else None
                    if owner is None:
                        continue
            if owner is None:
                if rc.opt1(e["msg"], rc.OBSERVE) is not None:
                    sim.violation("C08/notification-without-registration", {"observer": oid, "t": e["t"],
                                                                            "msg": rc.summary(e["msg"])})
                continue
            e["_txpos"] = txpos[(e["link"], e["idx"])]
            e["_rpos"] = rd["pos"] if rd is not None else None
            attributed[owner].append(e)
        for ri, reg in enumerate(regs):
            t0 = reg["t"]
            t1 = regs[ri + 1]["t"] if ri + 1 < len(regs) else float("inf")
            ident = {"observer": oid, "registration": ri, "con": ob.spec["con"], "t_registered": t0}
            mine = attributed[ri]
            nums = [rc.uint_value(rc.opt1(e["msg"], rc.OBSERVE)) for e in mine if rc.opt1(e["msg"], rc.OBSERVE) is not None]
            if any(b <= a for a, b in zip(nums, nums[1:])):
                sim.violation("C08/observe-numbers-not-increasing", dict(ident, numbers=nums[:12]))
            # end events of this registration
            ends = []
            con_mids = {e["msg"]["mid"] for e in mine if e["msg"]["type"] == rc.CON}
            non_mids = {e["msg"]["mid"] for e in mine if e["msg"]["type"] == rc.NON}
            non_rst = None
            pos0 = reg["pos"]
            pos1 = regs[ri + 1]["pos"] if ri + 1 < len(regs) else (1 << 60)
            for (rxp, t, e, data, firstp) in rx_from[E]:
                # only what arrived while this registration was the current one (event-log order, not float time)
                if rxp <= pos0 or rxp > pos1:
                    continue
                m = _dec(data)
                if m is None:
                    continue
                if m["type"] == rc.RST and m["mid"] in con_mids:
                    ends.append((t, "rst"))
                if m["type"] == rc.RST and m["mid"] in non_mids and non_rst is None:
                    non_rst = t
                if 1 <= m["code"] < 32 and m["token"] == T:
                    if firstp < rxp:
                        continue  # a copy of an earlier request (same MID): de-duplicated by the message layer
                    ob1 = rc.opt1(m, rc.OBSERVE)
                    ends.append((t, "deregister" if (ob1 is not None and rc.uint_value(ob1) == 1) else "new_request"))
            for tg in giveups:
                if t0 - TOL <= tg:
                    ends.append((tg, "timeout"))
            for (t, kind, who) in global_ends:
                if who is not None and who != oid:
                    continue
                if kind == "icmp" and abs(t - t0) <= TOL:
                    continue  # reported in the very instant the registration was made: either order is possible
                if kind == "resource_broken":
                    # a lasting condition: it ends the registrations alive when it sets in and every later one (whose
                    # first rendering is unsuccessful already)
                    if t < t1 + TOL:
                        ends.append((max(t, t0), kind))
                    continue
                if kind == "error_notification" and not reg["cancelled"]:
                    # the message handed to updated_state() sits in the registration's one-place, lossy trigger slot
                    # until the notification loop comes round (at the latest when a rendering under way is finished);
                    # a change reported meanwhile replaces it -- "earlier ones may be coalesced" -- and the resource is
                    # rendered afresh: no unsuccessful notification ever existed, nothing has to end
                    k0 = err_before_change.get(t, len(counter.changes))
                    rd_ = scn.get("render_delay") or 0
                    busy_until = max([r_["t"] + rd_ for r_ in renders if r_["remote"] == tuple(E[:2]) and r_["token"] == T
                                      and r_["t"] <= t + TOL and r_["t"] + rd_ >= t - TOL] or [t])
                    if any(tc <= busy_until + TOL for tc in counter.changes[k0:]):
                        sim.probe("error_notification_superseded_by_change")
                        continue
                if t0 - TOL <= t < t1 + TOL:
                    ends.append((t, kind))
            for e in sent_all:
                for (t, err) in e.get("icmp", []):
                    if t >= t0 - TOL:
                        ends.append((t, "icmp"))
            for (t, p_, dst) in senderrs:
                # a failing sendmsg() is reported as a transport error for the destination
                if dst == E and pos0 < p_ <= pos1:
                    ends.append((t, "senderr"))
            ncancel = len(reg["cancelled"])
            t_c = reg["cancelled"][0] if ncancel else None
            # a confirmable notification that is never acknowledged has timed out MAX_TRANSMIT_WAIT after it was first
            # sent at the latest, whatever else has been sent or queued since: the registration does not outlive that
            first_tx = {}
            for e in mine:
                if e["msg"]["type"] == rc.CON:
                    first_tx.setdefault(e["msg"]["mid"], e["t"])
            for mid_, t_first in sorted(first_tx.items(), key=lambda kv: kv[1]):
                deadline = t_first + MAX_TRANSMIT_WAIT
                if deadline + 1.0 > loop.now:
                    continue
                if any(ee["src"] == E and (mm := _dec(dd)) is not None and mm["type"] in (rc.ACK, rc.RST) and mm["mid"] == mid_
                       and tt <= deadline + TOL for (tt, ee, dd) in deliveries_to_srv):
                    continue
                sim.probe("notification_never_acknowledged")
                if t_c is None or t_c > deadline + TOL:
                    sim.violation("C08/registration-outlives-timed-out-notification",
                                  dict(ident, mid=mid_, first_sent=t_first, deadline=deadline, ended=t_c))
                break
            # only causes that happened while the registration was still alive count
            ends = sorted(x for x in ends if t_c is None or x[0] <= t_c + TOL)
            for e in mine:
                e.pop("_dummy", None)
            if ncancel > 1:
                sim.violation("C08/cancellation-callback-ran-twice", dict(ident, times=reg["cancelled"]))
            if ends:
                t_end, how = ends[0]
                sim.probe("end_by_" + how)
                sim.nontrivial = True
                if ncancel == 0:
                    sim.violation("C08/registration-not-ended", dict(ident, cause=how, t_cause=t_end))
                    continue
                # no new notification after the registration ended (copies of earlier ones excepted); a notification
                # that announces the end (unsuccessful / last) is itself still sent
                allowed = 1 if how in ("error_notification", "last_notification", "resource_broken") else 0
                cpos = reg["cancel_pos"]
                later = [e for e in mine if e["_txpos"] > cpos and rc.opt1(e["msg"], rc.OBSERVE) is not None]
                enders = [e for e in mine if e["_txpos"] > cpos and rc.opt1(e["msg"], rc.OBSERVE) is None
                          and e["msg"]["code"] >= 128 and e["msg"]["payload"] != b"broken"
                          or (e["_txpos"] > cpos and e["msg"]["payload"].endswith(b";last"))]
                # (b"broken": what a resource that has failed for good answers to every request, the observer's later
                # requests included -- responses, not notifications)
                # (the piggy-backed first response repeated for a late copy of the registering request is the message
                # layer's answer to a duplicate -- a copy of what it had tried to send, not a notification)
                def failed_before(e):
                    return e["data"] in failed_sends and failed_sends[e["data"]] < e["_txpos"]
                dup_answers = [e for e in later if failed_before(e) and e["msg"]["type"] == rc.ACK]
                if dup_answers:
                    sim.probe("failed_first_response_repeated_for_duplicate_request")
                    later = [e for e in later if e not in dup_answers]
                revived = [e for e in later if failed_before(e)]
                if revived:
                    # not held back by NSTART: its first transmission was attempted and failed in sendmsg() (which ended
                    # the registration, or happened after its end), and yet it is on the wire afterwards
                    sim.violation("C08/notification-transmitted-after-its-failed-send-ended-the-registration",
                                  dict(ident, cause=how, t_end=t_c, later=[[e["t"], rc.summary(e["msg"])] for e in revived][:5]))
                    later = [e for e in later if not failed_before(e)]
                if later or len(enders) > allowed:
                    rendered_before = all(e["_rpos"] is not None and e["_rpos"] < cpos for e in later)
                    sim.violation("C08/backlogged-notification-sent-after-end" if (later and rendered_before)
                                  else "C08/notification-after-end",
                                  dict(ident, cause=how, t_end=t_c, later=[[e["t"], rc.summary(e["msg"])] for e in later][:5],
                                       enders=len(enders)))
            else:
                if non_rst is not None:
                    # Reset answering a NON notification: the statement counts it as an end event
                    if ncancel == 0:
                        later = [e for e in mine if e["t"] > non_rst + TOL]
                        sim.violation("C08/rst-on-non-notification-ignored", dict(ident, t_rst=non_rst, later=len(later)))
                    continue
                if ncancel:
                    sim.violation("C08/registration-cancelled-without-cause", dict(ident, t=reg["cancelled"][0]))
                    continue
                # latest state eventually sent
                last_state = None
                for e in mine:
                    p = e["msg"]["payload"]
                    if p.startswith(b"s="):
                        last_state = int(p[2:p.index(b";")])
                if last_state != final_state:
                    sim.violation("C08/latest-state-never-sent", dict(ident, last_sent_state=last_state, final_state=final_state))
                if len(mine) - 1 < final_state:
                    sim.probe("change_while_in_flight")
    # observer count returns
    if counter.counts:
        final_count = counter.counts[-1][1]
        alive_impl = sum(1 for r in reg_log if not r["cancelled"])
        if final_count != alive_impl:
            sim.violation("C08/observer-count-not-restored", {"count": final_count, "registrations_alive": alive_impl})
    for (t, m, en, es) in sim.loop_exceptions():
        sim.anomaly("loop-exception:%s" % en, "%s %s" % (m, es))


def _dec(data):
    try:
        return rc.decode(data)
    except rc.FormatError:
        return None
