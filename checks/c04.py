"""C04 -- duplicate requests are executed at most once and re-answered identically."""

from simkit import refcodec as rc
from simkit.net import ScriptedEndpoint, fmt
from . import common
from .common import TOL

PROPERTY = "C04"
LEVEL = "exploration"
SUPPORTS_V4 = True  # scenarios with "v4": true run over IPv4-mapped addresses (see common.set_family)
RUNS = {"quick": 3500, "thorough": 50000}
RULE = ("seeded scenarios: 1-3 scripted clients (sharing a small pool of message IDs) send CON/NON requests to a "
        "real server with fast / slow (separate response) / raising / response-suppressed handlers; copies of each "
        "request datagram arrive at chosen instants: same instant, before the handler finished, between empty ACK "
        "and separate response, after the response, EXCHANGE_LIFETIME -/+ epsilon after the first arrival, and long "
        "after; message IDs used before by the same endpoint for a ping or a stray response; systematic grid of copy position x handler kind x CON/NON. Non-trivial = at least one duplicate "
        "copy was delivered; distinct = distinct (event class, link, fate) sequence hash.")
COMPONENTS_REAL = ["aiocoap.messagemanager", "aiocoap.tokenmanager", "aiocoap.protocol", "aiocoap.pipe",
                   "aiocoap.resource", "aiocoap.transports.udp6", "aiocoap.util.asyncio.recvmsg", "aiocoap.message"]
COMPONENTS_STUB = ["UDP socket (SimSocket)", "scripted clients (reference codec)", "event loop clock (virtual)"]
ASSUMPTIONS = ["EXCHANGE_LIFETIME is the default 247 s of the incoming message's tuning",
               "copies coinciding (within 1e-9 s) with the empty-ACK timer, handler completion or the expiry timer "
               "are accepted either way"]
EXPECTED_PROBES = ["transport_error_for_client", "dup_before_ack", "dup_after_empty_ack", "dup_after_piggyback", "dup_non", "dup_at_lifetime_minus",
                   "dup_at_lifetime_plus", "same_mid_other_endpoint", "dup_same_instant", "same_mid_used_for_non_request_before", "wall_clock_step", "blockwise_upload", "bare_resource_as_site", "unserialisable_reply"]

LIFETIME = 247.0
HANDLERS = ["fast", "slow", "raise", "slowraise", "unser"]
SLOW = 0.4


def gen_upload(r):
    """A request body that arrives in two Block1 blocks (two datagrams, two message IDs, assembled by the library), at a
    server whose site is a Site or -- legal, and what the proxy classes do -- a bare resource; copies of either block
    within the lifetime, and the first block's message ID used again for something else after its lifetime."""
    d = r.choice([0.5, 5.0, 30.0, 80.0])
    return {"upload": {"bare": r.chance(0.6), "d": d, "szx": r.choice([0, 2]),
                       "copy0": r.choice([None, 1.0, 100.0, LIFETIME - 1e-3]),
                       "copy1": r.choice([None, 1.0, LIFETIME - d / 2, LIFETIME - 1e-3]),
                       "reuse0": r.choice([LIFETIME + 1e-3, LIFETIME + 1.0, 400.0]),
                       "mid0": r.choice([0, 7, 0xFFFF, r.randrange(65536)])},
            "nclients": 1, "reqs": []}


def gen(r, tier):
    if r.chance(0.1):
        return gen_upload(r)
    nclients = r.choice([1, 2, 2, 3])
    # a small pool so that clients collide with each other, plus IDs the SERVER will use for its own messages
    # (separate responses; the clients acknowledge those, so the same number occurs in both directions)
    mids = [r.randrange(0, 65536) for _ in range(2)] + [0, 0xFFFF] + [0x1000 + r.randrange(0, 4) for _ in range(2)]
    reqs = []
    n = r.randint(1, 6)
    used = set()
    for i in range(n):
        c = r.randrange(nclients)
        mid = r.choice(mids)
        if (c, mid) in used:
            continue  # one logical request per (client, mid): re-use by the same client happens only via copies
        used.add((c, mid))
        t0 = round(r.uniform(0, 3), 4)
        offs = []
        for _ in range(r.choice([0, 1, 1, 2, 3, 5])):
            eps = r.choice([1e-6, 1e-3, 0.5])
            offs.append(r.choice([
                0.0, 0.05, round(r.uniform(0.001, 0.099), 4), 0.2, round(r.uniform(0.11, SLOW - 0.01), 4),
                1.0, round(r.uniform(0.5, 200), 3), LIFETIME - eps, LIFETIME + eps,
                round(r.uniform(248, 600), 3), 2 * LIFETIME + eps]))
        reqs.append({"id": i, "client": c, "mid": mid, "con": r.chance(0.7), "handler": r.choice(HANDLERS),
                     "no_response": r.choice([None, None, None, 26, 2]), "t": t0, "copies": sorted(offs)})
        if r.chance(0.15):
            # the same endpoint used this message ID before for something that is not a request (a ping, a confirmable
            # response nobody waits for): the server answers those with RST, and that says nothing about the request
            reqs[-1]["pre"] = {"kind": r.choice(["ping", "con_response", "non_response"]),
                               "dt": r.choice([0.001, 0.5, 30.0, 246.0, 300.0])}
    # a transport error reported for a client (ICMP) must not make the server forget what it has seen from it
    icmps = []
    if r.chance(0.3):
        for _ in range(r.randint(1, 2)):
            icmps.append({"t": round(r.uniform(0, 4), 4) if r.chance(0.7) else round(r.uniform(4, 260), 3),
                          "client": r.randrange(nclients)})
    jumps = []
    if r.chance(0.25):
        # the host's wall clock is stepped (NTP, an operator, a VM resumed): EXCHANGE_LIFETIME is about elapsed time
        for _ in range(r.randint(1, 2)):
            jumps.append({"t": round(r.choice([r.uniform(0, 4), r.uniform(4, 250)]), 3),
                          "by": r.choice([-3600.0, -300.0, -100.0, 100.0, 300.0, 3600.0, 86400.0])})
    return {"nclients": nclients, "reqs": reqs, "icmps": icmps, "same_host": r.chance(0.3), "v4": r.chance(0.15), "jumps": jumps}


def systematic(tier):
    out = []
    positions = [0.0, 0.05, 0.2, 1.0, LIFETIME - 1e-3, LIFETIME + 1e-3, 400.0]
    for h in HANDLERS:
        for con in (True, False):
            for nr in (None, 26):
                for p in positions:
                    out.append({"nclients": 2, "reqs": [
                        {"id": 0, "client": 0, "mid": 7, "con": con, "handler": h, "no_response": nr, "t": 0.0,
                         "copies": [p]},
                        {"id": 1, "client": 1, "mid": 7, "con": con, "handler": h, "no_response": nr, "t": 0.01,
                         "copies": []}]})
    for bare in (False, True):
        for d in (0.5, 30.0, 80.0):
            for c0, c1 in ((None, None), (100.0, 1.0), (LIFETIME - 1e-3, LIFETIME - d / 2), (None, LIFETIME - 1e-3)):
                out.append({"upload": {"bare": bare, "d": d, "szx": 0, "copy0": c0, "copy1": c1, "reuse0": LIFETIME + 1e-3, "mid0": 7},
                            "nclients": 1, "reqs": []})
    for by in (-3600.0, -100.0, 300.0, 3600.0):
        for p in (1.0, 200.0, LIFETIME - 1e-3, LIFETIME + 1e-3, 400.0):
            for con in (True, False):
                out.append({"nclients": 1, "reqs": [{"id": 0, "client": 0, "mid": 9, "con": con, "handler": HANDLERS[0], "no_response": None,
                                                     "t": 0.0, "copies": [p]}], "jumps": [{"t": 0.5, "by": by}]})
    return out


def draw_bias(scn):
    # the server numbers its own messages from here (see gen)
    return {"mm": {"randint": lambda r, a, b: 0x1000}}


def shrink(scn):
    if scn.get("upload"):
        u = scn["upload"]
        for k in ("copy0", "copy1"):
            if u.get(k) is not None:
                yield dict(scn, upload=dict(u, **{k: None}))
        return
    reqs = scn["reqs"]
    if len(reqs) > 1:
        for i in range(len(reqs)):
            c = dict(scn)
            c["reqs"] = reqs[:i] + reqs[i + 1:]
            yield c
    for i, q in enumerate(reqs):
        for k in range(len(q["copies"])):
            c = dict(scn)
            qq = dict(q)
            qq["copies"] = q["copies"][:k] + q["copies"][k + 1:]
            c["reqs"] = reqs[:i] + [qq] + reqs[i + 1:]
            yield c
        if q["no_response"] is not None:
            c = dict(scn)
            qq = dict(q)
            qq["no_response"] = None
            c["reqs"] = reqs[:i] + [qq] + reqs[i + 1:]
            yield c


class Client(ScriptedEndpoint):
    """Sends what the scenario says; acknowledges every CON response so that
    separate responses are not retransmitted."""

    def handle(self, msg, src, data):
        if msg is not None and msg["type"] == rc.CON and msg["code"] != 0:
            self.send(src, msg={"type": rc.ACK, "code": 0, "mid": msg["mid"], "token": b"", "options": [],
                                "payload": b""}, fate=["deliver", 0.005])


def execute_upload(sim, scn):
    import aiocoap.resource as resource
    from aiocoap import Message

    loop = sim.loop
    up = scn["upload"]
    inv = []

    class Up(resource.Resource):
        async def render_put(self, request):
            inv.append((loop.now, "PUT", bytes(request.payload)))
            sim.log("app", "invoke", "PUT", len(request.payload))
            return Message(payload=b"stored")

        async def render_get(self, request):
            inv.append((loop.now, "GET", b""))
            sim.log("app", "invoke", "GET")
            return Message(payload=b"state")

    async def setup():
        if up["bare"]:
            sim.probe("bare_resource_as_site")
            return await sim.server(Up(), common.SERVER_IP)
        site = resource.Site()
        site.add_resource(["up"], Up())
        return await sim.server(site, common.SERVER_IP)

    loop.run_until_complete(setup())
    srv = (common.SERVER_IP, 5683)
    cl = Client(sim, common.PEER_IPS[0], 5683)
    size = 16 << up["szx"]
    body = bytes((i * 7 + 3) & 0xFF for i in range(size + 5))
    A = up["mid0"]
    B = (A + 1) & 0xFFFF
    tok = b"\xc7\x01"
    path = [(rc.URI_PATH, b"up")]
    b0 = rc.encode({"type": rc.CON, "code": rc.PUT, "mid": A, "token": tok,
                    "options": path + [(rc.BLOCK1, rc.block_bytes(0, True, up["szx"]))], "payload": body[:size]})
    b1 = rc.encode({"type": rc.CON, "code": rc.PUT, "mid": B, "token": tok,
                    "options": path + [(rc.BLOCK1, rc.block_bytes(1, False, up["szx"]))], "payload": body[size:]})
    get = rc.encode({"type": rc.CON, "code": rc.GET, "mid": A, "token": b"\xc7\x02", "options": path, "payload": b""})
    t0, t1 = 0.1, 0.1 + up["d"]
    sim.probe("blockwise_upload")
    cl.send(srv, raw=b0, fate=["at", t0])
    cl.send(srv, raw=b1, fate=["at", t1])
    ndup = 0
    if up.get("copy0") is not None:
        cl.send(srv, raw=b0, fate=["at", t0 + up["copy0"]])
        ndup += 1
    if up.get("copy1") is not None:
        cl.send(srv, raw=b1, fate=["at", t1 + up["copy1"]])
        ndup += 1
    t_reuse = t0 + up["reuse0"]
    cl.send(srv, raw=get, fate=["at", t_reuse])
    sim.run()
    sim.nontrivial = True
    sim.extra_faults = {"dup": ndup} if ndup else {}
    ident = {"bare": up["bare"], "gap_between_blocks": up["d"], "mid0": A}
    out = [(e["t"], e["msg"], e["data"]) for e in sim.net.wire if e["src"] == srv and e["dst"] == cl.addr and e["msg"] is not None]
    acks0 = [(t, m, d) for (t, m, d) in out if m["type"] == rc.ACK and m["mid"] == A and t < t_reuse - TOL]
    acks1 = [(t, m, d) for (t, m, d) in out if m["type"] == rc.ACK and m["mid"] == B]
    late0 = [(t, m, d) for (t, m, d) in out if m["type"] == rc.ACK and m["mid"] == A and t >= t_reuse - TOL]
    puts = [x for x in inv if x[1] == "PUT"]
    if len(puts) != 1 or puts[0][2] != body:
        sim.violation("C04/handler-invoked-for-duplicate" if len(puts) > 1 else "C04/upload-not-delivered",
                      dict(ident, invocations=len(puts), body_ok=bool(puts and puts[0][2] == body)))
        return
    if len({d for (t, m, d) in acks0}) != 1 or acks0[0][1]["code"] != rc.CONTINUE or len(acks0) != 1 + (up.get("copy0") is not None):
        sim.violation("C04/duplicate-not-answered-with-same-ack", dict(ident, block=0, acks=[rc.summary(m) for (t, m, d) in acks0]))
    if len({d for (t, m, d) in acks1}) != 1 or acks1[0][1]["code"] != rc.CHANGED or len(acks1) != 1 + (up.get("copy1") is not None):
        sim.violation("C04/duplicate-not-answered-with-same-ack", dict(ident, block=1, copy_after=up.get("copy1"),
                                                                       acks=[rc.summary(m) for (t, m, d) in acks1]))
    gets = [x for x in inv if x[1] == "GET"]
    if len(gets) != 1 or not late0 or late0[0][1]["code"] != rc.CONTENT:
        sim.violation("C04/request-after-lifetime-not-processed", dict(ident, reuse_after=up["reuse0"], invocations=len(gets),
                                                                       answered=[rc.summary(m) for (t, m, d) in late0]))
    for (t, m, en, es) in sim.loop_exceptions():
        sim.anomaly("loop-exception", "%s %s %s" % (m, en, es))


def execute(sim, scn):
    if scn.get("upload"):
        return execute_upload(sim, scn)
    import asyncio
    import aiocoap.resource as resource
    from aiocoap import Message

    loop = sim.loop
    invocations = []  # (t, path, (ip, port), mid, tag)

    class H(resource.Resource):
        def __init__(self, kind):
            super().__init__()
            self.kind = kind

        async def render_get(self, request):
            sa = request.remote.sockaddr
            invocations.append((loop.now, self.kind, (sa[0], sa[1]), request.mid, bytes(request.token)))
            sim.log("app", "invoke", self.kind, fmt(sa), request.mid)
            if self.kind in ("slow", "slowraise"):
                await asyncio.sleep(SLOW)
            if self.kind in ("raise", "slowraise"):
                raise RuntimeError("handler failure")
            if self.kind == "unser":
                # a response that cannot be put on the wire (text where bytes belong): whatever becomes of it, the
                # request has been passed to the application, and that happens once
                sim.probe("unserialisable_reply")
                return Message(payload="text, not bytes")
            return Message(payload=b"ok:" + bytes(request.token))

    async def setup():
        site = resource.Site()
        for h in HANDLERS:
            site.add_resource([h], H(h))
        return await sim.server(site, common.SERVER_IP)

    loop.run_until_complete(setup())
    srv = (common.SERVER_IP, 5683)
    if scn.get("same_host"):
        # several client processes on one host: one IP address, different ports -- different endpoints
        clients = [Client(sim, common.PEER_IPS[0], 5683 + i) for i in range(scn["nclients"])]
        if len(clients) > 1:
            sim.probe("clients_share_a_host")
    else:
        clients = [Client(sim, common.PEER_IPS[i], 5683) for i in range(scn["nclients"])]
    same_mid = {}
    ndup = 0
    tokens = {}
    for q in scn["reqs"]:
        cl = clients[q["client"]]
        token = bytes([0xC0 + q["id"], q["client"]])
        opts = [(rc.URI_PATH, q["handler"].encode())]
        if q["no_response"] is not None:
            opts.append((rc.NO_RESPONSE, rc.uint_bytes(q["no_response"])))
        m = {"type": rc.CON if q["con"] else rc.NON, "code": rc.GET, "mid": q["mid"], "token": token,
             "options": opts, "payload": b""}
        tokens[q["id"]] = token
        raw = rc.encode(m)
        # arrival instants are chosen exactly: the copies are the fault under study
        if q.get("pre"):
            pk = q["pre"]["kind"]
            pm = {"type": rc.NON if pk == "non_response" else rc.CON, "code": 0 if pk == "ping" else rc.CONTENT,
                  "mid": q["mid"], "token": b"" if pk == "ping" else bytes([0xEE, q["id"]]), "options": [],
                  "payload": b"" if pk == "ping" else b"stray"}
            # (scheduled relative to a start shifted so that it never lies before t = 0)
            cl.send(srv, raw=rc.encode(pm), fate=["at", max(0.0, q["t"] - q["pre"]["dt"])])
            sim.probe("same_mid_used_for_non_request_before")
        cl.send(srv, raw=raw, fate=["at", q["t"]])
        for off in q["copies"]:
            cl.send(srv, raw=raw, fate=["at", q["t"] + off])
            ndup += 1
        same_mid.setdefault(q["mid"], set()).add(q["client"])
    for ic in scn.get("icmps", []):
        if ic["client"] < len(clients):
            loop.at(ic["t"], sim.net.icmp, srv, clients[ic["client"]].addr, 111)
            sim.probe("transport_error_for_client")
    for j in scn.get("jumps") or []:
        def jump(j=j):
            sim.probe("wall_clock_step")
            sim.net.count("fault.clock_step")
            sim.log("app", "wall-clock-step", j["by"])
            sim.timeshim.offset += j["by"]
        loop.at(j["t"], jump)
    if ndup:
        sim.extra_faults = {"dup": ndup}
    if any(len(v) > 1 for v in same_mid.values()):
        sim.probe("same_mid_other_endpoint")

    sim.run()

    wire = sim.net.wire
    for q in scn["reqs"]:
        cl = clients[q["client"]]
        ident = {"req": q["id"], "client": fmt(cl.addr), "mid": q["mid"], "con": q["con"], "handler": q["handler"]}
        arrivals = sorted([q["t"]] + [q["t"] + o for o in q["copies"]])
        # windows: first arrival opens one; arrivals within LIFETIME of it are duplicates
        windows = []
        ambiguous = False
        for a in arrivals:
            if not windows:
                windows.append([a])
                continue
            w0 = windows[-1][0]
            if abs(a - (w0 + LIFETIME)) <= TOL:
                ambiguous = True
                windows[-1].append(a)
            elif a < w0 + LIFETIME:
                windows[-1].append(a)
            else:
                windows.append([a])
        inv = [i for i in invocations if i[2] == cl.addr and i[3] == q["mid"]]
        # a transport error reported for the client in the very instant a request arrives stops its processing before
        # the handler was even started: such a window may have no invocation
        icmp_ts0 = [ic["t"] for ic in scn.get("icmps", []) if ic["client"] == q["client"]]
        cut_short = sum(1 for w in windows if any(abs(ti - w[0]) <= TOL for ti in icmp_ts0))
        if not ambiguous and cut_short and len(windows) - cut_short <= len(inv) <= len(windows):
            pass
        elif not ambiguous:
            if len(inv) > len(windows):
                sim.violation("C04/handler-invoked-for-duplicate", dict(ident, invocations=[i[0] for i in inv],
                                                                       windows=windows))
            elif len(inv) < len(windows):
                sim.violation("C04/request-after-lifetime-not-processed" if len(windows) > 1 and len(inv) >= 1
                              else "C04/request-not-processed", dict(ident, invocations=[i[0] for i in inv],
                                                                      windows=windows))
        if ambiguous or q["handler"] == "unser":
            continue  # (what is sent in place of an unserialisable reply is C09's business)
        # what the server sent to this client under this MID / token
        sent = [e for e in wire if e["src"] == srv and e["dst"] == cl.addr and e["msg"] is not None]
        dur = SLOW if q["handler"] in ("slow", "slowraise") else 0.0
        icmp_ts = [ic["t"] for ic in scn.get("icmps", []) if ic["client"] == q["client"]]
        for wi, w in enumerate(windows):
            w_start = w[0]
            if any(w_start - TOL <= ti <= w_start + dur + 0.11 for ti in icmp_ts):
                # the error report hit while this request was being processed: its handler is cancelled and what it
                # would have sent is moot; (that it is not executed again is still checked above)
                continue
            w_end = windows[wi + 1][0] if wi + 1 < len(windows) else float("inf")
            acks = [e for e in sent if e["msg"]["type"] == rc.ACK and e["msg"]["mid"] == q["mid"]
                    and w_start - TOL <= e["t"] < w_end - TOL]
            dups = w[1:]
            for d in dups:
                if abs(d - w_start) <= TOL:
                    sim.probe("dup_same_instant")
                if abs(d - (w_start + LIFETIME)) < 0.6 and d < w_start + LIFETIME:
                    sim.probe("dup_at_lifetime_minus")
            if wi > 0 and abs(w_start - (windows[wi - 1][0] + LIFETIME)) < 0.6:
                sim.probe("dup_at_lifetime_plus")
            if not q["con"]:
                if dups:
                    sim.probe("dup_non")
                if acks:
                    sim.violation("C04/non-request-acknowledged", dict(ident, acks=[e["t"] for e in acks]))
                # responses carrying the request's token within this window: at most one message
                resp = [e for e in sent if e["msg"]["token"] == tokens[q["id"]] and e["msg"]["code"] != 0
                        and w_start - TOL <= e["t"] < w_end - TOL]
                distinct = {e["data"] for e in resp}
                if len(resp) > 1:
                    sim.violation("C04/non-duplicate-produced-output", dict(ident, n=len(resp), t=[e["t"] for e in resp],
                                                                           distinct=len(distinct)))
                continue
            # CON
            if not acks:
                # no acknowledgement was ever sent in this window: then no duplicate may have been answered
                sim.violation("C04/con-request-never-acknowledged", dict(ident, window=w))
                continue
            first = acks[0]
            if any(e["data"] != first["data"] for e in acks):
                sim.violation("C04/duplicate-answered-differently", dict(
                    ident, first=first["data"].hex(), others=sorted({e["data"].hex() for e in acks})))
            t_ack = first["t"]
            after = [d for d in dups if d > t_ack + TOL]
            tie = [d for d in dups if abs(d - t_ack) <= TOL]
            before = [d for d in dups if d < t_ack - TOL]
            if before:
                sim.probe("dup_before_ack")
            if after:
                sim.probe("dup_after_piggyback" if first["msg"]["code"] else "dup_after_empty_ack")
            lo = 1 + len(after)
            hi = lo + len(tie)
            if not (lo <= len(acks) <= hi):
                sim.violation("C04/duplicate-not-reanswered" if len(acks) < lo else "C04/duplicate-answered-too-often",
                              dict(ident, acks=[e["t"] for e in acks], dups=dups, t_first_ack=t_ack))
            else:
                # each duplicate after the acknowledgement is answered in its own instant
                for d in after:
                    if not any(abs(e["t"] - d) <= TOL for e in acks[1:]):
                        sim.violation("C04/duplicate-not-reanswered", dict(ident, dup=d, acks=[e["t"] for e in acks]))
                        break
            # separate responses (fresh MID, request token): one message per window
            sep = [e for e in sent if e["msg"]["type"] in (rc.CON, rc.NON) and e["msg"]["token"] == tokens[q["id"]]
                   and w_start - TOL <= e["t"] < w_end - TOL]
            if len({e["msg"]["mid"] for e in sep}) > 1:
                sim.violation("C04/second-separate-response", dict(ident, mids=sorted({e["msg"]["mid"] for e in sep})))
    for (t, m, en, es) in sim.loop_exceptions():
        sim.anomaly("loop-exception", "%s %s %s" % (m, en, es))
