"""C17 -- Site routing: exact match, longest prefix for nested sites, matching discovery.

System: a real server context whose site is a tree of `resource.Site`s (depth
<= 3) with leaf resources, path-capable terminals, hidden resources, slow
handlers and a `WKCResource`; `add_resource` / `remove_resource` are called on
any site at arbitrary virtual instants while a scripted client (reference
codec) sends GETs for paths derived from the registered ones, Uri-Path-Abbrev
requests and /.well-known/core queries with RFC 6690 filters.

Oracle: a model (per site: path -> leaf, path -> nested site) replayed up to
the instant the request reached the server; the handlers report who they are,
the Uri-Path they saw and `get_request_uri()`.
"""

import json

from simkit import faults
from simkit import refcodec as rc
from simkit.net import ScriptedEndpoint
from . import common
from .appkit import LinkFormatError, attrs_key, lf_parse, ms_list, ms_sub, multiset

PROPERTY = "C17"
LEVEL = "exploration"
RUNS = {"quick": 2500, "thorough": 60000}
BUDGET = {"quick": 80, "thorough": 3000}
RULE = ("seeded histories: a tree of up to 5 Sites (depth <= 3) with 3-12 leaves (plain, hidden, slow 0.05-0.6 s, "
        "path-capable terminals, WKCResource with and without impl-info link) over a path alphabet with shared "
        "prefixes, empty components and the Uri-Path-Abbrev paths; 10-45 timed operations: add_resource / "
        "remove_resource on any site (also replacing, also leaf and nested site on one path, also exactly at / 1 us "
        "around the arrival of a request), GETs for exact, extended, truncated, empty-component, trailing-slash and "
        "root paths (a fifth of them as PUT with a body sent in one labelled or two Block1 blocks), Uri-Path-Abbrev (valid, unknown, conflicting), /.well-known/core without and with one RFC 6690 "
        "filter (rt, if, ct, href, title; exact and trailing *); ~50 % of runs with loss / duplication. "
        "Non-trivial = a fault fired, or a registration changed while a request was being rendered, or an operation "
        "coincided with an arrival; distinct = distinct (event class, link, fate) sequence hash.")
COMPONENTS_REAL = ["aiocoap.resource (Site, Resource, WKCResource, PathCapable)", "aiocoap.message (get_request_uri, copy)",
                   "aiocoap.numbers.uri_path_abbrev", "aiocoap.util.linkformat", "aiocoap.protocol",
                   "aiocoap.messagemanager", "aiocoap.tokenmanager", "aiocoap.transports.udp6", "aiocoap.options"]
COMPONENTS_STUB = ["UDP socket (SimSocket)", "scripted client (reference codec)", "event loop clock (virtual)",
                   "test leaf resources (report id, Uri-Path seen, get_request_uri())"]
ASSUMPTIONS = ["a request is routed at the virtual instant its first copy reaches the server socket",
               "a nested site that receives exactly one empty remaining component sees its own root resource "
               "(documented in Site's docstring); the literal reading of the statement is accepted as well",
               "nested sites registered at the empty path and leaves registered at [''] inside nested sites are not "
               "generated (unreachable by construction of the documented rule)",
               "when a leaf and a nested site share a path, remove_resource removes the nested site first (as coded; "
               "the documentation calls removal in that layout unsupported)",
               "filters follow RFC 6690 section 4.1: one name=value token, rt/if/ct per space separated value, other "
               "attributes and href as a whole, optional trailing *; the impl-info link is ignored in all comparisons",
               "operations that coincide with an arrival (|dt| <= 1e-9 s) may be seen or not"]
EXPECTED_PROBES = ["routed_leaf", "routed_nested", "routed_404", "pc_terminal", "exact_over_prefix", "longest_of_several",
                   "subsite_root_slash", "abbrev_ok", "abbrev_bad", "wkc_plain", "wkc_filtered", "hidden_present",
                   "changed_while_rendering", "op_arrival_tie", "removed_then_404", "empty_component",
                   "block1_request", "block1_uri_checked", "wkc_several_filters"]

TOL = common.TOL
LAT = faults.LAT
UPA = {0: (".well-known", "core"), 1: (".well-known", "rd"), 2: (".well-known", "edhoc"),
       301: (".well-known", "est", "crts"), 302: (".well-known", "est", "sen")}
URI_PATH_ABBREV = 13
COMPS = ["a", "b", "c", "a", "b", "", "x"]
RTS = ["temp", "hum", "temp x", "core.s", "x"]
IFS = ["core.s", "core.a core.s", "sensor"]
CTS = ["0", "40", "0 41"]
TITLES = ["Room 1", "R", "x"]


# ------------------------------------------------------------------ model (shared by generator and oracle)


def new_state():
    return {"sites": {0: {"leaves": {}, "subs": {}}}}


def copy_state(st):
    return {"sites": {k: {"leaves": dict(v["leaves"]), "subs": dict(v["subs"])} for k, v in st["sites"].items()}}


def apply_op(st, op):
    """Mirror of add_resource / remove_resource.  Returns 'ok', 'keyerror' or 'skip'."""
    site = st["sites"].get(op["site"])
    if site is None:
        return "skip"
    path = tuple(op["path"])
    if op["op"] == "add":
        k = op["kind"]
        if k == "site":
            st["sites"][op["id"]] = {"leaves": {}, "subs": {}}
            site["subs"][path] = ("site", op["id"])
        elif k == "pc":
            site["subs"][path] = ("pc", op)
        else:
            site["leaves"][path] = op
        return "ok"
    if path in site["subs"]:
        del site["subs"][path]
        return "ok"
    if path in site["leaves"]:
        del site["leaves"][path]
        return "ok"
    return "keyerror"


def route(st, sid, path, mode="spec"):
    """-> list of acceptable outcomes, each ('leaf', id, seen_path) or ('404',).
    mode: 'spec' | 'shortest' (first/shortest prefix) | 'prefix-first' (nested site before exact leaf)."""
    site = st["sites"][sid]

    def by_prefix():
        ks = range(len(path) - 1, 0, -1)
        if mode == "shortest":
            ks = range(1, len(path))
        for k in ks:
            pre = path[:k]
            if pre in site["subs"]:
                rem = path[k:]
                rems = [(), ("",)] if rem == ("",) else [rem]
                sub = site["subs"][pre]
                out = []
                for r in rems:
                    if sub[0] == "pc":
                        out.append(("leaf", sub[1]["id"], r))
                    else:
                        for o in route(st, sub[1], r, mode):
                            if o not in out:
                                out.append(o)
                return out
        return None

    if mode == "prefix-first" and path:
        r = by_prefix()
        if r is not None and r != [("404",)]:
            return r
    if path in site["leaves"]:
        return [("leaf", site["leaves"][path]["id"], ())]
    if not path:
        return [("404",)]
    r = by_prefix()
    return r if r is not None else [("404",)]


def listing(st, sid=0, hidden=False):
    """-> [(href, attrs)] of visible (or, hidden=True, only the hidden) leaves with full paths."""
    site = st["sites"][sid]
    out = []
    for path, leaf in site["leaves"].items():
        is_hidden = leaf["kind"] == "hidden"
        if is_hidden != hidden:
            continue
        if leaf["kind"] == "wkc":
            attrs = [("ct", "40")]
        else:
            attrs = [(k, v) for k, v in (leaf.get("desc") or {}).items()]
        out.append(("/" + "/".join(path), attrs))
    for path, sub in site["subs"].items():
        if sub[0] == "site":
            for href, attrs in listing(st, sub[1], hidden):
                out.append(("/" + "/".join(path) + href, attrs))
    return out


def full_paths(st, sid=0, prefix=()):
    """Request paths under which something is reachable (for the generator)."""
    site = st["sites"][sid]
    out = []
    for path in site["leaves"]:
        out.append(prefix + path if (path or not prefix) else prefix + ("",))
    for path, sub in site["subs"].items():
        if sub[0] == "site":
            out += full_paths(st, sub[1], prefix + path)
        else:
            out.append(prefix + path + ("y",))
        out.append(prefix + path)
    return out


def match_filter(link, k, v):
    href, attrs = link
    if v.endswith("*"):
        def m(x):
            return x.startswith(v[:-1])
    else:
        def m(x):
            return x == v
    if k == "href":
        return m(href)
    vals = [val for kk, val in attrs if kk == k and val is not None]
    if k in ("rt", "if", "ct"):
        return any(m(part) for val in vals for part in val.split(" "))
    return any(m(val) for val in vals)


# ------------------------------------------------------------------ generation


def gen_desc(r):
    d = {}
    if r.chance(0.7):
        d["rt"] = r.choice(RTS)
    if r.chance(0.35):
        d["if"] = r.choice(IFS)
    if r.chance(0.35):
        d["ct"] = r.choice(CTS)
    if r.chance(0.15):
        d["title"] = r.choice(TITLES)
    if r.chance(0.1):
        d["obs"] = None
    return d


def gen_path(r, maxlen=3, allow_empty_path=True):
    n = r.choice([1, 1, 1, 2, 2, 3]) if not allow_empty_path or r.chance(0.9) else 0
    return [r.choice(COMPS) for _ in range(min(n, maxlen))]


def gen(r, tier):
    st = new_state()
    depth = {0: 0}
    ops = []
    ids = {"n": 0}
    removed_paths = []

    def new_id():
        ids["n"] += 1
        return ids["n"]

    def add_something(t, force=None):
        sid = r.choice(sorted(st["sites"]))
        site = st["sites"][sid]
        kind = force or r.weighted([(5, "leaf"), (1.2, "hidden"), (1.5, "slow"), (1.3, "site"), (0.8, "pc")])
        if kind == "site" and (depth[sid] >= 2 or len(st["sites"]) >= 5):
            kind = "leaf"
        if kind in ("site", "pc"):
            path = gen_path(r, allow_empty_path=False)
            if r.chance(0.25) and site["leaves"]:
                path = list(r.choice(sorted(site["leaves"]))) or path  # share the path with a leaf
            if r.chance(0.25) and site["subs"]:
                other = list(r.choice(sorted(site["subs"])))
                path = other + [r.choice(COMPS)] if r.chance(0.6) or len(other) < 2 else other[:-1]
            if r.chance(0.15):
                path = [".well-known"] if r.chance(0.5) else [".well-known", "est"]
            if not path:
                path = ["a"]
        else:
            path = gen_path(r)
            if r.chance(0.3) and site["subs"]:
                sp = list(r.choice(sorted(site["subs"])))
                path = r.choice([sp, sp + [r.choice(COMPS)], sp + ["", r.choice(COMPS)], sp[:-1] or sp])
            if r.chance(0.12):
                tail = r.choice([("rd",), ("est", "crts"), ("edhoc",), ("est", "sen")])
                if (".well-known",) in site["subs"] or sid != 0:
                    path = list(tail)
                else:
                    path = [".well-known"] + list(tail)
            if sid != 0 and path == [""]:
                path = ["", "a"]
        op = {"t": t, "op": "add", "site": sid, "path": path, "kind": kind, "id": new_id()}
        if kind in ("leaf", "slow", "pc", "hidden"):
            op["desc"] = gen_desc(r)
            if r.chance(0.3):
                # the resource describes itself the way the library's own Resource base class offers: attributes `rt`,
                # `if_` and `ct` (a content format number where it is a single one -- 0 is text/plain) on the object
                op["desc"] = {k: v for k, v in op["desc"].items() if k in ("rt", "if", "ct")}
                op["wk_attrs"] = True
        if kind == "slow":
            op["delay"] = r.choice([0.05, 0.2, 0.6])
        if kind == "pc" and r.chance(0.3):
            op["delay"] = r.choice([0.05, 0.3])
        if kind == "site":
            depth[op["id"]] = depth[sid] + 1
        # a path that holds both a leaf and a nested site is never removed later (documented as unsupported)
        apply_op(st, op)
        ops.append(op)

    def remove_something(t):
        cands = []
        for sid in sorted(st["sites"]):
            site = st["sites"][sid]
            for p in sorted(site["leaves"]):
                if p not in site["subs"]:
                    cands.append((sid, p))
            for p in sorted(site["subs"]):
                if p not in site["leaves"]:
                    cands.append((sid, p))
        if not cands or r.chance(0.08):
            op = {"t": t, "op": "rm", "site": r.choice(sorted(st["sites"])), "path": gen_path(r)}
            site = st["sites"][op["site"]]
            if tuple(op["path"]) in site["leaves"] and tuple(op["path"]) in site["subs"]:
                return
        else:
            sid, p = r.choice(cands)
            op = {"t": t, "op": "rm", "site": sid, "path": list(p)}
            removed_paths.append(p)
        apply_op(st, op)
        ops.append(op)

    def request(t):
        x = r.random()
        q = []
        op = {"t": t, "op": "req"}
        if x < 0.22:
            path = [".well-known", "core"]
            y = r.random()
            links = listing(st)
            if y < 0.35 or not links:
                pass
            else:
                href, attrs = r.choice(links)
                z = r.random()
                if z < 0.55:
                    k = r.choice(["rt", "rt", "if", "ct"])
                    vals = [v for kk, v in attrs if kk == k and v]
                    tok = r.choice(vals[0].split(" ")) if vals else r.choice(["temp", "core.s", "40", "nope"])
                    w = r.random()
                    if w < 0.55:
                        q = ["%s=%s" % (k, tok)]
                    elif w < 0.85:
                        q = ["%s=%s*" % (k, tok[: r.randint(1, max(1, len(tok)))])]
                    elif w < 0.93:
                        q = ["%s=*" % k]
                    else:
                        q = ["%s=%s" % (k, vals[0] if vals else "nope")]
                elif z < 0.85:
                    w = r.random()
                    if w < 0.4:
                        q = ["href=" + href]
                    elif w < 0.8:
                        q = ["href=" + href[: r.randint(1, max(1, len(href)))] + "*"]
                    else:
                        q = ["href=" + r.choice(["/nope", "/*", "*", "/a/b/c/d"])]
                else:
                    q = [r.choice(["title=Room 1", "title=Room*", "title=R", "title=R*", "rel=impl-info", "obs=*",
                                   "zz=1", "obs"])]
            if q and links and r.chance(0.25):
                # a second search token taken from the same link (so that something matches both)
                href2, attrs2 = href, attrs
                cands = [(kk, vv) for kk, vv in attrs2 if vv and kk in ("rt", "if", "ct", "title")] + [("href", href2)]
                kk, vv = r.choice(cands)
                tok2 = r.choice(vv.split(" ")) if kk in ("rt", "if", "ct") else vv
                second = "%s=%s" % (kk, tok2 if r.chance(0.6) else tok2[: r.randint(1, max(1, len(tok2)))] + "*")
                q = [q[0], second] if r.chance(0.5) else [second, q[0]]
            if r.chance(0.12):
                op["abbrev"] = 0
                path = []
            if r.chance(0.45):
                # the client fetches the listing block by block (small blocks, so that any listing takes several), with
                # a pause between the blocks in which registrations may change: what it assembles is ONE listing
                op["b2"] = {"szx": r.choice([0, 0, 1, 2, 3]), "gap": r.choice([0.0, 0.02, 0.3, 1.0, 3.0])}
        elif x < 0.3:
            op["abbrev"] = r.choice([1, 2, 301, 302, 1, 301, 7, 4711])
            path = []
            if r.chance(0.15):
                path = [r.choice(COMPS)]
        else:
            fps = full_paths(st)
            base = list(r.choice(fps)) if fps and r.chance(0.92) else gen_path(r)
            if removed_paths and r.chance(0.12):
                base = list(r.choice(removed_paths))
            y = r.random()
            if y < 0.45:
                path = base
            elif y < 0.6:
                path = base + [r.choice(COMPS)]
            elif y < 0.7:
                path = base[:-1]
            elif y < 0.78:
                i = r.randint(0, len(base))
                path = base[:i] + [""] + base[i:]
            elif y < 0.86:
                path = base + [""]
            elif y < 0.9:
                path = []
            elif y < 0.95 and base:
                path = base[:-1] + [r.choice(COMPS)]
            else:
                path = base + [r.choice(COMPS), r.choice(COMPS)]
            if r.chance(0.3):
                q = ["tag=%d" % len(ops)]
            if r.chance(0.2):
                # the request carries a body the server assembles from Block1 blocks (1 = a single block that is
                # labelled with Block1, 2 = two blocks): routing and URI reconstruction must not depend on that
                op["b1"] = r.choice([1, 2])
                q = ["tag=%d" % len(ops)]  # (simultaneous transfers to one resource differ in their cache key)
        op["path"] = path[:6]
        op["q"] = q
        ops.append(op)

    # initial layout at t = 0
    for _ in range(r.randint(3, 9)):
        add_something(0.0)
    if r.chance(0.85):
        op = {"t": 0.0, "op": "add", "site": 0, "path": [".well-known", "core"], "kind": "wkc", "id": new_id(),
              "impl_info": r.chance(0.6)}
        apply_op(st, op)
        ops.append(op)
    t = 0.1
    for _ in range(r.randint(10, 45)):
        t = round(t + r.choice([0.0, 0.001, 0.004, 0.005, 0.006, 0.05, 0.1, 0.25, 0.7]), 6)
        x = r.random()
        if x < 0.62:
            request(t)
            if r.chance(0.25):
                # a change placed around the arrival of that request
                tt = round(t + LAT + r.choice([-1e-6, 0.0, 1e-6, 0.0]), 6)
                if r.chance(0.5):
                    add_something(tt)
                else:
                    remove_something(tt)
        elif x < 0.82:
            add_something(t)
        else:
            remove_something(t)
    ops.sort(key=lambda o: o["t"])
    net = faults.swarm(r, kinds=("drop", "dup"), fault_free=0.5, heavy=0.05)
    return {"ops": ops, "net": net}


def _add(t, site, path, kind="leaf", id=1, **kw):
    d = {"t": t, "op": "add", "site": site, "path": path, "kind": kind, "id": id}
    if kind not in ("site", "wkc"):
        d["desc"] = kw.pop("desc", {"rt": "temp"})
    d.update(kw)
    return d


def _req(t, path, q=(), **kw):
    d = {"t": t, "op": "req", "path": path, "q": list(q)}
    d.update(kw)
    return d


def corpus():
    out = []
    # exact leaf beats nested site; longest of several prefixes; sub-site root; removal
    out.append({"net": {}, "ops": [
        _add(0, 0, ["a"], "site", 10), _add(0, 0, ["a", "b"], "site", 11), _add(0, 0, ["a", "b", "c"], id=1),
        _add(0, 10, ["b", "c"], id=2), _add(0, 11, ["c"], id=3), _add(0, 11, [], id=4), _add(0, 10, ["x"], id=5),
        _add(0, 0, [], id=6), _add(0, 0, [".well-known", "core"], "wkc", 7, impl_info=True),
        _add(0, 11, ["h"], "hidden", 8), _add(0, 10, ["p"], "pc", 9),
        _req(0.1, ["a", "b", "c"]), _req(0.2, ["a", "b", "x"]), _req(0.3, ["a", "b", ""]), _req(0.4, ["a", "b"]),
        _req(0.5, ["a", "x"]), _req(0.6, []), _req(0.7, ["a"]), _req(0.8, ["a", "p", "q", ""], ["k=v"]),
        _req(0.9, ["a", "p", ""]), _req(1.0, ["a", "b", "h"]), _req(1.1, [".well-known", "core"]),
        _req(1.2, [".well-known", "core"], ["rt=temp"]), _req(1.3, [".well-known", "core"], ["href=/a/b/*"]),
        _req(1.35, [], abbrev=0),
        {"t": 1.4, "op": "rm", "site": 0, "path": ["a", "b", "c"]}, _req(1.5, ["a", "b", "c"]),
        {"t": 1.6, "op": "rm", "site": 0, "path": ["a", "b"]}, _req(1.7, ["a", "b", "c"]),
        _req(1.8, [".well-known", "core"]),
        {"t": 1.9, "op": "rm", "site": 10, "path": ["b", "c"]}, _req(2.0, ["a", "b", "c"]),
        _req(2.1, [".well-known", "core"], ["rt=*"])]})
    # changes while a slow handler is rendering, and exactly at / around an arrival
    for off in (-1e-6, 0.0, 1e-6):
        out.append({"net": {}, "ops": [
            _add(0, 0, ["s"], "slow", 1, delay=0.6), _add(0, 0, ["q"], id=2),
            _add(0, 0, [".well-known", "core"], "wkc", 3, impl_info=False),
            _req(0.1, ["s"]), {"t": 0.2, "op": "rm", "site": 0, "path": ["s"]}, _req(0.3, ["s"]),
            _add(0.4, 0, ["s"], id=4), _req(0.5, ["s"]),
            _req(1.0, ["q"]), {"t": round(1.0 + LAT + off, 6), "op": "rm", "site": 0, "path": ["q"]},
            _req(2.0, ["n"]), _add(round(2.0 + LAT + off, 6), 0, ["n"], id=5),
            _req(3.0, [".well-known", "core"]), _add(round(3.0 + LAT + off, 6), 0, ["m"], id=6)]})
    # Uri-Path-Abbrev through nested sites
    out.append({"net": {}, "ops": [
        _add(0, 0, [".well-known"], "site", 10), _add(0, 10, ["est"], "site", 11), _add(0, 11, ["crts"], id=1),
        _add(0, 10, ["rd"], id=2), _add(0, 0, [".well-known", "core"], "wkc", 3, impl_info=True),
        _add(0, 10, ["edhoc"], "slow", 4, delay=0.2),
        _req(0.1, [], abbrev=301), _req(0.2, [], abbrev=1), _req(0.3, [], abbrev=2), _req(0.4, [], abbrev=0),
        _req(0.5, [], abbrev=302), _req(0.6, [], abbrev=9999), _req(0.7, ["a"], abbrev=1),
        _req(0.8, [".well-known", "est", "crts"], ["x=1"]), _req(0.9, [], ["rt=temp"], abbrev=0)]})
    # filters
    out.append({"net": {}, "ops": [
        _add(0, 0, ["t"], id=1, desc={"rt": "temp x", "if": "core.s", "ct": "0 41", "title": "Room 1"}),
        _add(0, 0, ["h"], id=2, desc={"rt": "hum"}), _add(0, 0, ["n"], id=3, desc={}),
        _add(0, 0, ["o"], id=4, desc={"obs": None, "rt": "core.s"}), _add(0, 0, ["hid"], "hidden", 5),
        _add(0, 0, ["sub"], "site", 10), _add(0, 10, ["t"], id=6, desc={"rt": "temp"}),
        _add(0, 0, [".well-known", "core"], "wkc", 7, impl_info=True)] + [
        _req(0.1 + 0.05 * i, [".well-known", "core"], [f]) for i, f in enumerate(
            ["rt=temp", "rt=x", "rt=temp x", "rt=te*", "rt=t*", "if=core.s", "ct=41", "ct=4*", "href=/t", "href=/t*",
             "href=/sub/*", "href=/sub/t", "rt=nope", "title=Room 1", "title=Room*", "title=R", "rt=*", "rt=",
             "obs=*", "zz=1", "rel=impl-info", "obs"])]})
    return out


def shrink(scn):
    if any((scn.get("net") or {}).get(k) for k in ("p_drop", "p_dup")):
        c = dict(scn)
        c["net"] = {}
        yield c
    for i, o in enumerate(scn["ops"]):
        if o.get("desc"):
            for k in list(o["desc"]):
                c = dict(scn)
                c["ops"] = scn["ops"][:i] + [dict(o, desc={a: b for a, b in o["desc"].items() if a != k})] + \
                    scn["ops"][i + 1:]
                yield c
        if o.get("delay"):
            c = dict(scn)
            c["ops"] = scn["ops"][:i] + [{k: v for k, v in o.items() if k != "delay"}] + scn["ops"][i + 1:]
            yield c
        if o["op"] == "req" and len(o.get("path") or []) > 0 and o.get("q"):
            c = dict(scn)
            c["ops"] = scn["ops"][:i] + [dict(o, q=[])] + scn["ops"][i + 1:]
            yield c


# ------------------------------------------------------------------ execution


class Client(ScriptedEndpoint):
    def __init__(self, sim, ip, port):
        super().__init__(sim, ip, port)
        self.responses = {}

    def handle(self, msg, src, data):
        if msg is None:
            return
        if msg["code"] >= 64:
            self.responses.setdefault(msg["token"], []).append((self.loop.now, msg))
            nxt = getattr(self, "continuations", {}).get(msg["token"])
            if msg["code"] == rc.code(2, 31) and nxt is not None and not nxt[0]:
                nxt[0] = True
                nxt[1]()
            fol = getattr(self, "b2_follow", {}).get(msg["token"])
            if fol is not None and msg["code"] == rc.CONTENT:
                b2 = rc.opt1(msg, rc.BLOCK2)
                num, more, szx = rc.block_value(b2) if b2 is not None else (0, False, 6)
                if num == fol["next"]:
                    fol["body"] += msg["payload"]
                    fol["next"] = num + 1
                    if more:
                        self.loop.after(fol["gap"], fol["ask"], num + 1, szx)
                    else:
                        fol["complete"] = True
            elif fol is not None and not fol.get("complete"):
                fol["failed"] = msg["code"]
            if msg["type"] == rc.CON:
                self.send(src, msg={"type": rc.ACK, "code": 0, "mid": msg["mid"], "token": b"", "options": [],
                                    "payload": b""})


def execute(sim, scn):
    import asyncio

    import aiocoap.resource as resource
    from aiocoap import Message

    loop = sim.loop
    sim.net.fate_gen = faults.fate_gen(scn.get("net", {}))
    ops = [o for o in scn["ops"]]
    ops.sort(key=lambda o: o["t"])  # stable: simultaneous operations keep their order
    server_addr = (common.SERVER_IP, 5683)

    class Leaf(resource.Resource):
        def __init__(self, spec):
            super().__init__()
            self.spec = spec
            if spec.get("wk_attrs"):
                d = spec.get("desc") or {}
                if "rt" in d:
                    self.rt = d["rt"]
                if "if" in d:
                    self.if_ = d["if"]
                if "ct" in d:
                    self.ct = int(d["ct"]) if d["ct"].isdigit() else d["ct"]
                sim.probe("description_from_attributes")

        def get_link_description(self):
            if self.spec["kind"] == "hidden":
                return None
            if self.spec.get("wk_attrs"):
                return super().get_link_description()
            return dict(self.spec.get("desc") or {})

        async def render_get(self, request):
            try:
                uri = request.get_request_uri()
            except Exception as e:  # reported through the payload, judged by the oracle
                uri = "EXC:%s" % type(e).__name__
            info = {"id": self.spec["id"], "path": list(request.opt.uri_path), "uri": uri,
                    "query": list(request.opt.uri_query)}
            sim.log("app", "render", self.spec["id"], info["path"])
            if self.spec.get("delay"):
                await asyncio.sleep(self.spec["delay"])
            return Message(payload=json.dumps(info).encode("utf-8"))

        async def render_put(self, request):
            from aiocoap.numbers.codes import Code

            resp = await self.render_get(request)
            resp.code = Code.CONTENT
            info = json.loads(resp.payload)
            info["body"] = len(request.payload)
            resp.payload = json.dumps(info).encode("utf-8")
            return resp

    class PathLeaf(Leaf, resource.PathCapable):
        pass

    real = {0: resource.Site()}
    mutations = []  # (t, index in ops) of add/rm operations, in execution order
    outcome = {}  # index in ops -> 'ok' | 'keyerror'
    rendering = []  # (t_start, t_end) of slow handlers, from the model

    def do_mut(i):
        op = ops[i]
        site = real.get(op["site"])
        if site is None:
            return
        mutations.append((loop.now, i))
        sim.log("app", "mut", i, op["op"], op["site"], "/".join(op["path"]))
        if op["op"] == "add":
            k = op["kind"]
            if k == "site":
                obj = resource.Site()
                real[op["id"]] = obj
            elif k == "pc":
                obj = PathLeaf(op)
            elif k == "wkc":
                obj = resource.WKCResource(real[0].get_resources_as_linkheader) if op.get("impl_info", True) else \
                    resource.WKCResource(real[0].get_resources_as_linkheader, impl_info=None)
            else:
                obj = Leaf(op)
            site.add_resource(op["path"], obj)
            outcome[i] = "ok"
        else:
            try:
                site.remove_resource(op["path"])
                outcome[i] = "ok"
            except KeyError:
                outcome[i] = "keyerror"

    # operations at t <= 0 shape the site before the server exists
    for i, op in enumerate(ops):
        if op["op"] in ("add", "rm") and op["t"] <= 0:
            do_mut(i)

    async def setup():
        return await sim.server(real[0], common.SERVER_IP)

    loop.run_until_complete(setup())
    client = Client(sim, common.PEER_IPS[0], 40100)
    arrivals = {}  # token -> t_srv
    block_arrivals = {}  # token -> {block number: t_srv}
    client.continuations = {}
    client.b2_follow = {}
    b2_clients = {}

    def on_deliver(entry, copy, data):
        m = entry["msg"]
        if entry["dst"] == server_addr and m is not None and 1 <= m["code"] <= 31 and entry["deliveries"][-1][2]:
            arrivals.setdefault(m["token"], loop.now)
            b1 = rc.opt1(m, rc.BLOCK1)
            if b1 is not None:
                block_arrivals.setdefault(m["token"], {}).setdefault(rc.block_value(b1)[0], loop.now)

    sim.net.deliver_taps.append(on_deliver)

    def send_req(i):
        op = ops[i]
        token = bytes([0xC0 | (i >> 8), i & 0xFF])
        options = [(rc.URI_PATH, p.encode("utf-8")) for p in op.get("path") or []]
        if op.get("abbrev") is not None:
            options.append((URI_PATH_ABBREV, rc.uint_bytes(op["abbrev"])))
        options += [(rc.URI_QUERY, s.encode("utf-8")) for s in op.get("q") or []]
        if op.get("b1"):
            sim.probe("block1_request")
            body = bytes((i + k) & 0xFF for k in range(21))

            def block(num, more, szx, payload):
                opts = sorted(options + [(rc.BLOCK1, rc.block_bytes(num, more, szx))], key=lambda o: o[0])
                client.send(server_addr, msg={"type": rc.CON, "code": rc.PUT, "mid": client.next_mid(), "token": token,
                                              "options": opts, "payload": payload})
            if op["b1"] == 1:
                block(0, False, 6, body)
            else:
                client.continuations[token] = [False, lambda: block(1, False, 0, body[16:])]
                block(0, True, 0, body[:16])
            return
        if op.get("b2"):
            sim.probe("listing_fetched_blockwise")

            # every block-wise fetch comes from an endpoint of its own (one endpoint running two transfers of the same
            # resource at once could not tell their blocks apart: RFC 7959 leaves that to the client)
            cl = Client(sim, common.PEER_IPS[0], 40200 + i)
            cl.b2_follow = {}
            b2_clients[i] = cl

            def ask(num, szx, options=options, token=token, cl=cl):
                opts = sorted(options + [(rc.BLOCK2, rc.block_bytes(num, False, szx))], key=lambda o: o[0])
                cl.send(server_addr, msg={"type": rc.CON, "code": rc.GET, "mid": cl.next_mid(), "token": token,
                                          "options": opts, "payload": b""})
            cl.b2_follow[token] = {"next": 0, "body": b"", "gap": op["b2"]["gap"], "ask": ask}
            ask(0, op["b2"]["szx"])
            return
        client.send(server_addr, msg={"type": rc.CON, "code": rc.GET, "mid": client.next_mid(), "token": token,
                                      "options": options, "payload": b""})

    for i, op in enumerate(ops):
        if op["op"] == "req":
            loop.at(max(op["t"], 0.001), send_req, i)
        elif op["t"] > 0:
            loop.at(op["t"], do_mut, i)
    sim.run(horizon=(ops[-1]["t"] if ops else 0) + 120.0)

    # ---------------------------------------------------------------- oracle
    # model states after each executed mutation, in execution order
    states = [new_state()]
    times = []
    for t, i in mutations:
        st = copy_state(states[-1])
        res = apply_op(st, ops[i])
        if res != "skip" and outcome.get(i) != res:
            sim.violation("C17/remove-resource-outcome" if ops[i]["op"] == "rm" else "C17/add-resource-outcome",
                          {"op_index": i, "op": clean(ops[i]), "model": res, "real": outcome.get(i)})
            return
        states.append(st)
        times.append(t)

    def states_at(t):
        """indices into `states` that may be in force at instant t (more than one at an exact tie)."""
        lo = sum(1 for x in times if x < t - TOL)
        hi = sum(1 for x in times if x <= t + TOL)
        return list(range(lo, hi + 1))

    def expand(op):
        path = tuple(op.get("path") or ())
        ab = op.get("abbrev")
        if ab is None:
            return path, "plain"
        if path or ab not in UPA:
            return None, "abbrev-bad"
        return UPA[ab], "abbrev"

    host = "coap://[%s]" % common.SERVER_IP

    def expected_uri(path, q):
        p = "".join("/" + c for c in path) or "/"
        return host + p + ("?" + "&".join(q) if q else "")

    def same_uri(got, want):
        """Equal up to percent-encoding of the query (path components come from an unreserved alphabet)."""
        from urllib.parse import unquote, urlsplit

        if not isinstance(got, str):
            return False
        try:
            g, w = urlsplit(got), urlsplit(want)
        except ValueError:
            return False
        wq = want.partition("?")[2]
        return (g.scheme, g.netloc, g.path, unquote(g.query), g.fragment) == (w.scheme, w.netloc, w.path, wq, "")

    slow_ids = {o["id"]: o["delay"] for o in ops if o["op"] == "add" and o.get("delay")}
    for i, op in enumerate(ops):
        if op["op"] != "req":
            continue
        token = bytes([0xC0 | (i >> 8), i & 0xFF])
        t_srv = arrivals.get(token)
        resps = b2_clients.get(i, client).responses.get(token)
        if t_srv is None or not resps:
            continue
        resp = resps[0][1]
        fol = b2_clients[i].b2_follow.get(token) if i in b2_clients else None
        if fol is not None and resp["code"] == rc.CONTENT:
            if not fol.get("complete"):
                sim.probe("wkc_blockwise_incomplete")
                continue  # (lost blocks; a transfer refused half-way is not about routing or the listing's content)
            resp = dict(resp, payload=fol["body"])
        if op.get("b1") == 2:
            finals = [(t, m) for (t, m) in resps if m["code"] != rc.code(2, 31)]
            if not finals:
                continue  # the transfer did not get to its end (loss)
            resp = finals[0][1]
            if finals[0] is not resps[0]:
                t_first = t_srv
                t_srv = block_arrivals.get(token, {}).get(1)
                if t_srv is None:
                    continue
                if any(t_first - TOL <= x <= t_srv + TOL for x in times):
                    continue  # the site changed between the two blocks: which resource holds which block is open
        code = (resp["code"] >> 5, resp["code"] & 31)
        ident = {"op_index": i, "op": clean(op), "t_srv": t_srv, "answered": "%d.%02d" % code}
        path, how = expand(op)
        if how == "abbrev-bad":
            sim.probe("abbrev_bad")
            if code[0] == 2:
                sim.violation("C17/bad-abbrev-routed", ident)
                return
            if code[0] == 5:
                sim.anomaly("C17/bad-abbrev-5xx", str(clean(op)))
            continue
        idx = states_at(t_srv)
        if len(idx) > 1:
            sim.probe("op_arrival_tie")
            sim.nontrivial = True
        acceptable = []
        for n in idx:
            for o in route(states[n], 0, path):
                if o not in acceptable:
                    acceptable.append(o)
        # what was observed
        observed = None
        info = None
        wkc_ids = {o["id"] for o in ops if o["op"] == "add" and o["kind"] == "wkc"}
        if code == (4, 4):
            observed = ("404",)
        elif code == (2, 5):
            cf = rc.opt1(resp, rc.CONTENT_FORMAT)
            if cf is not None and rc.uint_value(cf) == 40:
                observed = ("wkc",)
            else:
                try:
                    info = json.loads(resp["payload"].decode("utf-8"))
                    observed = ("leaf", info["id"], tuple(info["path"]))
                except (ValueError, KeyError, UnicodeDecodeError):
                    observed = ("other",)
        else:
            observed = ("code", code)
        if op.get("b1") and code == (4, 5):
            continue  # a resource without PUT (the discovery resource): not about routing
        exp_leaf_ids = [o[1] for o in acceptable if o[0] == "leaf"]
        is_wkc = observed == ("wkc",) and any(x in wkc_ids for x in exp_leaf_ids)
        ok = observed in acceptable or is_wkc
        if not ok and observed[0] == "leaf" and any(o[0] == "leaf" and o[1] == observed[1] for o in acceptable):
            sim.violation("C17/handler-saw-wrong-path", dict(ident, saw=list(observed[2]),
                                                             expected=[list(o[2]) for o in acceptable if o[0] == "leaf"]))
            return
        if not ok:
            spec = states[idx[0]]
            kind = None
            obs_cmp = observed if observed[0] != "wkc" else None
            for mode, k in (("shortest", "C17/not-longest-prefix"), ("prefix-first", "C17/exact-match-not-preferred")):
                alt = route(spec, 0, path, mode)
                if obs_cmp is not None and obs_cmp in alt and alt != route(spec, 0, path):
                    kind = k
            if kind is None:
                for n in range(idx[0] - 1, max(-1, idx[0] - 6), -1):
                    if obs_cmp is not None and obs_cmp in route(states[n], 0, path):
                        kind = "C17/change-not-in-effect"
                        break
            if kind is None:
                if observed == ("404",):
                    kind = "C17/registered-path-not-found"
                elif acceptable == [("404",)] and observed[0] in ("leaf", "wkc"):
                    kind = "C17/unregistered-path-answered"
                elif observed[0] in ("leaf", "wkc"):
                    kind = "C17/routed-to-wrong-resource"
                elif observed[0] == "code" and observed[1][0] == 5:
                    kind = "C17/server-error"
                    if any(x in wkc_ids for x in exp_leaf_ids) and any("=" in s for s in (op.get("q") or [])):
                        kind = "C17/filter-server-error"
                else:
                    kind = "C17/unexpected-answer"
            sim.violation(kind, dict(ident, expected=[list(o[:2]) + ([list(o[2])] if len(o) > 2 else []) for o in acceptable],
                                     observed=[observed[0]] + [list(x) if isinstance(x, tuple) else x for x in observed[1:]],
                                     payload=resp["payload"][:200].decode("utf-8", "replace")))
            return
        # probes on what kind of routing this was
        if observed == ("404",):
            sim.probe("routed_404")
            if any(route(states[n], 0, path) != [("404",)] for n in range(max(0, idx[0] - 3), idx[0])):
                sim.probe("removed_then_404")
        elif observed[0] == "leaf":
            st0 = states[idx[-1]]
            if path in st0["sites"][0]["leaves"]:
                sim.probe("routed_leaf")
                if any(path[:k] in st0["sites"][0]["subs"] for k in range(1, len(path))):
                    sim.probe("exact_over_prefix")
            else:
                sim.probe("routed_nested")
                if sum(1 for k in range(1, len(path)) if path[:k] in st0["sites"][0]["subs"]) > 1:
                    sim.probe("longest_of_several")
            if "" in path:
                sim.probe("empty_component")
            if path and path[-1] == "" and observed[2] == ():
                sim.probe("subsite_root_slash")
            if any(o["op"] == "add" and o["kind"] == "pc" and o["id"] == observed[1] for o in ops):
                sim.probe("pc_terminal")
            if how == "abbrev":
                sim.probe("abbrev_ok")
            d = slow_ids.get(observed[1])
            if d and any(t_srv < t < t_srv + d for t in times):
                sim.probe("changed_while_rendering")
                sim.nontrivial = True
            # the original request URI
            want = expected_uri(path, op.get("q") or [])
            if not same_uri(info.get("uri"), want):
                sim.violation("C17/original-uri-not-reconstructed", dict(ident, got=info.get("uri"), expected=want,
                                                                         saw=list(observed[2])))
                return
            if list(info.get("query") or []) != list(op.get("q") or []):
                sim.violation("C17/handler-saw-wrong-query", dict(ident, got=info.get("query")))
                return
            if op.get("b1"):
                sim.probe("block1_uri_checked")
                if info.get("body") != 21:
                    sim.violation("C17/handler-saw-wrong-body", dict(ident, body=info.get("body")))
                    return
        if not is_wkc:
            continue
        if how == "abbrev":
            sim.probe("abbrev_ok")
        # ---- /.well-known/core
        b2 = rc.opt1(resp, rc.BLOCK2)
        if fol is not None:
            if fol["next"] > 1:
                sim.probe("wkc_assembled_from_blocks")
                if any(t_srv + TOL < x for x in times if x < resps[-1][0] - TOL):
                    sim.probe("registration_changed_between_blocks")
                    sim.nontrivial = True
        elif b2 is not None and rc.block_value(b2)[1]:
            sim.probe("wkc_blockwise_skipped")
            continue
        try:
            got_links = lf_parse(resp["payload"].decode("utf-8"))
        except (LinkFormatError, UnicodeDecodeError) as e:
            sim.violation("C17/wkc-unparsable", dict(ident, why=str(e), payload=resp["payload"].hex()))
            return
        got_links = [(h, a) for h, a in got_links if ("rel", "impl-info") not in a]
        filt = None
        q = op.get("q") or []
        fq = [s for s in q if "=" in s]
        if len(fq) == 1:
            k, _, v = fq[0].partition("=")
            filt = (k, v)
        elif len(fq) > 1:
            # more than one search token: RFC 6690 does not say how they combine.  Whatever the combination (all of
            # them, any of them, only one of them), a link matching every token is listed and a link matching none is
            # not -- that much is checked
            sim.probe("wkc_several_filters")
            toks = [tuple(x.partition("=")[::2]) for x in fq]
            ok_some_state = False
            detail = None
            for n in idx:
                vis = listing(states[n])
                allm = multiset((l[0], attrs_key(l[1])) for l in vis if all(match_filter(l, k, v) for k, v in toks))
                anym = multiset((l[0], attrs_key(l[1])) for l in vis if any(match_filter(l, k, v) for k, v in toks))
                gotm = multiset((l[0], attrs_key(l[1])) for l in got_links)
                miss, extra = ms_list(ms_sub(allm, gotm)), ms_list(ms_sub(gotm, anym))
                if not miss and not extra:
                    ok_some_state = True
                    break
                detail = dict(ident, missing=[[m[0], list(m[1])] for m in miss][:4], extra=[[e[0], list(e[1])] for e in extra][:4])
            if not ok_some_state:
                if any(vv is None for l in listing(states[idx[0]]) for kk, vv in l[1] if kk in [t[0] for t in toks]):
                    continue  # valueless attributes under a filter: covered by the single-token case
                sim.violation("C17/several-filters-wrong-subset", detail)
                return
            continue
        sim.probe("wkc_filtered" if filt else "wkc_plain")

        def key(l):
            return (l[0], attrs_key(l[1]))

        got = multiset(key(l) for l in got_links)
        verdict = None
        verdicts = []
        for n in idx:
            vis = listing(states[n])
            if listing(states[n], hidden=True):
                sim.probe("hidden_present")
            want_links = [l for l in vis if filt is None or match_filter(l, filt[0], filt[1])]
            want = multiset(key(l) for l in want_links)
            if want == got:
                verdicts = []
                break
            missing, extra = ms_list(ms_sub(want, got)), ms_list(ms_sub(got, want))
            hid = multiset(key(l) for l in listing(states[n], hidden=True))
            unf = multiset(key(l) for l in vis)
            kind = "C17/wkc-wrong-listing"
            if extra and any(e[0] in [h for h, _ in hid] for e in extra):
                kind = "C17/wkc-lists-hidden-resource"
            elif not (filt is not None and not ms_sub(got, unf)) and \
                    any(multiset(key(l) for l in listing(states[m]) if filt is None or match_filter(l, filt[0], filt[1]))
                        == got for m in range(max(0, n - 5), n)):
                kind = "C17/change-not-in-effect"
            elif filt is not None and not ms_sub(got, unf):
                # entries are genuine, the selection is wrong
                k, v = filt
                has_none = any(kk == k and vv is None for _, a in vis for kk, vv in a)
                if k in ("rt", "if", "ct", "href"):
                    kind = "C17/filter-wrong-subset"
                    if extra and all(not any(kk == k for kk, _ in dict_attrs(e)) for e in extra) and k != "href":
                        kind = "C17/filter-matches-absent-attribute"
                else:
                    kind = "C17/filter-other-attribute-wrong-subset"
                if has_none:
                    kind = "C17/filter-valueless-attribute"
            elif missing and not extra:
                kind = "C17/wkc-misses-resource"
            elif extra and not missing:
                kind = "C17/wkc-lists-unregistered"
            verdicts.append((len(missing) + len(extra), len(verdicts), kind,
                             dict(ident, missing=[[m[0], list(m[1])] for m in missing],
                                  extra=[[e[0], list(e[1])] for e in extra],
                                  payload=resp["payload"].decode("utf-8", "replace")[:600])))
        if verdicts:
            verdict = min(verdicts)[2:]
        if verdict is not None:
            sim.violation(verdict[0], verdict[1])
            return
    # 5.xx answers to well-formed filter queries
    for (t, m, en, es) in sim.loop_exceptions():
        sim.anomaly("loop-exception", "%s %s %s" % (m, en, es))
    for (t, lvl, name, msg) in sim.loglines:
        if lvl in ("ERROR", "CRITICAL"):
            sim.anomaly("server-log-error", msg)


def dict_attrs(entry):
    """entry = (href, attrs_key) -> [(name, value-marker)]"""
    return list(entry[1])


def clean(op):
    return {k: v for k, v in op.items() if not k.startswith("_")}
