"""C05 -- block-wise client transfers deliver both bodies intact or fail loudly."""

from simkit import refcodec as rc
from simkit import faults
from simkit.net import ScriptedEndpoint, fmt
from . import common
from .common import TOL

PROPERTY = "C05"
LEVEL = "exploration"
RUNS = {"quick": 2000, "thorough": 30000}
RULE = ("seeded scenarios: a real client runs 1-3 block-wise transfers (PUT/POST/FETCH/GET) against an independent RFC 7959 "
        "reference server: request and response body lengths around every block boundary (0, 1, 15-17, 31-33, 1023-1025, "
        "1124/1125, multi-kB), server SZX 0-6 with optional mid-transfer reduction, client maximum block size 0-6, ETag "
        "present/absent, loss/dup/delay of individual block exchanges; misbehaving-server variants (wrong Block1 number, "
        "more-flag or 2.31 on the final acknowledgement, short non-final Block2 payload, Block2 number skipping, ETag "
        "changing between blocks, first Block2 number not 0, non-block answer mid-transfer). Systematic: body length x "
        "server SZX x client SZX grid, fault-free. Non-trivial = more than one block in either direction, a fault, or a "
        "misbehaving variant; distinct = distinct event-sequence hash.")
COMPONENTS_REAL = ["aiocoap.protocol.BlockwiseRequest", "aiocoap.message (block helpers)", "aiocoap.optiontypes.BlockOption",
                   "aiocoap.protocol.Request", "aiocoap.tokenmanager", "aiocoap.messagemanager", "aiocoap.transports.udp6"]
COMPONENTS_STUB = ["UDP socket (SimSocket)", "RefServer7959 (independent block-wise server on the reference codec)",
                   "event loop clock (virtual)"]
ASSUMPTIONS = ["following the server's smaller block size in later Block1 requests is a SHOULD and is counted, not gated",
               "a representation change without ETag change is undetectable and not generated",
               "a non-block answer in the middle of a Block2 transfer may be accepted as the complete representation"]
EXPECTED_PROBES = ["misbehave_b2_earlier_block", "block1_multi", "block2_multi", "szx_reduced_block1", "szx_reduced_block2", "misbehave_b1_wrong_num",
                   "misbehave_b1_more_on_final", "misbehave_b2_short", "misbehave_b2_skip", "misbehave_b2_etag_change",
                   "misbehave_b2_etag_presence_change", "block1_acked_without_more_bit", "block1_transfer_rejected_midway", "unfragmented_request_refused_with_size_hint", "retransmitted_block", "unfragmented_1124", "separate_response", "empty_ack_lost_response_delivered", "error_response_mid_transfer", "empty_final_block", "download_from_a_chosen_block_on", "success_code_changes_mid_transfer"]

LENGTHS = [0, 1, 15, 16, 17, 31, 32, 33, 63, 64, 65, 127, 128, 129, 511, 512, 513, 1023, 1024, 1025, 1124, 1125,
           2047, 2048, 2049, 3000, 5000]
MISBEHAVE = ["b1_wrong_num", "b1_more_on_final", "b1_231_on_final", "b2_short", "b2_skip", "b2_etag_change",
             "b2_first_num_wrong", "b2_nonblock_mid", "b2_etag_dropped", "b2_etag_appears", "b2_error_mid", "b2_code_change",
             "b2_back", "b2_back_mislabel", "b2_zero_final"]
METHODS = {"GET": rc.GET, "PUT": rc.PUT, "POST": rc.POST, "FETCH": rc.FETCH}


def size_of(szx):
    return 1 << (szx + 4)


def req_body(seed, n):
    out = bytearray()
    i = 0
    while len(out) < n:
        out += b"Q%02x:%011d;" % (seed & 0xFF, i * 16)
        i += 1
    return bytes(out[:n])


def rendering(rid, n):
    out = bytearray()
    off = 0
    while len(out) < n:
        out += b"%05d@%09d;" % (rid, off)
        off += 16
    return bytes(out[:n])


def gen_transfer(r, i):
    method = r.choice(["PUT", "POST", "FETCH", "GET", "GET"])
    tr = {"id": i, "method": method,
          "qlen": 0 if method == "GET" else r.choice(LENGTHS),
          "rlen": r.choice(LENGTHS) if method != "PUT" else r.choice([0, 5, 40]),
          "s1": r.choice([0, 1, 2, 4, 6, 6, 6]),  # server's Block1 size preference
          "s1_reduce": None, "s2": r.choice([0, 2, 5, 6, 6]), "s2_reduce": None,
          "cexp": r.choice([0, 2, 4, 6, 6, 6]), "etag": r.chance(0.6), "misbehave": None, "at": 0}
    if r.chance(0.25):
        tr["s1_reduce"] = [r.randrange(0, 4), r.randrange(0, 6)]  # at block index k switch to szx
    if r.chance(0.2):
        tr["s2_reduce"] = [r.randrange(1, 4), r.randrange(0, 6)]
    if r.chance(0.3):
        tr["misbehave"] = r.choice(MISBEHAVE)
        tr["at"] = r.randrange(0, 4)
    if r.chance(0.15):
        tr["s1_stateless"] = True
    elif r.chance(0.1):
        tr["s1_reject_at"] = r.randrange(0, 3)
    elif r.chance(0.08):
        tr["s1_hint"] = True
    if r.chance(0.2):
        tr["b2_stream"] = True  # (a streaming server: see RefServer7959.render)
    if r.chance(0.2):
        # the server (a proxy, a slow back end) answers some of the block requests with an empty ACK and a separate
        # response; the empty ACK may get lost while the response gets through
        tr["sep"] = {"at": sorted(set(r.randrange(0, 6) for _ in range(r.randint(1, 3)))), "delay": r.choice([0.0, 0.05, 0.5, 3.0]),
                     "con": r.chance(0.6), "lose_ack": r.chance(0.5)}
    return tr


def gen_random_access(r):
    """The application asks for the body from a block of its own choosing on (a Block2 option with a non-zero block number
    on a request handed to the block-wise client: resuming a download, random access)."""
    szx = r.choice([0, 2, 4, 6])
    nblocks = r.randint(2, 8)
    rlen = nblocks * size_of(szx) - r.choice([0, 1, size_of(szx) - 1])
    return {"ra": {"rlen": rlen, "szx": szx, "k": r.randint(1, nblocks - 1), "etag": r.chance(0.7), "method": r.choice(["GET", "FETCH"])},
            "transfers": [], "net": {}}


def gen_tcp_upload(r):
    """A request body uploaded over CoAP-over-TCP (RFC 8323): before the peer's CSM is in, the client starts with BERT
    blocks (SZX 7: block numbers count KiB, a block carries several KiB); the server -- conforming -- may answer with a
    smaller size at any acknowledgement, down through 1024 (SZX 6) to anything below."""
    return {"tcpup": {"qlen": r.choice([1025, 1500, 2048, 2049, 3000, 4096, 5000, 8192, 9000, 12345]),
                      "mms": r.choice([1152, 2300, 4300, 8400, 70000]), "bw": r.chance(0.9),
                      "csm_delay": r.choice([0.0, 0.0, 0.02, 0.3]),
                      "reduce": r.choice([None, [0, 6], [0, 6], [0, 5], [0, 2], [1, 6], [1, 4], [2, 6], [2, 0]]),
                      "method": r.choice(["PUT", "POST"])},
            "transfers": [], "net": {}}


def gen(r, tier):
    if r.chance(0.06):
        return gen_random_access(r)
    if r.chance(0.05):
        return gen_tcp_upload(r)
    n = r.choice([1, 1, 2, 3])
    trs = [gen_transfer(r, i) for i in range(n)]
    for i, tr in enumerate(trs):
        tr["t"] = round(i * r.choice([0.0, 0.5, 400.0]), 3)
    scn = {"transfers": trs, "net": faults.swarm(r, kinds=("drop", "dup", "delay"), fault_free=0.4)}
    if r.chance(0.15):
        # the path to the server is cut in the middle of a transfer and heals: shorter than the retransmission span
        # the transfer goes on, longer it fails loudly -- and a transfer started after the heal works
        scn["partition"] = {"t0": round(r.uniform(0.0, 0.3), 3), "dur": r.choice([0.5, 5.0, 30.0, 120.0])}
        extra = gen_transfer(r, len(trs))
        extra["misbehave"] = None
        extra["t"] = round(max(t_["t"] for t_ in trs) + scn["partition"]["dur"] + 600.0, 3)
        extra["after_heal"] = True
        trs.append(extra)
    return scn


def systematic(tier):
    out = []
    lens = LENGTHS if tier == "thorough" else [0, 1, 16, 17, 1024, 1025, 1124, 1125, 3000]
    exps = range(0, 7) if tier == "thorough" else (0, 3, 6)
    for ln in lens:
        for s in exps:
            for c in exps:
                if ln > 2100 and min(s, c) < 2 and tier == "quick":
                    continue
                out.append({"transfers": [{"id": 0, "method": "POST", "qlen": ln, "rlen": ln, "s1": s, "s1_reduce": None,
                                           "s2": s, "s2_reduce": None, "cexp": c, "etag": True, "misbehave": None,
                                           "at": 0, "t": 0.0}], "net": {}})
    for at in ([0], [1], [2], [1, 2], [0, 1, 2, 3]):
        for lose in (False, True):
            for con in (True, False):
                for method, ql, rl in (("GET", 0, 200), ("POST", 200, 200), ("PUT", 200, 0)):
                    out.append({"transfers": [{"id": 0, "method": method, "qlen": ql, "rlen": rl, "s1": 2, "s1_reduce": None,
                                               "s2": 2, "s2_reduce": None, "cexp": 6, "etag": True, "misbehave": None, "at": 0, "t": 0.0,
                                               "sep": {"at": at, "delay": 0.05, "con": con, "lose_ack": lose}}], "net": {}})
    for szx, nb in ((2, 4), (6, 3), (0, 8)):
        for k in range(1, nb):
            out.append({"ra": {"rlen": nb * size_of(szx) - 3, "szx": szx, "k": k, "etag": True, "method": "GET"}, "transfers": [], "net": {}})
    for ln in (16, 32, 48, 1024, 2048, 3072, 17, 0):
        for s2, c in ((0, 6), (6, 6), (2, 0), (6, 2)):
            out.append({"transfers": [{"id": 0, "method": "GET" if ln % 32 else "POST", "qlen": 0, "rlen": ln, "s1": 6, "s1_reduce": None,
                                       "s2": s2, "s2_reduce": None, "cexp": c, "etag": bool(ln % 48), "misbehave": None, "at": 0, "t": 0.0,
                                       "b2_stream": True}], "net": {}})
    for mb in MISBEHAVE:
        for at in (0, 1, 2):
            out.append({"transfers": [{"id": 0, "method": "POST", "qlen": 200, "rlen": 200, "s1": 1, "s1_reduce": None,
                                       "s2": 1, "s2_reduce": None, "cexp": 6, "etag": True, "misbehave": mb,
                                       "at": at, "t": 0.0}], "net": {}})
    return out


def shrink(scn):
    if scn.get("tcpup"):
        return
    if scn.get("ra"):
        return
    trs = scn["transfers"]
    if len(trs) > 1:
        for i in range(len(trs)):
            c = dict(scn)
            c["transfers"] = trs[:i] + trs[i + 1:]
            yield c
    if any(scn.get("net", {}).values()):
        c = dict(scn)
        c["net"] = {}
        yield c
    for i, tr in enumerate(trs):
        for key, val in (("s1_reduce", None), ("s2_reduce", None), ("misbehave", None), ("etag", True), ("cexp", 6),
                         ("s1", 6), ("s2", 6)):
            if tr.get(key) != val:
                c = dict(scn)
                t2 = dict(tr)
                t2[key] = val
                c["transfers"] = trs[:i] + [t2] + trs[i + 1:]
                yield c
        for key in ("qlen", "rlen"):
            for v in (0, 17, 40, 200):
                if tr[key] > v and not (key == "qlen" and tr["method"] == "GET"):
                    c = dict(scn)
                    t2 = dict(tr)
                    t2[key] = v
                    c["transfers"] = trs[:i] + [t2] + trs[i + 1:]
                    yield c


class RefServer7959(ScriptedEndpoint):
    """Independent block-wise server written from RFC 7959.  One instance serves
    one scenario; per transfer id (taken from Uri-Path) it keeps its own state."""

    def __init__(self, sim, ip, port, specs):
        super().__init__(sim, ip, port)
        self.specs = specs
        self.st = {}
        self.dedup = {}
        self.rid = 0

    def state(self, tid):
        if tid not in self.st:
            self.st[tid] = {"buf": b"", "b1_count": 0, "bodies": [], "repr": None, "reprs": [], "b2_count": 0,
                            "s1": self.specs[tid]["s1"], "s2": self.specs[tid]["s2"], "b1_offsets_ok": True,
                            "fragmented_request": False, "served_blocks": 0}
        return self.st[tid]

    def new_repr(self, st, tid):
        self.rid += 1
        rid = self.rid + 100 * (tid + 1)
        st["repr"] = (rid, rendering(rid, self.specs[tid]["rlen"]))
        st["reprs"].append(st["repr"])
        return st["repr"]

    def handle(self, msg, src, data):
        if msg is not None and msg["code"] == 0 and msg["type"] in (rc.ACK, rc.RST):
            getattr(self, "sep_open", {}).pop((src, msg["mid"]), None)
            return
        if msg is None or not (1 <= msg["code"] < 32):
            return
        key = (src, msg["mid"])
        if key in self.dedup:
            self.sim.probe("retransmitted_block")
            if self.dedup[key] is not None:
                self.send(src, raw=self.dedup[key])
            return
        path = rc.opt1(msg, rc.URI_PATH)
        tid = int(path[1:])
        spec = self.specs[tid]
        st = self.state(tid)
        resp = self.respond(msg, spec, st, tid)
        resp["mid"] = msg["mid"]
        resp["type"] = rc.ACK if msg["type"] == rc.CON else rc.NON
        if msg["type"] == rc.NON:
            resp["mid"] = self.next_mid()
        resp["token"] = msg["token"]
        sep = spec.get("sep")
        st["nreq"] = st.get("nreq", 0) + 1
        if sep and msg["type"] == rc.CON and (st["nreq"] - 1) in sep["at"]:
            # empty ACK now (unless it "gets lost": then only the retransmitted request is acknowledged), the response
            # separately a little later -- confirmable (retransmitted until acknowledged) or not
            self.sim.probe("separate_response")
            ack = rc.encode({"type": rc.ACK, "code": 0, "mid": msg["mid"], "token": b"", "options": [], "payload": b""})
            self.dedup[key] = ack
            if sep.get("lose_ack"):
                self.sim.probe("empty_ack_lost_response_delivered")
                self.sim.net.count("fault.drop_ack")
            else:
                self.send(src, raw=ack)
            resp["type"] = rc.CON if sep.get("con") else rc.NON
            resp["mid"] = self.next_mid()
            raw = rc.encode(resp)
            if not hasattr(self, "sep_open"):
                self.sep_open = {}
            st.setdefault("sep_sent", []).append(raw)

            def tx(n=0, raw=raw, k=(src, resp["mid"])):
                if n and k not in self.sep_open:
                    return
                self.send(src, raw=raw)
                if sep.get("con") and n < 4:
                    self.loop.after(2.0 * 2 ** n, tx, n + 1)
            if sep.get("con"):
                self.sep_open[(src, resp["mid"])] = True
            self.loop.after(sep.get("delay", 0.05), tx)
            return
        raw = rc.encode(resp)
        self.dedup[key] = raw
        self.send(src, raw=raw)

    def respond(self, msg, spec, st, tid):
        mb = spec["misbehave"]
        b1 = rc.opt1(msg, rc.BLOCK1)
        b2 = rc.opt1(msg, rc.BLOCK2)
        opts = []
        if b1 is not None:
            num, more, szx = rc.block_value(b1)
            st["fragmented_request"] = True
            size = size_of(szx)
            if num == 0:
                st["buf"] = b""
                st["b1_count"] = 0
                st["s1"] = spec["s1"]
            if num * size != len(st["buf"]) or (more and len(msg["payload"]) != size):
                st["b1_offsets_ok"] = False
                return {"code": rc.REQUEST_ENTITY_INCOMPLETE, "options": [], "payload": b""}
            k = st["b1_count"]
            if spec.get("s1_reject_at") is not None and k == spec["s1_reject_at"] and more:
                # the server refuses the transfer half way (4.13 with the block option echoed): the transfer is over,
                # the caller has to learn about it, and nothing more of it is sent
                st["rejected"] = self.loop.now
                st["b1_count"] += 1
                self.sim.probe("block1_transfer_rejected_midway")
                return {"code": rc.code(4, 13), "options": [(rc.BLOCK1, rc.block_bytes(num, False, min(szx, st["s1"])))],
                        "payload": b"too large"}
            st["buf"] += msg["payload"]
            st["b1_count"] += 1
            if spec["s1_reduce"] and k >= spec["s1_reduce"][0]:
                if spec["s1_reduce"][1] < st["s1"]:
                    st["s1"] = spec["s1_reduce"][1]
            eszx = min(szx, st["s1"])
            if eszx < szx:
                self.sim.probe("szx_reduced_block1")
            if more:
                if k >= 1:
                    self.sim.probe("block1_multi")
                rnum = num
                if mb == "b1_wrong_num" and k == spec["at"]:
                    rnum = num + 1
                    st["misbehaved"] = True
                    self.sim.probe("misbehave_b1_wrong_num")
                if spec.get("s1_stateless") and msg["code"] in (rc.PUT, rc.POST) and rnum == num:
                    # RFC 7959 section 2.3: a server that processes every block on its own acknowledges a non-final
                    # block with the M bit unset and an ordinary success code; the client has to go on all the same
                    self.sim.probe("block1_acked_without_more_bit")
                    return {"code": rc.CHANGED, "options": [(rc.BLOCK1, rc.block_bytes(rnum, False, eszx))], "payload": b""}
                return {"code": rc.CONTINUE, "options": [(rc.BLOCK1, rc.block_bytes(rnum, True, eszx))], "payload": b""}
            # final block: the body is complete
            body = st["buf"]
            st["bodies"].append(body)
            fin_more = False
            code_override = None
            if mb == "b1_more_on_final":
                fin_more = True
                st["misbehaved"] = True
                self.sim.probe("misbehave_b1_more_on_final")
            if mb == "b1_231_on_final":
                code_override = rc.CONTINUE
                st["misbehaved"] = True
                self.sim.probe("misbehave_b1_more_on_final")
            opts.append((rc.BLOCK1, rc.block_bytes(num, fin_more, eszx)))
            resp = self.render(msg, spec, st, tid, b2, fresh=True)
            resp["options"] = sorted(resp["options"] + opts, key=lambda o: o[0])
            if code_override:
                resp["code"] = code_override
            return resp
        # no Block1
        if spec.get("s1_hint") and METHODS_WITH_BODY.get(msg["code"]) and msg["payload"] and b2 is None:
            # RFC 7959 section 2.9.3: a request sent in one piece is refused with 4.13 and a Block1 option that says
            # which block size the server would accept
            st["rejected"] = self.loop.now
            st["hinted"] = True
            self.sim.probe("unfragmented_request_refused_with_size_hint")
            return {"code": rc.code(4, 13), "options": [(rc.BLOCK1, rc.block_bytes(0, False, min(spec["s1"], 5)))],
                    "payload": b"smaller blocks please"}
        if METHODS_WITH_BODY.get(msg["code"]) and b2 is not None and rc.block_value(b2)[0] > 0 and not msg["payload"] \
                and st["repr"] is not None:
            # Block2 follow-up of a PUT/POST/FETCH whose body was delivered before: serve the stored representation
            return self.render(msg, spec, st, tid, b2, fresh=False)
        if msg["code"] != rc.GET:
            st["bodies"].append(msg["payload"])
        fresh = b2 is None or rc.block_value(b2)[0] == 0 or st["repr"] is None
        return self.render(msg, spec, st, tid, b2, fresh=fresh)

    def render(self, msg, spec, st, tid, b2, fresh):
        mb = spec["misbehave"]
        if fresh:
            self.new_repr(st, tid)
            st["b2_count"] = 0
            st["s2"] = spec["s2"]
        rid, full = st["repr"]
        code = {rc.GET: rc.CONTENT, rc.FETCH: rc.CONTENT, rc.PUT: rc.CHANGED, rc.POST: rc.CHANGED}[msg["code"]]
        n = len(full)
        if b2 is not None:
            num, _, cszx = rc.block_value(b2)
        else:
            num, cszx = 0, 6
        k = st["b2_count"]
        if spec["s2_reduce"] and k >= spec["s2_reduce"][0] and spec["s2_reduce"][1] < st["s2"]:
            st["s2"] = spec["s2_reduce"][1]
        szx = min(cszx, st["s2"])
        if szx < cszx and num > 0:
            self.sim.probe("szx_reduced_block2")
        size = size_of(szx)
        start = num * size_of(cszx)
        opts = []
        etag = b"E%05d" % rid
        stream = bool(spec.get("b2_stream"))
        if b2 is None and (n < size if stream else n <= size):
            # fits: no Block2 needed
            if spec["etag"]:
                opts.append((rc.ETAG, etag))
            return {"code": code, "options": opts, "payload": full}
        if (start > n if stream else start >= n) and not (n == 0 and start == 0):
            return {"code": rc.BAD_REQUEST, "options": [], "payload": b"beyond"}
        st["b2_count"] += 1
        snum = start // size
        if mb == "b2_skip" and k == max(1, spec["at"]) and start + size < n:
            snum += 1
            start += size
            st["misbehaved"] = True
            self.sim.probe("misbehave_b2_skip")
        label, force_last = None, False
        if mb in ("b2_back", "b2_back_mislabel", "b2_zero_final") and k == max(1, spec["at"]) and start > 0:
            # a follow-up request answered with a block that lies BEHIND the one asked for: the previous block once more
            # (under its own number), the requested data under the previous block's number, or block 0 again, marked
            # final -- in every case a wrong block number
            st["misbehaved"] = True
            self.sim.probe("misbehave_b2_earlier_block")
            if mb == "b2_back":
                snum -= 1
                start -= size
            elif mb == "b2_back_mislabel":
                label = snum - 1
            else:
                snum, start, force_last = 0, 0, True
        if mb == "b2_first_num_wrong" and k == 0 and n > size:
            snum += 1
            start += size
            st["misbehaved"] = True
        if mb == "b2_etag_change" and k == max(1, spec["at"]) and start > 0:
            rid, full = self.new_repr(st, tid)
            etag = b"E%05d" % rid
            st["misbehaved"] = True
            self.sim.probe("misbehave_b2_etag_change")
        etag_here = spec["etag"] or mb == "b2_etag_change"
        if mb in ("b2_etag_dropped", "b2_etag_appears"):
            # the representation is replaced by one that is served without / with an ETag where the first block had
            # one / none: "ETag differs" in its absent-versus-present form
            etag_here = (mb == "b2_etag_dropped")
            if st.get("etag_switched") or (k == max(1, spec["at"]) and start > 0):
                if not st.get("etag_switched"):
                    rid, full = self.new_repr(st, tid)
                    st["etag_switched"] = (rid, full)
                    st["misbehaved"] = True
                    self.sim.probe("misbehave_b2_etag_presence_change")
                rid, full = st["etag_switched"]
                etag = b"E%05d" % rid
                etag_here = not etag_here
        if mb == "b2_nonblock_mid" and k == max(1, spec["at"]) and start > 0:
            # a complete (small) representation without Block2 option in the middle of the transfer
            st["nonblock"] = b"NONBLOCK-COMPLETE-%05d" % rid
            st["misbehaved"] = True
            return {"code": code, "options": [], "payload": st["nonblock"]}
        if mb == "b2_error_mid" and k == max(1, spec["at"]) and start > 0:
            # the server fails in the middle of the transfer (the resource is gone, the back end is unavailable) and says
            # so with an error response that, like its other responses to block requests, carries a Block2 option
            st["errmid"] = b"ERROR-MID-TRANSFER-%05d" % rid
            st["errmid_code"] = rc.code(5, 3) if rid % 2 else rc.NOT_FOUND
            st["misbehaved"] = True
            self.sim.probe("error_response_mid_transfer")
            return {"code": st["errmid_code"], "options": [(rc.BLOCK2, rc.block_bytes(snum, False, szx))], "payload": st["errmid"]}
        chunk = full[start:start + size]
        more = start + size < n
        if stream and n > 0 and start + size == n:
            # a server that produces its content incrementally learns that the body is over only when it looks for the
            # next block: a body ending exactly on a block boundary is followed by an empty final block (legal: a
            # final block carries 0..size bytes)
            more = True
            self.sim.probe("empty_final_block")
        if more:
            if k >= 1:
                self.sim.probe("block2_multi")
        if mb == "b2_code_change" and k == max(1, spec["at"]) and start > 0:
            # a later block arrives under another SUCCESS code than the first (2.04 after 2.05 or the other way round):
            # whatever that is, it is not the next part of the representation being assembled
            code = rc.CHANGED if code == rc.CONTENT else rc.CONTENT
            st["misbehaved"] = True
            self.sim.probe("success_code_changes_mid_transfer")
        if mb == "b2_short" and more and k == spec["at"] and len(chunk) > 1:
            chunk = chunk[:-1]
            st["misbehaved"] = True
            self.sim.probe("misbehave_b2_short")
        if etag_here:
            opts.append((rc.ETAG, etag))
        opts.append((rc.BLOCK2, rc.block_bytes(snum if label is None else label, more and not force_last, szx)))
        return {"code": code, "options": opts, "payload": chunk}


METHODS_WITH_BODY = {rc.PUT: True, rc.POST: True, rc.FETCH: True}


def execute_random_access(sim, scn):
    from aiocoap import Message, error
    from aiocoap.numbers.codes import Code

    loop = sim.loop
    ra = scn["ra"]
    client = loop.run_until_complete(sim.client(common.CLIENT_IP))
    spec = {"id": 0, "method": ra["method"], "qlen": 0, "rlen": ra["rlen"], "s1": 6, "s1_reduce": None, "s2": 6, "s2_reduce": None,
            "cexp": 6, "etag": ra["etag"], "misbehave": None, "at": 0, "t": 0.0}
    server = RefServer7959(sim, common.PEER_IPS[0], 5683, {0: spec})
    tracker = common.Tracker(sim)
    sim.probe("download_from_a_chosen_block_on")

    def start():
        msg = Message(code=Code(METHODS[ra["method"]]), uri="coap://[%s]/x0" % server.addr[0], block2=(ra["k"], False, ra["szx"]))
        tracker.start(0, client, msg, handle_blockwise=True)
    loop.at(0.0, start)
    sim.run()
    sim.nontrivial = True
    rec = tracker.results[0]
    st = server.state(0)
    ident = {"asked_from_block": ra["k"], "szx": ra["szx"], "rlen": ra["rlen"], "method": ra["method"]}
    if not rec["done"]:
        sim.violation("C05/transfer-never-completed", ident)
    elif rec["outcome"] == "response":
        got = bytes(rec["response"].payload)
        fulls = [full for (rid, full) in st["reprs"]]
        off = ra["k"] * size_of(ra["szx"])
        # what may be handed over: the representation from the chosen block on (or just that block, if the caller is
        # told so by the more-flag) -- never pieces that do not follow each other
        ok = any(got == full[off:] or (got == full[off:off + size_of(ra["szx"])] and rec["response"].opt.block2 is not None
                                       and rec["response"].opt.block2.more) for full in fulls)
        if not ok:
            sim.violation("C05/response-body-mixed-or-duplicated", dict(ident, got_len=len(got), head=got[:24].hex()))
    elif not isinstance(rec["exception"], error.Error):
        sim.anomaly("random-access-error-not-a-library-error", repr(rec["exception"]))
    for (t, m, en, es) in sim.loop_exceptions():
        sim.anomaly("loop-exception:%s" % en, "%s %s" % (m, es))


def execute_tcp_upload(sim, scn):
    import aiocoap
    from aiocoap import Message, error
    from aiocoap.numbers.codes import Code
    from simkit.stream import SimStreamNet, TcpPeer, TcpPeerListener, split_frames

    loop = sim.loop
    up = scn["tcpup"]
    sn = SimStreamNet(sim)
    loop.streamnet = sn
    ip = "fd00::20"
    body = req_body(7, up["qlen"])
    sim.probe("upload_over_tcp")
    st = {"assembled": bytearray(), "acks": 0, "seen": 0, "requests": [], "complete": None, "refused": None}
    csm_opts = [(2, rc.uint_bytes(up["mms"]))] + ([(4, b"")] if up["bw"] else [])

    def unit(szx):
        return 1024 if szx == 7 else size_of(szx)

    def on_data(p, d):
        if not st.get("csm_sent"):
            return  # (a server says nothing before its CSM; what has arrived is looked at right after)
        frames, _ = split_frames(p.rx)
        for (a, b, m, err) in frames[st["seen"]:]:
            st["seen"] += 1
            if m is None or not (1 <= m["code"] < 32):
                continue
            b1 = rc.opt1(m, rc.BLOCK1)
            if b1 is None:
                st["requests"].append((None, len(m["payload"])))
                st["assembled"] = bytearray(m["payload"])
                st["complete"] = bytes(st["assembled"])
                p.send({"code": rc.CHANGED, "token": m["token"], "options": [], "payload": b""})
                continue
            num, more, szx = rc.block_value(b1)
            st["requests"].append(((num, more, szx), len(m["payload"])))
            off = num * unit(szx)
            if num == 0:
                st["assembled"] = bytearray()
            ok = off == len(st["assembled"]) and (not more or (len(m["payload"]) > 0 and len(m["payload"]) % unit(szx) == 0 and
                                                               (szx == 7 or len(m["payload"]) == unit(szx))))
            if not ok:
                # RFC 7959 2.5: what arrives does not continue what is there
                st["refused"] = {"block": [num, more, szx], "offset": off, "have": len(st["assembled"]), "len": len(m["payload"])}
                p.send({"code": rc.REQUEST_ENTITY_INCOMPLETE, "token": m["token"], "options": [], "payload": b""})
                continue
            st["assembled"] += m["payload"]
            szx_ack = szx
            if up["reduce"] is not None and st["acks"] >= up["reduce"][0]:
                szx_ack = min(szx, up["reduce"][1])
                if szx_ack < szx:
                    sim.probe("server_reduces_size_over_tcp")
                    if szx == 7:
                        sim.probe("server_turns_bert_down")
            st["acks"] += 1
            if more:
                p.send({"code": rc.code(2, 31), "token": m["token"], "options": [(rc.BLOCK1, rc.block_bytes(num, True, szx_ack))], "payload": b""})
            else:
                st["complete"] = bytes(st["assembled"])
                p.send({"code": rc.CHANGED, "token": m["token"], "options": [(rc.BLOCK1, rc.block_bytes(num, False, szx_ack))], "payload": b""})

    def made(p, k, i):
        if k == "made":
            csm = rc.tcp_encode({"code": rc.CSM, "token": b"", "options": csm_opts, "payload": b""})
            def send_csm():
                if p.is_open:
                    p.write(csm)
                    st["csm_sent"] = True
                    on_data(p, b"")
            if up["csm_delay"]:
                loop.after(up["csm_delay"], send_csm)
            else:
                send_csm()

    listener = TcpPeerListener(sim, ip, 5683, lambda n: TcpPeer(sim, "tcp-server#%d" % n, on_data=on_data, on_event=made))

    async def setup():
        await listener.start()
        return await aiocoap.Context.create_client_context(transports=["tcpclient"], loggername="coap")

    client = loop.run_until_complete(setup())
    sim.contexts.append(client)
    tracker = common.Tracker(sim)
    loop.at(loop.now + 0.01, lambda: tracker.start(0, client, Message(code=Code(METHODS[up["method"]]), uri="coap+tcp://[%s]/up" % ip, payload=body),
                                                 handle_blockwise=True))
    sim.run()
    sim.nontrivial = True
    rec = tracker.results[0]
    ident = dict(up, requests=[[list(b) if b else None, n] for b, n in st["requests"]][:12])
    szxs = [b[2] for b, n in st["requests"] if b is not None]
    if any(y > x for x, y in zip(szxs, szxs[1:])):
        sim.violation("C05/size-exponent-grew", ident)
    if not rec["done"]:
        sim.violation("C05/transfer-never-completed", ident)
    elif rec["outcome"] != "response" or st["refused"] is not None:
        sim.violation("C05/conforming-transfer-failed", dict(ident, refused=st["refused"], outcome=rec["outcome"],
                                                             exception=repr(rec.get("exception"))[:120]))
    elif st["complete"] != body:
        sim.violation("C05/request-body-differs", dict(ident, got=len(st["complete"] or b""), expected=len(body)))
    for (t, m, en, es) in sim.loop_exceptions():
        sim.anomaly("loop-exception:%s" % en, "%s %s" % (m, es))


def execute(sim, scn):
    if scn.get("ra"):
        return execute_random_access(sim, scn)
    if scn.get("tcpup"):
        return execute_tcp_upload(sim, scn)
    from aiocoap import Message, error
    from aiocoap.numbers.codes import Code

    loop = sim.loop
    sim.net.fate_gen = faults.fate_gen(scn.get("net", {}))
    client = loop.run_until_complete(sim.client(common.CLIENT_IP))
    me = sim.local_addr(client)
    specs = {tr["id"]: tr for tr in scn["transfers"]}
    server = RefServer7959(sim, common.PEER_IPS[0], 5683, specs)
    if scn.get("partition"):
        pt = scn["partition"]
        sim.net.partitions.append((pt["t0"], pt["t0"] + pt["dur"], common.CLIENT_IP, common.PEER_IPS[0]))
        sim.probe("partition")
    tracker = common.Tracker(sim)

    def start(tr):
        payload = req_body(tr["id"] + 1, tr["qlen"])
        msg = Message(code=Code(METHODS[tr["method"]]), uri="coap://[%s]/x%d" % (server.addr[0], tr["id"]),
                      payload=payload)
        msg.remote.maximum_block_size_exp = tr["cexp"]
        tracker.start(tr["id"], client, msg, handle_blockwise=True)

    for tr in scn["transfers"]:
        loop.at(tr["t"], start, tr)

    sim.run()

    wire = sim.net.wire

    def sep_lost(st):
        """a separate response of which no copy ever arrived"""
        return any(not any(d[2] for e in wire if e["data"] == raw and e["src"] == server.addr for d in e["deliveries"])
                   for raw in st.get("sep_sent", []))
    for tr in scn["transfers"]:
        tid = tr["id"]
        rec = tracker.results.get(tid)
        st = server.state(tid)
        ident = {"transfer": tid, "method": tr["method"], "qlen": tr["qlen"], "rlen": tr["rlen"], "s1": tr["s1"],
                 "s1_reduce": tr["s1_reduce"], "s2": tr["s2"], "s2_reduce": tr["s2_reduce"], "cexp": tr["cexp"],
                 "misbehave": tr["misbehave"], "at": tr["at"], "etag": tr["etag"]}
        payload = req_body(tid + 1, tr["qlen"])
        # ---- the client's block requests on the wire (first transmissions, by MID)
        seen = set()
        sent1 = 0
        last_szx = None
        recv2 = 0
        in_b2 = False
        wire_ok = True
        nreq = 0
        for e in wire:
            if e["src"] != me or e["msg"] is None or not (1 <= e["msg"]["code"] < 32):
                continue
            m = e["msg"]
            if rc.opt1(m, rc.URI_PATH) != b"x%d" % tid:
                continue
            if m["mid"] in seen:
                continue
            seen.add(m["mid"])
            nreq += 1
            b1 = rc.opt1(m, rc.BLOCK1)
            b2 = rc.opt1(m, rc.BLOCK2)
            if b1 is not None:
                num, more, szx = rc.block_value(b1)
                size = size_of(szx)
                if num * size != sent1:
                    sim.violation("C05/block1-offset-not-contiguous", dict(ident, num=num, size=size, sent_before=sent1))
                    wire_ok = False
                    break
                should_more = sent1 + len(m["payload"]) < len(payload)
                if bool(more) != should_more:
                    sim.violation("C05/block1-more-flag-wrong", dict(ident, num=num, more=bool(more), sent_before=sent1,
                                                                     this=len(m["payload"]), total=len(payload)))
                    wire_ok = False
                    break
                if more and len(m["payload"]) != size:
                    sim.violation("C05/block1-payload-size-mismatch", dict(ident, num=num, size=size, got=len(m["payload"])))
                    wire_ok = False
                    break
                if m["payload"] != payload[sent1:sent1 + len(m["payload"])]:
                    sim.violation("C05/block1-payload-content-wrong", dict(ident, num=num))
                    wire_ok = False
                    break
                if last_szx is not None and szx > last_szx:
                    sim.violation("C05/block1-size-exponent-grew", dict(ident, num=num, szx=szx, previous=last_szx))
                    wire_ok = False
                    break
                last_szx = szx
                sent1 += len(m["payload"])
            elif m["payload"] and tr["method"] != "GET" and not in_b2:
                sent1 += len(m["payload"])
                if tr["qlen"] == 1124 and len(m["payload"]) == 1124:
                    sim.probe("unfragmented_1124")
            if b2 is not None and rc.block_value(b2)[0] > 0:
                in_b2 = True
        if st["bodies"] or st["fragmented_request"]:
            sim.nontrivial = True
        if st.get("rejected") is not None and rec is not None and wire_ok:
            # conforming server that refused the request body half way
            later = [e for e in wire if e["src"] == me and e["msg"] is not None and rc.opt1(e["msg"], rc.URI_PATH) == b"x%d" % tid
                     and 1 <= e["msg"]["code"] < 32 and e["t"] > st["rejected"] and rc.opt1(e["msg"], rc.BLOCK1) is not None
                     and rc.block_value(rc.opt1(e["msg"], rc.BLOCK1))[0] > 0
                     and e["data"] not in {x["data"] for x in wire if x["t"] <= st["rejected"]}]
            if st.get("hinted") and rec["done"] and rec["outcome"] == "response" and rec["response"].code.is_successful() \
                    and st["bodies"] and st["bodies"][-1] == payload:
                continue  # the client took the hint and repeated the request in blocks: fine
            if not rec["done"] and sep_lost(st):
                sim.probe("separate_response_never_arrived")
            elif not rec["done"]:
                sim.violation("C05/transfer-never-completed", ident)
            elif rec["outcome"] == "response" and rec["response"].code.is_successful():
                sim.violation("C05/rejected-transfer-reported-as-success", dict(ident, code=str(rec["response"].code)))
            elif rec["outcome"] == "error" and not isinstance(rec["exception"], error.Error):
                # a conforming server said no; the caller gets neither that answer nor an error of the library
                sim.violation("C05/server-refusal-ends-in-foreign-exception", dict(ident, exc=repr(rec["exception"])[:160],
                                                                                  hinted=bool(st.get("hinted"))))
            elif later and not st.get("hinted") and not faults.active(scn.get("net")):
                sim.violation("C05/blocks-sent-after-rejection", dict(ident, n=len(later)))
            continue
        misbehaving = tr["misbehave"] is not None and st.get("misbehaved")
        nonblock = st.get("nonblock")
        if rec is None or not wire_ok:
            continue
        if tr["misbehave"] or st["b1_count"] > 1 or st["b2_count"] > 1:
            sim.nontrivial = True
        # ---- Block2 requests ask for NUM x size = bytes received so far: checked through the server's view
        # (RefServer answers 4.00 'beyond'/a wrong slice otherwise and the body comparison below fails)
        if not rec["done"] and sep_lost(st):
            # a separate response of which no copy ever arrived (the server gave up, or it was not confirmable), after
            # the request had been acknowledged: nobody can tell the client; narrow relaxation, counted
            sim.probe("separate_response_never_arrived")
            continue
        if not rec["done"]:
            # the library keeps waiting only if an exchange is still open; CON retransmission bounds that
            sim.violation("C05/transfer-never-completed", ident)
            continue
        if rec["outcome"] == "error":
            exc = rec["exception"]
            if misbehaving:
                # "the request ends with an error": any exception does; one that is not a library error is counted
                if not isinstance(exc, error.Error):
                    sim.anomaly("misbehaving-server-error-not-a-library-error", repr(exc))
                continue
            # conforming server: failures are legitimate only when the network killed an exchange
            if isinstance(exc, error.NetworkError) and (faults.active(scn.get("net")) or
                                                        (scn.get("partition") and not tr.get("after_heal"))):
                continue
            sim.violation("C05/conforming-transfer-failed", dict(ident, exc=repr(exc)))
            continue
        resp = rec["response"]
        got = bytes(resp.payload)
        reprs = [full for (rid, full) in st["reprs"]]
        if misbehaving:
            # a response object was produced although the server broke the sequencing rules: it must then be a
            # complete representation, never a truncated / duplicated / mixed one
            if nonblock is not None and got == nonblock:
                continue
            if st.get("errmid") is not None and got == st["errmid"] and int(resp.code) == st["errmid_code"]:
                continue  # the server's error response, as such, is the result
            kind = "truncated" if any(full.startswith(got) and got != full for full in reprs) else "mixed-or-duplicated"
            if got in reprs:
                kind = "accepted-silently"
            sim.violation("C05/misbehaving-server-yielded-%s-body" % kind if kind != "accepted-silently"
                          else "C05/sequencing-violation-not-reported",
                          dict(ident, got_len=len(got), repr_lens=[len(x) for x in reprs], head=got[:32].hex()))
            continue
        # conforming: both bodies intact
        if tr["method"] != "GET":
            if not st["bodies"]:
                sim.violation("C05/request-body-never-completed-at-server", ident)
            elif st["bodies"][-1] != payload and payload not in st["bodies"]:
                b = st["bodies"][-1]
                sim.violation("C05/request-body-corrupted", dict(ident, got_len=len(b), expected_len=len(payload)))
        if (resp.code.class_ != 2):
            sim.violation("C05/conforming-transfer-error-response", dict(ident, code=str(resp.code)))
            continue
        if got not in reprs:
            kind = "truncated" if any(full.startswith(got) for full in reprs) else "mixed-or-duplicated"
            sim.violation("C05/response-body-%s" % kind, dict(ident, got_len=len(got), expected_len=tr["rlen"],
                                                               head=got[:32].hex()))
    for (t, m, en, es) in sim.loop_exceptions():
        sim.anomaly("loop-exception:%s" % en, "%s %s" % (m, es))
