"""C01 -- CoAP datagram codec: lossless round trip, RFC 7252 section 3 format, total parsing.

Weak fit (see DESIGN.md section 7): two clauses are pure functions of their input; the simulator contributes the
end-to-end observer on live traffic and the network's corruption fault, whose consequence -- does the endpoint
survive every datagram -- is a system behaviour.
"""

from simkit import refcodec as rc
from simkit import faults
from simkit.net import ScriptedEndpoint, fmt, apply_corruption
from . import common
from .common import TOL

PROPERTY = "C01"
LEVEL = "exploration"
RUNS = {"quick": 2500, "thorough": 60000}
RULE = ("seeded scenarios: a scripted client (independent reference encoder) and a real aiocoap client exchange 10-40 "
        "generated messages with a real aiocoap server: all 4 types, codes 0-255, message IDs incl. 0/0xFFFF, tokens of "
        "0-8 bytes, option lists over every option format (string, opaque, uint, block, content-format, empty), unknown "
        "option numbers up to 65535+, repeated options, deltas and lengths at 12/13/268/269 and beyond, payloads incl. "
        "empty and a single 0xFF byte; the network corrupts datagrams (bit flip, truncation, insertion, replacement, "
        "garbage). Observers: wrapper around MessageInterfaceUDP6.send (every emitted datagram is reference-decoded and "
        "re-encoded), wrapper around Message.decode as used by the UDP receive path (exceptions leaving the parser), "
        "wrapper around dispatch_message (what was parsed). Systematic: every single-bit flip and every truncation of "
        "sampled datagrams. Message objects with a history (options added in any order, deleted, and the message "
        "serialised / listed / compared / hashed in between) must serialise to the reference encoding of what they hold "
        "at each point. Non-trivial = a corrupted or boundary-length datagram was processed; distinct = distinct "
        "event-sequence hash.")
COMPONENTS_REAL = ["aiocoap.message (encode/decode)", "aiocoap.options", "aiocoap.optiontypes", "aiocoap.numbers.optionnumbers",
                   "aiocoap.transports.udp6 (receive path)", "aiocoap.util.asyncio.recvmsg", "aiocoap.messagemanager",
                   "aiocoap.tokenmanager", "aiocoap.resource"]
COMPONENTS_STUB = ["UDP socket (SimSocket)", "independent reference codec (oracle)", "event loop clock (virtual)"]
ASSUMPTIONS = ["values of uint-format options are compared as integers, of string-format options as text (a non-minimal "
               "uint encoding on the wire denotes the same value)",
               "string options with invalid UTF-8 may be rejected as unparsable or accepted",
               "the reference decoder implements RFC 7252 section 3 only (section 4.1's rule about Empty messages is not "
               "part of the statement)"]
EXPECTED_PROBES = ["corrupted_dropped", "corrupted_dispatched", "delta_13", "delta_269", "length_13", "length_269",
                   "payload_ff", "unknown_option", "repeated_option", "api_round_trip", "all_bit_flips", "all_truncations",
                   "alive_after_faults", "built_with_history", "more_than_1024_options"]

STRING_OPTS = [3, 8, 11, 15, 20, 35, 39]
UINT_OPTS = [6, 7, 12, 14, 17, 28, 60, 258, 16]
OPAQUE_OPTS = [1, 4, 9, 252, 292]
BLOCK_OPTS = [23, 27]
KNOWN = set(STRING_OPTS + UINT_OPTS + OPAQUE_OPTS + BLOCK_OPTS + [5, 13])


UNKNOWN_OPTS = [2, 10, 19, 21, 22, 24, 31, 47, 64, 100, 267, 268, 269, 280, 281, 282, 290, 291, 300, 1000, 2049, 65000,
                65535, 65535 + 268, 65535 + 269, 65535 + 1000]


def gen_option(r):
    kind = r.weighted([(4, "string"), (3, "uint"), (2, "opaque"), (1, "block"), (1, "empty"), (3, "unknown")])
    if kind == "string":
        num = r.choice(STRING_OPTS)
        n = r.choice([0, 1, 5, 12, 13, 14, 40, 255, 268, 269, 270, 300]) if r.chance(0.5) else r.randint(0, 20)
        # includes text that is NOT in Unicode normal form C (combining accent, Ohm sign, CJK compatibility
        # ideograph): RFC 7252 section 5.10.1 forbids normalising, the bytes must survive as they are
        s = "".join(r.choice(["a", "b", "c", "X", "Y", "Z", "0", "9", "-", "_", ".", "~", "\u00e9", "\u221a", "/", " ", "?",
                              "&", "=", "e\u0301", "\u2126", "\uf900", "\u1100\u1161"]) for _ in range(n))
        s = s[:n] if len(s.encode("utf8")) > 300 else s
        val = s.encode("utf8")
    elif kind == "uint":
        num = r.choice(UINT_OPTS)
        # (RFC 7252 section 3.2 gives uint values no maximum width; option definitions do, but the codec carries whatever
        # it is given: values of nine and more bytes included)
        v = r.choice([0, 1, 255, 256, 65535, 65536, 2 ** 24 - 1, 2 ** 32 - 1, r.randrange(0, 2 ** 32), 2 ** 32, 2 ** 40 - 1,
                      2 ** 63, 2 ** 64 - 1, 2 ** 64, 2 ** 64 + 1, 2 ** 72 - 1, r.randrange(2 ** 64, 2 ** 96)])
        val = rc.uint_bytes(v)
    elif kind == "opaque":
        num = r.choice(OPAQUE_OPTS)
        val = r.randbytes(r.choice([0, 1, 8, 12, 13, 14, 268, 269]))
    elif kind == "block":
        num = r.choice(BLOCK_OPTS)
        val = rc.block_bytes(r.choice([0, 1, 15, 16, 4095, 65535, 1048575, 1048575, 2 ** 28, 2 ** 60 - 1, 2 ** 60, 2 ** 68]),
                             r.chance(0.5), r.randrange(0, 7))
    elif kind == "empty":
        num, val = 5, b""
    else:
        num = r.choice(UNKNOWN_OPTS)
        val = r.choice([r.randbytes(r.choice([0, 1, 3, 12, 13, 20])), b"\x00" + r.randbytes(r.choice([0, 1, 3]))])
    return [num, val.hex()]


def gen_msg(r, i, request_only=False):
    if request_only:
        typ = r.choice([rc.CON, rc.NON])
        code = r.choice([1, 2, 3, 4, 5, 6, 7])
    else:
        typ = r.randrange(0, 4)
        code = r.choice([0, 1, 2, 3, 4, 5, 31, 32, 64, 65, 69, 95, 128, 132, 160, 191, 192, 224, 255, r.randrange(0, 256)])
    opts = [gen_option(r) for _ in range(r.choice([0, 1, 2, 3, 5, 8]))]
    if r.chance(0.3) and opts:
        opts.append(list(r.choice(opts)))  # repeated option
    pl = r.choice([b"", b"", b"\xff", b"x", r.randbytes(r.randint(0, 64)), r.randbytes(300)])
    if r.chance(0.04):
        # very many options (RFC 7252 has no maximum number; only the datagram's size bounds it): repeatable options
        # with empty or one-byte values, up to what one readable datagram (4096 bytes) holds
        many = r.choice([200, 500, 1000, 1023, 1024, 1025, 1026, 1100, 1500, 2048, 2049, 3000])
        base = r.choice([[15, ""], [11, ""], [15, "61"], [4, "00"], [UNKNOWN_OPTS[0], ""], [8, ""]])
        opts = sorted(opts, key=lambda o: o[0])
        opts = [o for o in opts if o[0] < base[0]] + [list(base) for _ in range(many)] + [o for o in opts if o[0] > base[0]]
        while sum(3 + len(o[1]) // 2 for o in opts) > 3900:
            opts.pop()
        pl = pl[:64]
    if code == 0:
        opts, pl = [], b""
    return {"type": typ, "code": code, "mid": r.choice([0, 0xFFFF, 0x8000 + i]), "token": r.randbytes(r.choice([0, 1, 2, 4, 8])).hex(),
            "options": opts, "payload": pl.hex()}


def gen(r, tier):
    ops = []
    t = 0.0
    for i in range(r.randint(10, 40)):
        t += r.choice([0.01, 0.05, 0.5])
        if r.chance(0.12):
            # a message object with a history: options added in any order, looked at / serialised / compared in
            # between, options deleted and added again; what counts is the message it represents at the end
            m = gen_msg(r, i)
            steps = []
            pool = [gen_option(r) for _ in range(r.randint(2, 7))]
            for _ in range(r.randint(2, 12)):
                k = r.weighted([(6, "add"), (3, "encode"), (1, "list"), (1, "eq"), (1, "del"), (1, "key")])
                if k == "add":
                    steps.append(["add"] + list(r.choice(pool)))
                elif k == "del":
                    steps.append(["del", r.choice(pool)[0]])
                else:
                    steps.append([k])
            m["options"] = []
            ops.append({"op": "build", "t": round(t, 3), "msg": m, "steps": steps})
        elif r.chance(0.3):
            ops.append({"op": "api", "t": round(t, 3), "msg": gen_msg(r, i, request_only=True)})
        else:
            op = {"op": "raw", "t": round(t, 3), "msg": gen_msg(r, i)}
            if r.chance(0.35):
                k = r.choice(["flip", "flip", "trunc", "insert", "replace", "garbage"])
                if k == "garbage":
                    op["corrupt"] = ["garbage", r.randbytes(r.randint(0, 40)).hex()]
                elif k in ("flip", "trunc"):
                    op["corrupt"] = [k, r.randrange(0, 1 << 16)]
                else:
                    op["corrupt"] = [k, r.randrange(0, 1 << 16), r.randrange(0, 256)]
            ops.append(op)
    return {"ops": ops, "net": faults.swarm(r, kinds=("corrupt", "dup"), fault_free=0.3)}


def systematic(tier):
    out = []
    from simkit.decide import KeyRnd
    r = KeyRnd(12345)
    n = 200 if tier == "thorough" else 20
    for i in range(n):
        m = gen_msg(r, i, request_only=(i % 2 == 0))
        if len(m["payload"]) > 80:
            m["payload"] = m["payload"][:80]
        m["options"] = [o for o in m["options"] if len(o[1]) <= 60][:4]
        out.append({"ops": [], "net": {}, "enumerate": {"msg": m, "what": "flips" if i % 2 == 0 else "truncs"}})
    return out


def corpus():
    mk = lambda opts, pl="": {"type": 0, "code": 1, "mid": 0x7001, "token": "aa", "options": opts, "payload": pl}
    cases = [
        mk([[11, "ff"]]),                      # invalid UTF-8 in Uri-Path
        mk([[3, "c328"]]),                     # invalid UTF-8 in Uri-Host
        mk([[11, "61"], [15, "80"]]),
        mk([[7, "0000000005"]]),               # over-long uint
        mk([[12, "ffffffffff"]]),              # content format beyond 16 bit
        mk([[23, "ffffffff"]]),
        mk([[65535 + 269, "00"]]),
        mk([], "ff"),
    ]
    out = [{"ops": [{"op": "raw", "t": 0.1 * (i + 1), "msg": m} for i, m in enumerate(cases)], "net": {}}]
    raws = ["40", "4001", "400100", "7f010001", "4f0100010102030405060708090a0b0c0d0e0f", "40010001ff", "40010001f0",
            "400100010f", "40010001d0", "40010001e000", "400100011d", "c0010001", "00010001", "4801000101",
            "60000001ff", "40010001b1"]
    out.append({"ops": [{"op": "rawbytes", "t": 0.1 * (i + 1), "hex": h} for i, h in enumerate(raws)], "net": {}})
    # a long history in one process: 1500 distinct unassigned option numbers pass through the parser, then ordinary
    # messages must still parse into the same fields and values (tables that are filled or cleaned lazily)
    many = []
    for k in range(30):
        opts = [[2000 + 100 * k + 2 * j, ""] for j in range(50)]
        many.append({"op": "raw", "t": round(0.05 * (k + 1), 3), "msg": {"type": 1, "code": 1, "mid": 0x7100 + k, "token": "bb",
                                                                          "options": opts, "payload": ""}})
    usual = {"type": 0, "code": 1, "mid": 0x7200, "token": "cc", "payload": "",
             "options": [[3, "686f7374"], [6, ""], [7, "1633"], [11, "70"], [11, "71"], [12, "28"], [15, "613d62"], [17, "32"],
                         [23, "16"], [60, "0400"]]}
    out.append({"ops": many + [{"op": "raw", "t": 2.0, "msg": usual}, {"op": "raw", "t": 2.1, "msg": dict(usual, mid=0x7201, code=2)}],
                "net": {}})
    return out


def spec_to_ref(m):
    return {"type": m["type"], "code": m["code"], "mid": m["mid"], "token": bytes.fromhex(m["token"]),
            "options": [(n, bytes.fromhex(v)) for n, v in m["options"]], "payload": bytes.fromhex(m["payload"])}


def valid_utf8(b):
    try:
        b.decode("utf8")
        return True
    except UnicodeDecodeError:
        return False


def sem(num, val):
    """value semantics of an option for comparison: the RFC 7252/7641/7959/7967 options by the table above; options
    those RFCs do not define follow the library's own declaration (a library may treat an extension option as uint)"""
    if num in UINT_OPTS or num in BLOCK_OPTS or num in (12, 17):
        return ("u", int.from_bytes(val, "big"))
    if num in STRING_OPTS:
        return ("s", val)
    if num in OPAQUE_OPTS or num == 5:
        return ("o", val)
    try:
        from aiocoap.numbers.optionnumbers import OptionNumber
        from aiocoap import optiontypes
        fmt_ = OptionNumber(num).format
        if issubclass(fmt_, (optiontypes.UintOption, optiontypes.BlockOption, optiontypes.ContentFormatOption)):
            return ("u", int.from_bytes(val, "big"))
    except Exception:
        pass
    return ("o", val)


class Client(ScriptedEndpoint):
    def handle(self, msg, src, data):
        if msg is not None and msg["type"] == rc.CON and msg["code"] >= 64:
            self.send(src, msg={"type": rc.ACK, "code": 0, "mid": msg["mid"], "token": b"", "options": [], "payload": b""})


def execute(sim, scn):
    import aiocoap
    import aiocoap.resource as resource
    import aiocoap.transports.udp6 as udp6
    from aiocoap import Message, error
    from aiocoap.numbers.optionnumbers import OptionNumber
    from aiocoap.numbers.codes import Code

    loop = sim.loop
    fg = faults.fate_gen(scn.get("net", {}))
    value_type_errors = []
    parser_exc = []   # exceptions other than UnparsableMessage leaving Message.decode in the receive path
    decoded = []      # (pos, data, snapshot or None)
    dispatched = []   # (pos, snapshot, roundtrip_ok, detail)
    sent = []         # (wire index, snapshot, values)
    handler_saw = []

    def snapshot(msg):
        pl = msg.payload.encode("utf8") if isinstance(msg.payload, str) else bytes(msg.payload)
        return (int(msg.mtype) if msg.mtype is not None else None, int(msg.code), msg.mid, bytes(msg.token),
                [(int(o.number), bytes(o.encode())) for o in msg.opt.option_list()], pl)

    RealMessage = udp6.Message

    class DecodeProxy:
        """stands in for the name `Message` inside the UDP receive path"""

        @staticmethod
        def decode(data, remote=None):
            try:
                m = RealMessage.decode(data, remote)
            except error.UnparsableMessage:
                decoded.append((len(sim.events), bytes(data), None))
                raise
            except BaseException as e:
                parser_exc.append((bytes(data), e))
                decoded.append((len(sim.events), bytes(data), None))
                raise
            decoded.append((len(sim.events), bytes(data), snapshot(m)))
            # the VALUES the application gets, not only their serialisation: text for string options, integers for
            # uint options, (num, more, szx) for block options
            try:
                wire_opts = rc.decode(bytes(data))["options"]
            except rc.FormatError:
                wire_opts = None
            for oi, o in enumerate(m.opt.option_list()):
                num, raw = int(o.number), bytes(o.encode())
                v = getattr(o, "value", None)
                exp = None
                if num in OPAQUE_OPTS or num in UNKNOWN_OPTS:
                    # opaque options and options the library has no business knowing: the bytes of the datagram, as bytes
                    # (whatever else in the process may have been told about that number)
                    if wire_opts is not None and oi < len(wire_opts) and wire_opts[oi][0] == num:
                        exp = bytes(wire_opts[oi][1])
                elif num in STRING_OPTS:
                    exp = raw.decode("utf8") if valid_utf8(raw) else None
                elif num in UINT_OPTS or num in (12, 17):
                    exp = int.from_bytes(raw, "big")
                elif num in BLOCK_OPTS:
                    exp = rc.block_value(raw) if len(raw) <= 3 else None
                    if exp is not None and v is not None:
                        v = (v.block_number, bool(v.more), v.size_exponent)
                        exp = (exp[0], bool(exp[1]), exp[2])
                if exp is not None and (type(v) is not type(exp) and not (isinstance(v, int) and isinstance(exp, int)) or v != exp):
                    value_type_errors.append({"datagram": bytes(data).hex()[:160], "option": num, "got": repr(v)[:60],
                                              "expected": repr(exp)[:60]})
            return m

        def __getattr__(self, name):
            return getattr(RealMessage, name)

    sim._patch(udp6, "Message", DecodeProxy())

    class Any(resource.Resource):
        async def _do(self, request):
            handler_saw.append(snapshot(request) + (tuple(request.remote.sockaddr[:2]),))
            return Message(payload=b"ok")

        render_get = render_post = render_put = render_delete = render_fetch = render_patch = render_ipatch = _do

    async def setup():
        site = resource.Site()
        site.add_resource([], Any())
        site.add_resource(["p"], Any())
        s = await sim.server(site, common.SERVER_IP)
        c = await sim.client(common.CLIENT_IP)
        return s, c

    server, client = loop.run_until_complete(setup())
    srv = (common.SERVER_IP, 5683)
    me = sim.local_addr(client)
    # observers on both real contexts
    for ctx in (server, client):
        tm = ctx.request_interfaces[0]
        mm = tm.token_interface
        mi = mm.message_interface

        def wrap_send(mi=mi):
            orig = mi.send

            def send(message):
                try:
                    snap = snapshot(message)
                    vals = [(int(o.number), getattr(o, "value", None)) for o in message.opt.option_list()]
                except Exception as e:  # observer trouble must not look like library behaviour
                    sim.loop.harness_errors.append("snapshot in send wrapper: %r" % e)
                    snap = vals = None
                idx = len(sim.net.wire)
                orig(message)
                if len(sim.net.wire) > idx and snap is not None:
                    sent.append((idx, snap, vals))
            mi.send = send

        def wrap_dispatch(mm=mm):
            orig = mm.dispatch_message

            def dispatch_message(message):
                try:
                    snap = snapshot(message)
                except Exception as e:
                    sim.loop.harness_errors.append("snapshot in dispatch wrapper: %r" % e)
                    return orig(message)
                ok, detail = True, None
                try:
                    enc_src = message.copy() if False else message
                    # re-encode what was parsed and parse it again
                    saved = enc_src.direction
                    enc_src.direction = type(saved).OUTGOING
                    try:
                        raw = enc_src.encode()
                    finally:
                        enc_src.direction = saved
                    again = RealMessage.decode(raw, message.remote)
                    if snapshot(again) != snap:
                        ok, detail = False, {"first": repr(snap)[:300], "second": repr(snapshot(again))[:300]}
                except Exception as e:
                    ok, detail = False, {"exception": repr(e)}
                dispatched.append((len(sim.events), snap, ok, detail))
                return orig(message)
            mm.dispatch_message = dispatch_message

        wrap_send()
        wrap_dispatch()
        mi._ctx = mm  # the transport calls self._ctx.dispatch_message

        class Ctx:
            pass

    # the transport holds a reference to the manager object, whose attribute we replaced: fine (instance attribute)
    peer = Client(sim, common.PEER_IPS[0], 5683)
    raw_sent = []  # (t, data, intact ref msg or None, corrupted?)
    tracker = common.Tracker(sim)

    def send_raw(data, ref, corrupted):
        raw_sent.append((loop.now, data, ref, corrupted))
        peer.send(srv, raw=data, fate=["deliver", 0.005])

    def do_raw(op):
        ref = spec_to_ref(op["msg"])
        try:
            data = rc.encode(ref)
        except (ValueError, AssertionError):
            return
        if len(data) > 1400:
            return
        if op.get("corrupt"):
            data2 = apply_corruption(data, op["corrupt"])
            send_raw(data2, None, True)
        else:
            send_raw(data, ref, False)

    def do_api(i, op):
        m = op["msg"]
        msg = Message(code=Code(m["code"]), payload=bytes.fromhex(m["payload"]),
                      transport_tuning=aiocoap.Unreliable() if m["type"] == rc.NON else None)
        for n, v in m["options"]:
            raw = bytes.fromhex(v)
            if n in (3, 7, 35, 39, 23, 27, 6, 258):
                continue  # would redirect / start block-wise or observe machinery; not what this check is about
            if n > 65535:
                continue  # not a CoAP option number; such a message is not representable on the wire
            if n in STRING_OPTS and not valid_utf8(raw):
                continue
            msg.opt.add_option(OptionNumber(n).create_option(decode=raw))
        msg.set_request_uri("coap://[%s]/p" % common.SERVER_IP, set_uri_host=False) if False else None
        msg.remote = aiocoap.message.UndecidedRemote("coap", "[%s]" % common.SERVER_IP)
        msg.opt.uri_path = ("p",) + tuple(msg.opt.uri_path)
        tracker.start("api%d" % i, client, msg, handle_blockwise=False)
        sim.probe("api_round_trip")

    def do_build(i, op):
        """An application builds a message step by step and serialises it more than once (as the library itself does
        for retransmissions and block-wise transfers): the bytes must be those of the message as it stands."""
        m = op["msg"]
        if m["code"] == 0:
            return
        msg = Message(code=Code(m["code"]), payload=bytes.fromhex(m["payload"]), _mid=m["mid"], _token=bytes.fromhex(m["token"]),
                      _mtype=m["type"])
        model = []  # [(number, raw)] in the order added
        sim.probe("built_with_history")

        def expected():
            return rc.encode({"type": m["type"], "code": m["code"], "mid": m["mid"], "token": bytes.fromhex(m["token"]),
                              "options": sorted(model, key=lambda o: o[0]), "payload": bytes.fromhex(m["payload"])})

        def encode_and_compare(stepno):
            ident = {"op": i, "step": stepno, "options": [(n, v.hex()[:24]) for n, v in model][:12]}
            try:
                exp = expected()
            except (ValueError, AssertionError):
                return True
            try:
                got = msg.encode()
            except Exception as e:
                sim.violation("C01/representable-message-not-serialisable", dict(ident, error=repr(e)[:200]))
                return False
            if got != exp:
                sim.violation("C01/serialisation-depends-on-history", dict(ident, got=got.hex()[:200], expected=exp.hex()[:200]))
                return False
            return True

        for stepno, st in enumerate(op["steps"]):
            if st[0] == "add":
                n, raw = st[1], bytes.fromhex(st[2])
                if n > 65535 or (n in STRING_OPTS and not valid_utf8(raw)):
                    continue
                msg.opt.add_option(OptionNumber(n).create_option(decode=raw))
                # the model keeps what the option object itself serialises to (a uint given non-minimally is
                # re-encoded minimally: same value)
                model.append((n, bytes(list(msg.opt.get_option(OptionNumber(n)))[-1].encode())))
            elif st[0] == "del":
                msg.opt.delete_option(OptionNumber(st[1]) if st[1] <= 65535 else st[1])
                model[:] = [o for o in model if o[0] != st[1]]
            elif st[0] == "encode":
                if not encode_and_compare(stepno):
                    return
            elif st[0] == "list":
                got = [(int(o.number), bytes(o.encode())) for o in msg.opt.option_list()]
                if got != sorted(model, key=lambda o: o[0]):
                    sim.violation("C01/option-list-depends-on-history", {"op": i, "step": stepno, "got": repr(got)[:300],
                                                                         "expected": repr(sorted(model, key=lambda o: o[0]))[:300]})
                    return
            elif st[0] == "eq":
                msg.opt == msg.opt
            elif st[0] == "key":
                try:
                    msg.get_cache_key()
                except Exception:
                    pass
        if not encode_and_compare(len(op["steps"])):
            return
        # and what the bytes parse back to is the same message with the options in the same order
        try:
            back = RealMessage.decode(msg.encode())
        except Exception as e:
            sim.violation("C01/own-serialisation-not-parsed", {"op": i, "error": repr(e)[:200]})
            return
        if snapshot(back)[1:] != snapshot(msg)[1:] or int(back.mtype) != m["type"]:
            sim.violation("C01/round-trip-after-history-not-lossless", {"op": i, "built": repr(snapshot(msg))[:300],
                                                                        "parsed": repr(snapshot(back))[:300]})

    for i, op in enumerate(scn["ops"]):
        if len((op.get("msg") or {}).get("options") or []) > 1024:
            sim.probe("more_than_1024_options")
        if op["op"] == "raw":
            loop.at(op["t"], do_raw, op)
        elif op["op"] == "build":
            loop.at(op["t"], do_build, i, op)
        elif op["op"] == "rawbytes":
            loop.at(op["t"], send_raw, bytes.fromhex(op["hex"]), None, True)
        else:
            loop.at(op["t"], do_api, i, op)
    t_end = max([op["t"] for op in scn["ops"]] + [0.0])
    en = scn.get("enumerate")
    if en:
        ref = spec_to_ref(en["msg"])
        try:
            data = rc.encode(ref)
        except ValueError:
            data = rc.encode(dict(ref, options=[]))
        t = 0.1
        if en["what"] == "flips":
            sim.probe("all_bit_flips")
            for bit in range(len(data) * 8):
                t += 0.002
                loop.at(t, send_raw, apply_corruption(data, ["flip", bit]), None, True)
        else:
            sim.probe("all_truncations")
            for n in range(len(data)):
                t += 0.002
                loop.at(t, send_raw, data[:n], None, True)
            for pos in range(0, len(data) + 1, max(1, len(data) // 16)):
                t += 0.002
                loop.at(t, send_raw, apply_corruption(data, ["insert", pos, 0xFF]), None, True)
                t += 0.002
                loop.at(t, send_raw, apply_corruption(data, ["insert", pos, 0x00]), None, True)
        t_end = t
        sim.extra_faults = {"corrupt": len(data) * 8 if en["what"] == "flips" else len(data)}
    ncorrupt = sum(1 for op in scn["ops"] if op.get("corrupt") or op["op"] == "rawbytes")
    if ncorrupt and not en:
        sim.extra_faults = {"corrupt": ncorrupt}
    # liveness probe after all faults
    probe_token = b"\x4c\x49\x56\x45"
    loop.at(t_end + 1.0, lambda: peer.send(srv, msg={"type": rc.CON, "code": rc.GET, "mid": 0x7777, "token": probe_token,
                                                       "options": [(rc.URI_PATH, b"p")], "payload": b""}))
    if fg is not None:
        def gen_fate(r, entry):
            if entry["src"] == peer.addr and entry["msg"] is not None and entry["msg"]["token"] == probe_token:
                return ["deliver", 0.005]
            if entry["dst"] in (srv, me):
                return fg(r, entry)
            return ["deliver", 0.005]
        sim.net.fate_gen = gen_fate

    sim.run(horizon=t_end + 400.0)

    wire = sim.net.wire
    # ---- (a) everything aiocoap emitted
    for (idx, snap, vals) in sent:
        e = wire[idx]
        data = e["data"]
        ident = {"t": e["t"], "datagram": data.hex()[:160]}
        mtype, code, mid, token, opts, payload = snap
        if len(token) > 8:
            # outside the statement's domain (0-8 byte tokens): the library accepted a datagram with TKL 9-15 and
            # echoes its token.  Counted, not gated.
            sim.anomaly("token-longer-than-8-bytes-emitted", data.hex()[:60])
            continue
        try:
            ref = rc.decode(data)
        except rc.FormatError as fe:
            sim.violation("C01/emitted-datagram-not-rfc7252", dict(ident, error=str(fe)))
            continue
        if (ref["type"], ref["code"], ref["mid"], ref["token"], ref["options"], ref["payload"]) != \
                (mtype, code, mid, token, opts, payload):
            sim.violation("C01/emitted-datagram-differs-from-message", dict(ident, message=repr(snap)[:300],
                                                                            wire=rc.summary(ref)[:300]))
            continue
        if rc.encode(ref) != data:
            sim.violation("C01/emitted-datagram-not-canonical", dict(ident, canonical=rc.encode(ref).hex()[:160]))
            continue
        # independent value encodings for options of known format
        for (num, raw), (num2, val) in zip(opts, vals):
            if val is None:
                continue
            exp = None
            if num in UINT_OPTS and isinstance(val, int):
                exp = rc.uint_bytes(int(val))
            elif num in (12, 17) and isinstance(val, int):
                exp = rc.uint_bytes(int(val))
            elif num in STRING_OPTS and isinstance(val, str):
                exp = val.encode("utf8")
            elif num in BLOCK_OPTS and isinstance(val, tuple):
                exp = rc.block_bytes(val[0], val[1], val[2])
            if exp is not None and exp != raw:
                sim.violation("C01/option-value-encoding", dict(ident, option=num, got=raw.hex(), expected=exp.hex()))
        for num, raw in opts:
            if num not in KNOWN:
                sim.probe("unknown_option")
        nums = [n for n, _ in opts]
        if len(set(nums)) < len(nums):
            sim.probe("repeated_option")
        last = 0
        for n, raw in opts:
            d = n - last
            last = n
            if 13 <= d < 269:
                sim.probe("delta_13")
            if d >= 269:
                sim.probe("delta_269")
            if 13 <= len(raw) < 269:
                sim.probe("length_13")
            if len(raw) >= 269:
                sim.probe("length_269")
        if payload == b"\xff":
            sim.probe("payload_ff")
    for d in value_type_errors[:1]:
        sim.violation("C01/parsed-option-value-of-wrong-type-or-value", d)
    # ---- exceptions leaving the parser
    for (data, e) in parser_exc:
        sim.violation("C01/parser-raised-%s" % type(e).__name__, {"datagram": data.hex()[:200], "error": str(e)[:200]})
        break
    # (exceptions raised further up while a datagram is being processed -- message layer, handlers -- are not the
    # parser's; they are counted)
    for (t, m, en_, es) in sim.loop_exceptions():
        sim.anomaly("loop-exception:%s" % en_, "%s %s" % (m, es))
    # ---- (b) / (c) everything that was parsed
    by_data = {}
    for (pos, data, snap) in decoded:
        by_data.setdefault(data, []).append(snap)
    for (t, data, ref, corrupted) in raw_sent:
        snaps = by_data.get(data)
        if snaps is None:
            continue  # never delivered (network fault) or altered on the way
        snap = snaps[0]
        ident = {"datagram": data.hex()[:200]}
        try:
            r2 = rc.decode(data)
        except rc.FormatError:
            r2 = None
        if r2 is None:
            sim.probe("corrupted_dropped" if snap is None else "corrupted_dispatched")
            sim.nontrivial = True
            continue  # (c): dropped or parsed; the parsed case is checked through the round trip below
        if corrupted:
            sim.nontrivial = True
        bad_utf8 = any(n in STRING_OPTS and not valid_utf8(v) for n, v in r2["options"])
        if snap is None:
            if bad_utf8:
                continue
            sim.violation("C01/well-formed-datagram-rejected", dict(ident, parsed=rc.summary(r2)[:300]))
            continue
        mtype, code, mid, token, opts, payload = snap
        got = (mtype, code, mid, token, [(n,) + sem(n, v) for n, v in opts], payload)
        exp = (r2["type"], r2["code"], r2["mid"], r2["token"], [(n,) + sem(n, v) for n, v in r2["options"]], r2["payload"])
        if got != exp:
            sim.violation("C01/parsed-fields-differ-from-rfc-reading", dict(ident, got=repr(got)[:300], expected=repr(exp)[:300]))
    for (pos, snap, ok, detail) in dispatched:
        if not ok:
            sim.violation("C01/parsed-message-does-not-round-trip", detail)
            break
    # ---- API round trip: what the handler saw equals what the application gave
    for i, op in enumerate(scn["ops"]):
        if op["op"] != "api":
            continue
        rec = tracker.results.get("api%d" % i)
        if rec is None:
            continue
        given = rec["msg"]
        try:
            gs = (int(given.code), [(int(o.number), bytes(o.encode())) for o in given.opt.option_list()], bytes(given.payload))
        except Exception as e:  # the application's own message cannot be looked at any more: the library's tables are off
            sim.violation("C01/application-message-options-unreadable", {"error": repr(e)[:200]})
            continue
        # the handler sees the path with the matched part ("p") removed: compare apart from Uri-Path
        gopts = [(n, v) for (n, v) in gs[1] if n != 11]
        seen = [h for h in handler_saw if h[3] == bytes(given.token) and h[2] == given.mid and h[6] == me]
        onwire = [e for e in wire if e["src"] == me and e["msg"] is not None and e["msg"]["token"] == bytes(given.token)]
        if not seen or any(e["fate"][0] == "corrupt" for e in onwire):
            continue  # lost or corrupted on the way
        h = seen[0]
        hopts = [(n, v) for (n, v) in h[4] if n != 11]
        if (h[1], hopts, h[5]) != (gs[0], gopts, gs[2]):
            sim.violation("C01/api-round-trip-not-lossless", {"given": repr((gs[0], gopts, gs[2]))[:300],
                                                              "seen": repr((h[1], hopts, h[5]))[:300]})
    # ---- the endpoint is still alive
    answered = [e for e in wire if e["src"] == srv and e["dst"] == peer.addr and e["msg"] is not None
                and e["msg"]["token"] == probe_token and e["msg"]["code"] >= 64]
    if answered:
        sim.probe("alive_after_faults")
    else:
        sim.violation("C01/endpoint-dead-after-faults", {})
