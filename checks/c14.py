"""C14 -- NSTART=1: one open confirmable exchange per peer, FIFO backlog, none forgotten."""

from simkit import refcodec as rc
from simkit import faults
from simkit.net import ScriptedEndpoint, fmt
from . import common
from .common import TOL

PROPERTY = "C14"
LEVEL = "exploration"
SUPPORTS_V4 = True  # scenarios with "v4": true run over IPv4-mapped addresses (see common.set_family)
RUNS = {"quick": 3500, "thorough": 40000}
RULE = ("seeded scenarios: a real client submits 3-15 requests (CON/NON mix, by URI) to 2-3 scripted peers in short "
        "intervals; per request the peer reacts with ACK, ACK + later separate response, piggybacked response, RST or "
        "silence after a chosen delay, or with the response overtaking the ACK/RST (or no ACK at all); some messages "
        "cannot be serialised when their turn comes; ICMP errors per remote and (separate configuration) failing sendmsg calls are "
        "injected while a backlog exists; systematic: all orderings of {ACK, RST, silence, ICMP} over three queued "
        "CONs. Non-trivial = a backlog of depth >= 1 formed or a fault fired; distinct = distinct event-sequence hash.")
COMPONENTS_REAL = ["aiocoap.messagemanager", "aiocoap.tokenmanager", "aiocoap.protocol", "aiocoap.pipe",
                   "aiocoap.transports.udp6", "aiocoap.util.asyncio.recvmsg", "aiocoap.message"]
COMPONENTS_STUB = ["UDP socket (SimSocket) incl. error queue", "scripted peers (reference codec)", "event loop clock (virtual)",
                   "module random of messagemanager (jitter draw recorded)"]
ASSUMPTIONS = ["message IDs are assigned at submission, which gives an independent handle on submission order",
               "an exchange ends when an ACK/RST with its MID from its remote is delivered, when its retransmissions are "
               "exhausted, or when a transport error for the remote is delivered"]
EXPECTED_PROBES = ["request_submitted_from_inside_an_errback", "server_originated_con", "backlog_depth_1", "backlog_depth_3", "release_after_ack", "release_after_rst", "flush_by_giveup",
                   "flush_by_icmp", "non_while_blocked", "other_remote_while_blocked", "unsendable_message", "response_before_exchange_end", "request_cancelled_by_application", "garbage_collected_mid_run", "application_callback_raised"]

REACTIONS = ["ack", "ack_sep", "piggy", "rst", "silent"]


def gen(r, tier):
    npeers = r.choice([2, 2, 3])
    ops = []
    t = 0.0
    n = r.randint(3, 15)
    burst = r.chance(0.6)
    for i in range(n):
        t += 0.0 if (burst and r.chance(0.7)) else r.choice([0.0, 0.01, 0.1, 0.5, 2.0])
        peer = 0 if r.chance(0.6) else r.randrange(npeers)
        ops.append({"op": "req", "t": round(t, 4), "peer": peer, "con": r.chance(0.75),
                    "react": r.weighted([(5, "ack"), (2, "ack_sep"), (2, "piggy"), (2, "rst"), (2, "silent"),
                                         (1, "sep_rst"), (1, "sep_ack"), (1, "sep_only")]),
                    "delay": r.choice([0.005, 0.005, 0.05, 0.3, 1.0, 2.5]),
                    "mr": r.choice([0, 1, 2, 4]), "ato": r.choice([0.2, 0.5, 2.0])})
        if ops[-1]["con"] and ((ops[-1]["react"] == "piggy" and r.chance(0.5)) or (ops[-1]["react"] in ("rst", "silent") and r.chance(0.3))):
            # the application's own code fails when it is handed the outcome (it asked to observe, the answer says the
            # resource is not observable, the error callback it registered raises): the application's problem -- the
            # exchange is over all the same and the messages waiting behind it move up
            ops[-1]["raiser"] = True
        if r.chance(0.06):
            # a message that cannot be put on the wire (the transport's send() raises): when its turn comes it fails,
            # and the queue behind it must move on exactly as if it had never been there
            ops[-1]["bad"] = True
    if r.chance(0.4):
        # the peer also asks the endpoint for a slow resource: the separate (confirmable) response competes for the
        # same NSTART slot as the endpoint's own requests to that peer
        for _ in range(r.randint(1, 3)):
            ops.append({"op": "srv", "t": round(r.uniform(0, max(0.5, t)), 4), "peer": 0 if r.chance(0.6) else r.randrange(npeers),
                        "d": r.choice([0.15, 0.3, 1.0]), "react": r.weighted([(5, "ack"), (2, "rst"), (2, "silent")]),
                        "delay": r.choice([0.005, 0.05, 0.3, 1.0]), "mr": r.choice([0, 1, 2]), "ato": r.choice([0.2, 0.5])})
    if r.chance(0.3):
        for _ in range(r.randint(1, 2)):
            ops.append({"op": "icmp", "t": round(r.uniform(0, t + 3), 4), "peer": r.randrange(npeers),
                        "errno": r.choice([111, 113])})
    if r.chance(0.3):
        # the application loses interest in some of its requests (a task waiting for the response is cancelled):
        # possibly while the message is still held back, possibly while its exchange is open
        reqs = [o for o in ops if o["op"] == "req"]
        for _ in range(r.randint(1, 3)):
            o = r.choice(reqs)
            ops.append({"op": "cancel", "t": round(o["t"] + r.choice([0.0, 0.001, 0.02, 0.1, 0.4]), 4), "of_t": o["t"],
                        "nth": r.randrange(4)})
    ops.sort(key=lambda o: o["t"])
    if r.chance(0.25):
        # re-entrancy: the application reacts to the failure (or the 'not observable' outcome) of a request from inside
        # the callback that tells it, by submitting the next confirmable request to the same peer right there
        parents = [i for i, o in enumerate(ops) if o["op"] == "req" and not o.get("raiser") and not o.get("bad")]
        for i in r.sample(parents, min(len(parents), r.randint(1, 2))):
            ops.append({"op": "req", "t": ops[i]["t"], "peer": ops[i]["peer"], "con": r.chance(0.85), "child_of": i,
                        "react": r.weighted([(5, "ack"), (2, "piggy"), (1, "silent"), (1, "rst")]),
                        "delay": r.choice([0.005, 0.05, 0.3]), "mr": r.choice([0, 1, 2]), "ato": r.choice([0.2, 0.5])})
    # the garbage collector (off otherwise) runs at these instants; the application forgets finished requests
    gc_at = sorted(round(r.uniform(0, t + 3), 3) for _ in range(r.choice([0, 0, 2, 5, 12])))
    return {"npeers": npeers, "ops": ops, "senderr": round(r.uniform(0.02, 0.15), 3) if r.chance(0.12) else 0,
            "same_host": r.chance(0.3), "v4": r.chance(0.15), "gc_at": gc_at}


def systematic(tier):
    out = []
    kinds = ["ack", "rst", "silent", "icmp"]
    import itertools
    for combo in itertools.product(kinds, repeat=3):
        ops = []
        for i, k in enumerate(combo):
            ops.append({"op": "req", "t": 0.0, "peer": 0, "con": True, "react": "silent" if k == "icmp" else k,
                        "delay": 0.2, "mr": 1, "ato": 0.5})
        ops.append({"op": "req", "t": 0.0, "peer": 0, "con": False, "react": "silent", "delay": 0.005, "mr": 1, "ato": 0.5})
        ops.append({"op": "req", "t": 0.0, "peer": 1, "con": True, "react": "ack", "delay": 0.005, "mr": 1, "ato": 0.5})
        for i, k in enumerate(combo):
            if k == "icmp":
                ops.append({"op": "icmp", "t": 0.1 + 0.35 * i, "peer": 0, "errno": 111})
        out.append({"npeers": 2, "ops": ops, "senderr": 0})
        if combo == ("ack", "ack", "ack"):
            # the same with the collector running between every two steps
            out.append({"npeers": 2, "ops": [dict(o) for o in ops] + [{"op": "req", "t": 0.3, "peer": 0, "con": True, "react": "ack", "delay": 0.2,
                                                                     "mr": 1, "ato": 0.5}],
                        "senderr": 0, "gc_at": [round(0.05 * i, 3) for i in range(1, 40)]})
    # cancelled while held back: which of the queued requests, and what is submitted afterwards
    for which in (1, 2):
        for n_queued in (1, 2):
            for late in (0.05, 0.5):
                ops = [{"op": "req", "t": 0.0, "peer": 0, "con": True, "react": "ack", "delay": 0.3, "mr": 2, "ato": 0.5}]
                ops += [{"op": "req", "t": 0.01, "peer": 0, "con": True, "react": "piggy", "delay": 0.05, "mr": 2, "ato": 0.5}
                        for _ in range(n_queued)]
                ops.append({"op": "cancel", "t": 0.03, "of_t": 0.01, "nth": which - 1})
                ops.append({"op": "req", "t": late, "peer": 0, "con": True, "react": "ack", "delay": 0.05, "mr": 2, "ato": 0.5})
                ops.sort(key=lambda o: o["t"])
                out.append({"npeers": 2, "ops": ops, "senderr": 0})
    return out


class Peer(ScriptedEndpoint):
    def __init__(self, sim, ip, port, plan):
        super().__init__(sim, ip, port)
        self.plan = plan  # tag -> op
        self.seen = set()

    def handle(self, msg, src, data):
        if msg is None:
            return
        if msg["type"] == rc.CON and msg["code"] >= 64:
            # a separate response to one of this peer's own requests (token 0x5A, tag)
            tok = msg["token"]
            if len(tok) == 2 and tok[0] == 0x5A:
                key = ("srv", tok[1], msg["mid"])
                if key in self.seen:
                    return
                self.seen.add(key)
                op = self.plan.get(tok[1])
                if op is None or op["react"] == "silent":
                    return
                typ = rc.RST if op["react"] == "rst" else rc.ACK
                self.send(src, msg={"type": typ, "code": 0, "mid": msg["mid"], "token": b"", "options": [], "payload": b""},
                          fate=["deliver", op["delay"]])
            return
        if not (1 <= msg["code"] < 32):
            return
        path = rc.opt1(msg, rc.URI_PATH)
        if path is None or not path.startswith(b"t"):
            return
        tag = int(path[1:])
        if tag in self.seen:
            return
        self.seen.add(tag)
        op = self.plan.get(tag)
        if op is None:
            return
        react, delay = op["react"], op["delay"]
        if msg["type"] == rc.NON:
            if react in ("piggy", "ack_sep"):
                self.send(src, msg={"type": rc.NON, "code": rc.CONTENT, "mid": self.next_mid(), "token": msg["token"],
                                    "options": [], "payload": b"n%d" % tag}, fate=["deliver", delay])
            return
        if react in ("sep_rst", "sep_ack", "sep_only"):
            # the response overtakes the acknowledgement (or the ACK was lost): the request is complete while its
            # exchange is still open; the exchange then ends by RST / ACK / time-out like any other
            self.send(src, msg={"type": rc.NON, "code": rc.CONTENT, "mid": self.next_mid(), "token": msg["token"],
                                "options": [], "payload": b"s%d" % tag}, fate=["deliver", delay])
            if react != "sep_only":
                self.send(src, msg={"type": rc.RST if react == "sep_rst" else rc.ACK, "code": 0, "mid": msg["mid"],
                                    "token": b"", "options": [], "payload": b""}, fate=["deliver", delay + 0.3])
            self.sim.probe("response_before_exchange_end")
            return
        if react == "silent":
            return
        if react == "rst":
            m = {"type": rc.RST, "code": 0, "mid": msg["mid"], "token": b"", "options": [], "payload": b""}
        elif react == "piggy":
            m = {"type": rc.ACK, "code": rc.CONTENT, "mid": msg["mid"], "token": msg["token"], "options": [],
                 "payload": b"p%d" % tag}
        else:
            m = {"type": rc.ACK, "code": 0, "mid": msg["mid"], "token": b"", "options": [], "payload": b""}
        self.send(src, msg=m, fate=["deliver", delay])
        if react == "ack_sep":
            self.send(src, msg={"type": rc.NON, "code": rc.CONTENT, "mid": self.next_mid(), "token": msg["token"],
                                "options": [], "payload": b"s%d" % tag}, fate=["deliver", delay + 0.5])


def execute(sim, scn):
    from aiocoap import Message, GET, error
    from aiocoap.numbers.constants import Unreliable

    loop = sim.loop
    if scn.get("senderr"):
        p = scn["senderr"]
        sim.gens["senderr"] = lambda r: (r.choice([101, 1]) if r.chance(p) else 0)

    import asyncio
    import aiocoap.resource as resource

    submitted = []  # (t, tag, peer, con)

    class SlowRes(resource.Resource):
        async def render_get(self, request):
            tag = request.token[1]
            op = scn["ops"][tag]
            await asyncio.sleep(op["d"])
            # handing the response over is the submission of a confirmable message towards that peer
            submitted.append((loop.now, tag, op["peer"], True))
            sim.log("app", "srv-response", tag)
            return Message(payload=b"slow%d" % tag,
                           transport_tuning=common.make_tuning({"ACK_TIMEOUT": op["ato"], "MAX_RETRANSMIT": op["mr"]}))

    async def setup():
        site = resource.Site()
        site.add_resource(["slow"], SlowRes())
        return await sim.server(site, common.CLIENT_IP)

    client = loop.run_until_complete(setup())
    me = sim.local_addr(client)
    # a message the transport cannot serialise never reaches the socket: note the attempt (it has consumed a
    # retransmission-jitter draw like any other first transmission of a CON)
    mi = client.request_interfaces[0].token_interface.message_interface
    mi_send = mi.send

    def noting_send(message):
        try:
            return mi_send(message)
        except Exception:
            sim.log("net", "unsendable", int(message.mtype), message.mid)
            raise
    mi.send = noting_send
    plans = [dict() for _ in range(scn["npeers"])]
    tracker = common.Tracker(sim)
    for tag, op in enumerate(scn["ops"]):
        if op["op"] in ("req", "srv"):
            plans[op["peer"]][tag] = op
    if scn.get("same_host"):
        # the peers are processes on one host (one IP address, different ports): still different endpoints
        peers = [Peer(sim, common.PEER_IPS[0], 5683 + i, plans[i]) for i in range(scn["npeers"])]
        sim.probe("peers_share_a_host")
    else:
        peers = [Peer(sim, common.PEER_IPS[i], 5683, plans[i]) for i in range(scn["npeers"])]

    def submit(tag, op):
        spec = {"ACK_TIMEOUT": op["ato"], "MAX_RETRANSMIT": op["mr"]}
        tun = common.make_tuning(spec) if op["con"] else common.make_tuning(spec, base=Unreliable)
        msg = Message(code=GET, uri="coap://[%s]:%d/t%d" % (peers[op["peer"]].addr[0], peers[op["peer"]].addr[1], tag), transport_tuning=tun)
        if op.get("bad"):
            msg.payload = "text, not bytes: cannot be serialised"
            sim.probe("unsendable_message")
        children = [(ct, co) for ct, co in enumerate(scn["ops"]) if co.get("child_of") == tag and co["op"] == "req"]
        if op.get("raiser") or children:
            msg.opt.observe = 0
        rec = tracker.start(tag, client, msg, handle_blockwise=False)
        if children and not op.get("raiser"):
            def resubmit(_e, children=children):
                while children:
                    ct, co = children.pop(0)
                    sim.probe("request_submitted_from_inside_an_errback")
                    submit(ct, co)
            rec["req"].observation.register_errback(resubmit)
            rec["req"].observation.register_callback(lambda _m: None)
        if op.get("raiser"):
            def raiser(_):
                sim.probe("application_callback_raised")
                raise RuntimeError("application callback fails")
            rec["req"].observation.register_errback(raiser)
            rec["req"].observation.register_callback(raiser)
        submitted.append((loop.now, tag, op["peer"], op["con"]))
        if scn.get("gc_at"):
            # the application keeps nothing of a request once it has its outcome: request, message and response objects
            # become garbage (cyclic garbage: freed when the collector runs, which the scenario schedules)
            def forget(f, rec=rec):
                rec["response_code"] = str(rec["response"].code) if rec.get("response") is not None else None
                rec["req"] = rec["msg"] = None
                rec.pop("response", None)
            rec["req"].response.add_done_callback(forget)
        del rec, msg

    import gc

    def collect():
        sim.probe("garbage_collected_mid_run")
        gc.collect()
    for tg in scn.get("gc_at") or []:
        loop.at(tg, collect)
    icmps = []
    for tag, op in enumerate(scn["ops"]):
        if op["op"] == "req" and op.get("child_of") is not None:
            pass  # submitted from its parent's errback
        elif op["op"] == "req":
            loop.at(op["t"], submit, tag, op)
        elif op["op"] == "srv":
            if tag < 256:
                sim.probe("server_originated_con")
                peers[op["peer"]].send_at(op["t"], me, msg={
                    "type": rc.CON, "code": rc.GET, "mid": 0x6000 + tag, "token": bytes([0x5A, tag]),
                    "options": [(rc.URI_PATH, b"slow")], "payload": b""}, fate=["deliver", 0.005])
        elif op["op"] == "cancel":
            def do_cancel(op=op):
                cands = [t for t, o in enumerate(scn["ops"]) if o["op"] == "req" and o["t"] == op["of_t"] and t in tracker.results]
                if cands:
                    rec = tracker.results[cands[op["nth"] % len(cands)]]
                    if not rec["done"]:
                        sim.probe("request_cancelled_by_application")
                        sim.log("app", "cancel", rec["tag"])
                        rec["req"].response.cancel()
            loop.at(op["t"], do_cancel)
        else:
            def do_icmp(op=op):
                icmps.append((loop.now, op["peer"]))
                sim.net.icmp(me, peers[op["peer"]].addr, op["errno"])
            loop.at(op["t"], do_icmp)

    sim.run()

    wire = sim.net.wire
    # first transmissions of requests from the client, by tag
    first_tx = {}
    all_tx = {}
    uniform = [d for d in sim.draws["mm"].log if d[0] == "uniform"]
    def tag_of(m):
        """scenario op a message of the endpoint belongs to: own requests by path, separate responses by token"""
        if 1 <= m["code"] < 32:
            return int(rc.opt1(m, rc.URI_PATH)[1:])
        if m["code"] >= 64 and m["type"] == rc.CON and len(m["token"]) == 2 and m["token"][0] == 0x5A:
            return m["token"][1]
        return None

    for e in wire:
        if e["src"] != me or e["msg"] is None:
            continue
        tag = tag_of(e["msg"])
        if tag is None:
            continue
        all_tx.setdefault(tag, []).append(e)
        if tag not in first_tx:
            first_tx[tag] = e
    # which jitter draw belongs to which exchange: walk the event log; every first transmission attempt of a CON
    # (successful -> 'tx', failed sendmsg -> 'senderr') consumed one draw, in this order
    draw_of = {}
    di = 0
    seen_mids = set()
    for ev in sim.events:
        if ev[1] == "tx" and ev[2].startswith(fmt(me) + ">"):
            data = bytes.fromhex(ev[4])
        elif ev[1] == "net" and ev[2] == "senderr" and ev[3] == fmt(me):
            data = bytes.fromhex(ev[6])
        elif ev[1] == "net" and ev[2] == "unsendable":
            if ev[3] == rc.CON and (ev[4],) not in seen_mids:
                seen_mids.add((ev[4],))
                di += 1
            continue
        else:
            continue
        try:
            m = rc.decode(data)
        except rc.FormatError:
            continue
        if m["type"] != rc.CON:
            continue
        key = (ev[2] if ev[1] == "tx" else ev[4], m["mid"])
        key = (m["mid"],)
        if key in seen_mids:
            continue
        seen_mids.add(key)
        d = uniform[di] if di < len(uniform) else None
        di += 1
        if ev[1] == "tx" and tag_of(m) is not None:
            draw_of[tag_of(m)] = d
    senderrs = [(ev[0], ev[4]) for ev in sim.events if ev[1] == "net" and ev[2] == "senderr"]  # (t, dst str)
    # positions in the event log give the order of things that happen in the same instant
    txpos = {}
    flushpos = []  # (pos, t, remote str)
    for pos, ev in enumerate(sim.events):
        if ev[1] == "tx":
            txpos[(ev[2], ev[3])] = pos
        elif ev[1] == "net" and ev[2] == "senderr" and ev[3] == fmt(me):
            flushpos.append((pos, ev[0], ev[4]))
        elif ev[1] == "icmp-inject" and ev[2] == fmt(me):
            flushpos.append((pos, ev[0], ev[3]))

    for pi, peer in enumerate(peers):
        R = peer.addr
        flushes = sorted([t for (t, p) in icmps if p == pi] + [t for (t, d) in senderrs if d == fmt(R)])
        subs = [(t, tag, con) for (t, tag, p, con) in submitted if p == pi]
        cons = [(t, tag) for (t, tag, con) in subs if con]
        # exchange intervals of transmitted CONs
        ex = []
        for (s, tag) in cons:
            e0 = first_tx.get(tag)
            if e0 is None:
                continue
            mid = e0["msg"]["mid"]
            op = scn["ops"][tag]
            d = draw_of.get(tag)
            ends = []
            for (t, e, data) in common.deliveries_to(wire, me):
                if e["src"] != R:
                    continue
                try:
                    am = rc.decode(data)
                except rc.FormatError:
                    continue
                if am["type"] in (rc.ACK, rc.RST) and am["mid"] == mid and t >= e0["t"] - TOL:
                    ends.append((t, "rst" if am["type"] == rc.RST else "ack"))
                    break
            txs = [x["t"] for x in all_tx[tag]]
            if d is not None:
                g = d[3]
                # give-up: timer armed by the last possible copy
                tt = e0["t"]
                for i in range(op["mr"] + 1):
                    tt = tt + g * 2 ** i
                ends.append((tt, "giveup"))
            p0 = txpos[(e0["link"], e0["idx"])]
            for (fp, ft, fr) in flushpos:
                if fr == fmt(R) and fp > p0:
                    ends.append((ft, "flush"))
                    break
            ends.sort()
            end = ends[0] if ends else (float("inf"), "never")
            ex.append({"tag": tag, "s": s, "tx": e0["t"], "end": end[0], "how": end[1], "mid": mid, "pos": p0})
        ex.sort(key=lambda x: x["pos"])  # order of first transmission (event log position; message IDs wrap around)
        # (a) never two open at once
        for a, b in zip(ex, ex[1:]):
            if b["tx"] < a["end"] - TOL:
                sim.violation("C14/two-open-exchanges", {"remote": fmt(R), "first": a, "second": b})
                break
        # (b) submission order
        order_tx = [x["tag"] for x in ex]
        order_sub = [tag for (s, tag) in cons if tag in first_tx]
        if order_tx != order_sub:
            sim.violation("C14/release-order", {"remote": fmt(R), "transmitted": order_tx, "submitted": order_sub})
        else:
            # (c) release instant
            depth = 0
            for i, x in enumerate(ex):
                prev_end = ex[i - 1]["end"] if i else float("-inf")
                expected = max(x["s"], prev_end)
                if x["s"] < prev_end - TOL:
                    depth += 1
                    sim.probe("backlog_depth_1")
                    if depth >= 3:
                        sim.probe("backlog_depth_3")
                    sim.probe({"ack": "release_after_ack", "rst": "release_after_rst"}.get(ex[i - 1]["how"], "release_other"))
                else:
                    depth = 0
                if abs(x["s"] - prev_end) <= TOL:
                    continue  # submission and end of the previous exchange in the same instant: tie
                if abs(x["tx"] - expected) > TOL:
                    sim.violation("C14/release-time", {"remote": fmt(R), "tag": x["tag"], "tx": x["tx"],
                                                      "expected": expected, "submitted": x["s"],
                                                      "previous_end": prev_end, "previous_how": ex[i - 1]["how"] if i else None})
                    break
        # (d) none forgotten
        for (s, tag) in cons:
            if tag in first_tx:
                continue
            if scn["ops"][tag]["op"] == "srv":
                # a held-back separate response has no request object to fail; it may only vanish together with
                # everything else for that peer (give-up of the exchange ahead, transport error)
                causes = [x for x in ex if x["how"] in ("giveup", "flush") and x["end"] >= s - TOL] + \
                         [f for f in flushes if f >= s - TOL]
                if not causes:
                    sim.violation("C14/held-back-message-forgotten", {"remote": fmt(R), "tag": tag, "submitted": s,
                                                                      "what": "separate response"})
                continue
            rec = tracker.results[tag]
            if rec.get("outcome") == "cancelled":
                continue  # the application itself gave the request up: nobody is left to be told
            if scn["ops"][tag].get("bad"):
                if not rec["done"]:
                    sim.violation("C14/unsendable-message-forgotten", {"remote": fmt(R), "tag": tag, "submitted": s})
                elif rec["outcome"] != "error":
                    sim.violation("C14/unsendable-message-wrong-outcome", {"remote": fmt(R), "tag": tag})
                continue
            if not rec["done"]:
                sim.violation("C14/held-back-message-forgotten", {"remote": fmt(R), "tag": tag, "submitted": s})
            elif rec["outcome"] == "error" and isinstance(rec["exception"], AssertionError) and \
                    "reentered" in str(rec["exception"]) and scn["ops"][tag].get("child_of") is not None:
                # submitted from inside an errback that ran inside a failing sendmsg(): the udp6 transport refuses to be
                # re-entered with an assertion, which becomes the request's outcome (not a library error)
                sim.violation("C14/request-submitted-inside-failing-send-fails-with-assertion",
                              {"remote": fmt(R), "tag": tag, "exc": repr(rec.get("exception"))})
            elif rec["outcome"] != "error" or not isinstance(rec["exception"], error.NetworkError):
                sim.violation("C14/held-back-request-wrong-failure", {"remote": fmt(R), "tag": tag,
                                                                     "outcome": rec["outcome"], "exc": repr(rec.get("exception"))})
            else:
                # it must have been waiting behind something that failed
                td = rec["t_done"]
                blockers = [x for x in ex if x["how"] in ("giveup", "flush") and abs(x["end"] - td) <= TOL]
                sender = [f for f in flushes if abs(f - td) <= TOL]
                if blockers:
                    sim.probe("flush_by_giveup" if blockers[0]["how"] == "giveup" else "flush_by_icmp")
                elif not sender:
                    sim.violation("C14/held-back-request-failed-without-cause", {"remote": fmt(R), "tag": tag,
                                                                                "exc": repr(rec["exception"])})
        # (e) NONs are never delayed
        for (s, tag, con) in subs:
            if con:
                continue
            if tracker.results[tag].get("outcome") == "cancelled" and tag not in first_tx:
                continue
            if scn["ops"][tag].get("bad"):
                rec = tracker.results[tag]
                if not (rec["done"] and rec["outcome"] == "error"):
                    sim.violation("C14/unsendable-message-wrong-outcome", {"remote": fmt(R), "tag": tag})
                continue
            e0 = first_tx.get(tag)
            blocked = any(x["tx"] <= s + TOL and x["end"] > s + TOL for x in ex)
            if blocked:
                sim.probe("non_while_blocked")
            if e0 is None:
                rec = tracker.results[tag]
                if not (rec["done"] and rec["outcome"] == "error" and any(abs(f - s) <= TOL for f in flushes)):
                    sim.violation("C14/non-request-not-transmitted", {"remote": fmt(R), "tag": tag})
            elif abs(e0["t"] - s) > TOL:
                sim.violation("C14/non-request-delayed", {"remote": fmt(R), "tag": tag, "tx": e0["t"], "submitted": s})
    # other remotes never delayed: covered per remote by (c) since expected is computed per remote only
    blocked_remotes = 0
    for (s, tag, p, con) in submitted:
        if con and tag in first_tx and abs(first_tx[tag]["t"] - s) <= TOL:
            others = [q for (s2, t2, q, c2) in submitted if q != p and c2 and t2 in first_tx and
                      first_tx[t2]["t"] <= s + TOL]
            if others:
                blocked_remotes += 1
    if blocked_remotes:
        sim.probe("other_remote_while_blocked")
    if any(True for _ in senderrs):
        sim.extra_faults = {"senderr": len(senderrs)}
    for (t, m, en, es) in sim.loop_exceptions():
        sim.anomaly("loop-exception:%s" % en, "%s %s" % (m, es))
