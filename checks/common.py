"""Helpers shared by the UDP based checks."""

from simkit import refcodec as rc
from simkit.net import fmt

SERVER_IP = "fd00::1"
CLIENT_IP = "fd00::2"
PEER_IPS = ["fd00::10", "fd00::11", "fd00::12", "fd00::13"]
ADV_IP = "fd00::66"

_V6 = {"SERVER_IP": SERVER_IP, "CLIENT_IP": CLIENT_IP, "PEER_IPS": PEER_IPS, "ADV_IP": ADV_IP}
_V4 = {"SERVER_IP": "::ffff:10.0.0.1", "CLIENT_IP": "::ffff:10.0.0.2",
       "PEER_IPS": ["::ffff:10.0.1.%d" % (0x10 + i) for i in range(8)], "ADV_IP": "::ffff:10.0.0.66"}


def set_family(v4):
    """The runner calls this before every run: scenarios with "v4": true use IPv4-mapped addresses (the udp6 transport
    serves IPv4 through its dual-stack socket).  Checks must read the addresses as `common.X` at run time."""
    globals().update(_V4 if v4 else _V6)

EPS = 1e-6
TOL = 1e-9


def make_tuning(spec, base=None):
    """Build a TransportTuning instance from {'ACK_TIMEOUT':..,...}."""
    from aiocoap.numbers.constants import TransportTuning

    if not spec:
        return None
    values = {k: v for k, v in spec.items() if not k.startswith("_")}
    if spec.get("_style") == "instance":
        # the values live on the object, not on its class (t = TransportTuning(); t.ACK_TIMEOUT = ...)
        obj = (base or TransportTuning)()
        for k, v in values.items():
            setattr(obj, k, v)
        return obj
    if spec.get("_style") == "init":
        def __init__(self):
            for k, v in values.items():
                setattr(self, k, v)
        return type("SimTuning", (base or TransportTuning,), {"__init__": __init__})()
    cls = type("SimTuning", (base or TransportTuning,), values)
    return cls()


def tuning_values(spec):
    d = {"ACK_TIMEOUT": 2.0, "ACK_RANDOM_FACTOR": 1.5, "MAX_RETRANSMIT": 4}
    d.update({k: v for k, v in (spec or {}).items() if not k.startswith("_")})
    d["MAX_TRANSMIT_WAIT"] = d["ACK_TIMEOUT"] * (2 ** (d["MAX_RETRANSMIT"] + 1) - 1) * d["ACK_RANDOM_FACTOR"]
    return d


class Tracker:
    """Records the outcome of application level requests."""

    def __init__(self, sim):
        self.sim = sim
        self.results = {}  # tag -> dict

    def start(self, tag, ctx, msg, handle_blockwise=False, observe_cb=None):
        req = ctx.request(msg, handle_blockwise=handle_blockwise)
        rec = {"tag": tag, "t_start": self.sim.loop.now, "done": 0, "req": req, "msg": msg}
        self.results[tag] = rec
        fut = req.response

        def done(f, rec=rec):
            rec["done"] += 1
            rec["t_done"] = self.sim.loop.now
            if f.cancelled():
                rec["outcome"] = "cancelled"
            elif f.exception() is not None:
                rec["outcome"] = "error"
                rec["exception"] = f.exception()
            else:
                rec["outcome"] = "response"
                rec["response"] = f.result()
            self.sim.log("app", "done", tag, rec["outcome"],
                         type(rec.get("exception")).__name__ if rec.get("exception") is not None else
                         (str(rec["response"].code) if rec.get("response") is not None else None))

        if asyncio_isfuture(fut):
            fut.add_done_callback(done)
        else:
            # BlockwiseRequest.response is a future as well
            fut.add_done_callback(done)
        self.sim.log("app", "start", tag)
        return rec


def asyncio_isfuture(f):
    import asyncio

    return asyncio.isfuture(f)


def con_groups(wire, src):
    """Group CON transmissions sent from `src` by (dst, mid) -> list of entries,
    splitting when the same (dst, mid) is reused after a long time is not
    attempted (MIDs are sequential; reuse needs 65536 messages)."""
    groups = {}
    order = []
    for e in wire:
        if e["src"] != src or e["forged"]:
            continue
        m = e["msg"]
        if m is None or m["type"] != rc.CON:
            continue
        k = (e["dst"], m["mid"])
        if k not in groups:
            groups[k] = []
            order.append(k)
        groups[k].append(e)
    return [(k, groups[k]) for k in order]


def deliveries_to(wire, dst, pred=None):
    """Yield (t_delivered, entry, data) for every datagram copy delivered to dst."""
    out = []
    for e in wire:
        if e["dst"] != dst:
            continue
        for (t, copy, had_target, data) in e["deliveries"]:
            if not had_target:
                continue
            d = data if data is not None else e["data"]
            out.append((t, e, d))
    out.sort(key=lambda x: (x[0], x[1]["n"]))
    return out


def hexs(b):
    return b.hex() if b is not None else None
