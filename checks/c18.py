"""C18 -- shutdown at any moment fails pending work and leaves nothing running."""

import hashlib

from simkit import refcodec as rc
from simkit.net import ScriptedEndpoint, fmt
from simkit.world import Sim
from . import common
from .common import TOL

PROPERTY = "C18"
LEVEL = "fault_enumeration"
USES_AIOCOAP_NET = False  # the check builds one nested simulation per shutdown instant itself
RUNS = {"quick": 300, "thorough": 4000}
BUDGET = {"quick": 95, "thorough": 3000}
RULE = ("each seeded busy scenario (target context with requests awaiting ACK, awaiting a separate response, mid "
        "block-wise transfer in both directions, active observations on both sides, queued NSTART backlog, pending "
        "empty-ACK timers, unexpired de-duplication entries, requests over TCP awaiting their response, a TCP client's "
        "request being handled; a second context in the same process with its own "
        "traffic) is first run without shutdown to collect its event boundaries (every distinct instant at which the "
        "target context sent, received or was called), then re-run once per boundary with Context.shutdown() started "
        "just before the events of that instant (as a task, or with shutdown()'s synchronous part executed in the same loop "
        "iteration as the instant's datagram deliveries; from inside one of the context's own request handlers; by a "
        "task that is cancelled right after shutdown's first step) and just after them (quick: 10 sampled points per scenario, thorough: all) "
        "and drained to quiescence. evaluations counts scenario runs; shutdown_points_enumerated counts the nested runs. "
        "Non-trivial = at least one piece of work was outstanding at the shutdown instant; distinct = distinct hash of "
        "(scenario shape, set of outstanding-work kinds at the shutdown instants).")
COMPONENTS_REAL = ["aiocoap.transports.tcp (client and server role)", "aiocoap.protocol.Context.shutdown", "aiocoap.tokenmanager", "aiocoap.messagemanager",
                   "aiocoap.transports.udp6", "aiocoap.util.asyncio.recvmsg", "aiocoap.protocol (Request, BlockwiseRequest, "
                   "ClientObservation)", "aiocoap.resource", "aiocoap.blockwise", "aiocoap.pipe"]
COMPONENTS_STUB = ["TCP streams (SimStreamNet)", "UDP socket (SimSocket)", "scripted peers (reference codec)", "event loop clock (virtual)"]
ASSUMPTIONS = ["the network is fault-free in these scenarios: the fault under study is the shutdown instant",
               "a loop exception counts against the context only if the same scenario without shutdown has none",
               "SHUTDOWN_TIMEOUT is 3 s"]
EXPECTED_PROBES = ["awaiting_ack", "awaiting_separate_response", "mid_blockwise", "client_observation", "server_observation",
                   "backlog_queued", "handler_running", "empty_ack_timer_pending", "dedup_entries", "nothing_outstanding",
                   "awaiting_tcp_response", "tokens_65536_later", "observation_cancelled_by_application", "request_received_on_multicast", "application_errback_raised"]

OTHER_IP = "fd00::3"
ACTIVITIES = ["t_req_silent", "t_req_acked", "t_backlog", "t_get_big", "t_put_big", "t_observe", "s_req_slow",
              "s_observe", "s_req_fast", "o_req", "t_backlog_acked", "s_token_reuse", "t_req_tcp", "s_req_tcp", "t_req_cancel",
              "t_many_tokens", "t_obs_cancel", "s_req_mcast", "t_obs_raiser"]


def gen(r, tier):
    acts = []
    for a in ACTIVITIES:
        if r.chance(0.55):
            acts.append({"a": a, "t": round(r.uniform(0.0, 1.0), 3), "d": r.choice([0.05, 0.099, 0.101, 0.3, 0.8])})
    if not acts:
        acts.append({"a": "s_req_slow", "t": 0.1, "d": 0.3})
    acts.append({"a": "o_req", "t": round(r.uniform(0.0, 2.0), 3), "d": 0.2})
    changes = sorted(round(r.uniform(0.5, 3.0), 3) for _ in range(r.randint(0, 4)))
    return {"acts": acts, "changes": changes, "boundaries": "sample:%d" % (20 if tier == "quick" else 100000),
            "bseed": r.randrange(1 << 30)}


def systematic(tier):
    out = []
    for a in ACTIVITIES:
        for d in (0.05, 0.3):
            out.append({"acts": [{"a": a, "t": 0.1, "d": d}, {"a": "o_req", "t": 0.2, "d": 0.2}], "changes": [0.6, 1.1],
                        "boundaries": "all" if tier == "thorough" else "sample:12", "bseed": 1})
    out.append({"acts": [{"a": a, "t": 0.1 + 0.01 * i, "d": 0.3} for i, a in enumerate(ACTIVITIES)], "changes": [0.5, 0.9, 1.4],
                "boundaries": "all" if tier == "thorough" else "sample:25", "bseed": 2})
    return out


def shrink(scn):
    acts = scn["acts"]
    if len(acts) > 1:
        for i in range(len(acts)):
            c = dict(scn)
            c["acts"] = acts[:i] + acts[i + 1:]
            yield c
    if scn.get("changes"):
        c = dict(scn)
        c["changes"] = []
        yield c


class Peer(ScriptedEndpoint):
    """silent for /silent, ACK-only for /acked, piggyback after a delay for /echo"""

    def handle(self, msg, src, data):
        if msg is None or not (1 <= msg["code"] < 32):
            return
        path = rc.opt1(msg, rc.URI_PATH) or b""
        if path == b"acked" and msg["type"] == rc.CON:
            self.send(src, msg={"type": rc.ACK, "code": 0, "mid": msg["mid"], "token": b"", "options": [], "payload": b""})
        elif path == b"echo":
            self.send(src, msg={"type": rc.ACK if msg["type"] == rc.CON else rc.NON, "code": rc.CONTENT, "mid": msg["mid"],
                                "token": msg["token"], "options": [], "payload": b"echo"}, fate=["deliver", 0.2])


class SClient(ScriptedEndpoint):
    """scripted client of the target context: acknowledges CON responses / notifications"""

    def handle(self, msg, src, data):
        if msg is not None and msg["type"] == rc.CON and msg["code"] >= 64:
            self.send(src, msg={"type": rc.ACK, "code": 0, "mid": msg["mid"], "token": b"", "options": [], "payload": b""})


def run_world(scn, shutdown_at, seed):
    """One nested simulation. shutdown_at: None (baseline) or (time, after_flag)."""
    import asyncio
    from simkit.world import import_aiocoap
    import_aiocoap()
    import aiocoap
    import aiocoap.resource as resource
    from aiocoap import Message, GET, PUT, error

    sim = Sim(seed)
    sim.install()
    obs = {"violations": [], "kinds_outstanding": set()}
    try:
        loop = sim.loop
        handlers = []  # dict: started, ended, how
        sd = {"t_start": None, "t_return": None, "after": None, "snapshot": None}

        class Slow(resource.Resource):
            async def render_get(self, request):
                q = dict(x.split("=", 1) for x in request.opt.uri_query)
                rec = {"t0": loop.now, "t1": None, "how": None}
                handlers.append(rec)
                try:
                    await asyncio.sleep(float(q.get("d", "0.3")))
                    rec["how"] = "completed"
                    return Message(payload=b"slow")
                except asyncio.CancelledError:
                    rec["how"] = "cancelled"
                    raise
                finally:
                    rec["t1"] = loop.now

        class Fast(resource.Resource):
            async def render_get(self, request):
                return Message(payload=b"fast")

        class Quit(resource.Resource):
            """the application shuts its context down from one of the context's own request handlers"""

            async def render_get(self, request):
                quit_hook[0]()
                await the_target[0].shutdown()
                sd["t_return"] = loop.now
                return Message(payload=b"bye")

        quit_hook = [lambda: None]
        the_target = [None]

        class Big(resource.Resource):
            async def render_get(self, request):
                return Message(payload=b"B" * 3000)

            async def render_put(self, request):
                return Message(payload=b"got %d" % len(request.payload))

        class Counter(resource.ObservableResource):
            def __init__(self):
                super().__init__()
                from .c08 import OrderedSet
                if isinstance(self._observations, set):
                    self._observations = OrderedSet()
                self.state = 0

            async def render_get(self, request):
                return Message(payload=b"s=%d" % self.state)

            def change(self):
                self.state += 1
                self.updated_state()

        class OSlow(resource.Resource):
            """a handler of the OTHER context that takes its time (one of them is always in progress)"""

            async def render_get(self, request):
                await asyncio.sleep(0.9)
                return Message(payload=b"oslow")

        tcounter, ocounter = Counter(), Counter()

        async def setup():
            tsite = resource.Site()
            tsite.add_resource(["slow"], Slow())
            tsite.add_resource(["fast"], Fast())
            tsite.add_resource(["quit"], Quit())
            tsite.add_resource(["counter"], tcounter)
            osite = resource.Site()
            osite.add_resource(["big"], Big())
            osite.add_resource(["counter"], ocounter)
            osite.add_resource(["oslow"], OSlow())
            # the target context also speaks CoAP over TCP, as a client and as a server
            await tcp_listener.start()
            T = await aiocoap.Context.create_server_context(tsite, bind=(common.SERVER_IP, 5683),
                                                            transports=["udp6", "tcpclient", "tcpserver"],
                                                            loggername="coap-target", multicast=[("ff02::fd", "sim1")])
            sim.contexts.append(T)
            for ri in T.request_interfaces:
                order_tcp_pools(ri)
            O = await sim.server(osite, OTHER_IP, loggername="coap-other")
            return T, O

        from simkit.stream import SimStreamNet, TcpPeer, TcpPeerListener, order_tcp_pools, split_frames
        sn = SimStreamNet(sim)
        loop.streamnet = sn
        TCP_PEER_IP = "fd00::20"
        CSM = rc.tcp_encode({"code": rc.CSM, "token": b"", "options": [], "payload": b""})

        def tcp_server_peer(n):
            # scripted CoAP-over-TCP server: CSM at once, then silence for /silent and an answer after 0.6 s for /late
            answered = set()

            def on_data(p, d):
                frames, _ = split_frames(p.rx)
                for (a, b, m, err) in frames:
                    if m is not None and m["code"] == rc.RELEASE and p.is_open:
                        # RFC 8323 5.5: the receiver of a Release closes the connection -- after finishing what it has
                        # in flight (which may arrive at the releasing side after its shutdown() has returned)
                        loop.after(close_delay, lambda: p.is_open and p.close())
                        # ... and it may still want to know whether the other side is alive
                        loop.after(close_delay / 2, lambda: p.is_open and p.send({"code": rc.PING, "token": b"\x70", "options": [],
                                                                                 "payload": b""}))
                    if m is None or not (1 <= m["code"] < 32) or m["token"] in answered:
                        continue
                    answered.add(m["token"])
                    if rc.opt1(m, rc.URI_PATH) == b"late":
                        loop.after(0.6, lambda m=m: p.is_open and p.send({"code": rc.CONTENT, "token": m["token"], "options": [],
                                                                          "payload": b"late"}))
            return TcpPeer(sim, "tcp-peer#%d" % n, on_data=on_data,
                           on_event=lambda p, k, i: p.write(CSM) if k == "made" else None)

        close_delay = 1.0
        SLOW_TCP_IP = "fd00::21"  # a host that swallows connection attempts: connecting takes half a minute to fail
        sn.connect_fault = lambda index, h, port: (["delay", 30.0] if h == SLOW_TCP_IP else None)
        tcp_listener = TcpPeerListener(sim, TCP_PEER_IP, 5683, tcp_server_peer)
        tcp_clients = []
        T, O = loop.run_until_complete(setup())
        the_target[0] = T
        taddr = (common.SERVER_IP, 5683)
        peer = Peer(sim, common.PEER_IPS[0], 5683)
        peer2 = Peer(sim, common.PEER_IPS[1], 5683)
        sclient = SClient(sim, common.PEER_IPS[2], 5683)
        ttrack = common.Tracker(sim)
        otrack = common.Tracker(sim)
        tobs = {"cb": [], "err": []}
        n = [0]

        def t_request(tag, msg, blockwise=False):
            ttrack.start(tag, T, msg, handle_blockwise=blockwise)

        def act(a):
            k = a["a"]
            n[0] += 1
            tag = "%s#%d" % (k, n[0])
            if k == "t_req_silent":
                t_request(tag, Message(code=GET, uri="coap://[%s]/silent" % peer.addr[0]))
            elif k == "t_req_acked":
                t_request(tag, Message(code=GET, uri="coap://[%s]/acked" % peer2.addr[0]))
            elif k == "t_backlog":
                for j in range(3):
                    t_request(tag + ".%d" % j, Message(code=GET, uri="coap://[%s]/silent?%d" % (peer.addr[0], j)))
            elif k == "t_backlog_acked":
                # a queue that moves: each request is acknowledged (empty ACK, with the default network delay) and so
                # lets the next one out
                for j in range(3):
                    t_request(tag + ".%d" % j, Message(code=GET, uri="coap://[%s]/acked?%d" % (peer2.addr[0], j)))
            elif k == "t_req_cancel":
                # the application gives up on a request of its own (cancels the response future) -- possibly in the very
                # instant the context is shut down
                rec = ttrack.start(tag, T, Message(code=GET, uri="coap://[%s]/silent?c" % peer.addr[0]), handle_blockwise=False)

                def cancel(rec=rec, tag=tag):
                    sim.log("app", "cancel", tag)
                    if not rec["req"].response.done():
                        rec["req"].response.cancel()
                loop.at(loop.now + a["d"], cancel)
            elif k == "t_many_tokens":
                # a context that has been in use for long: between a request that stays open (acknowledged, the
                # separate response never comes) and a few more requests to the same peer, 65533 tokens are handed out
                # (TokenManager.next_token() is the public way to reserve one), so that 16 bits of a counter come round
                t_request(tag + ".open", Message(code=GET, uri="coap://[%s]/acked?long" % peer2.addr[0]))

                def later(tag=tag):
                    sim.probe("tokens_65536_later")
                    tman = T.request_interfaces[0]
                    for _ in range(65533):
                        tman.next_token()
                    for j in range(3):
                        t_request(tag + ".e%d" % j, Message(code=GET, uri="coap://[%s]/echo?%d" % (peer2.addr[0], j)))
                loop.at(loop.now + a["d"], later)
            elif k == "t_obs_cancel":
                # the application cancels an observation of its own (ClientObservation.cancel(), the documented way
                # while callbacks are in use) before the first response has come -- the request itself is still open
                for bw in (False, True):
                    msg = Message(code=GET, uri="coap://[%s]/silent?o%d" % (peer.addr[0], int(bw)), observe=0)
                    rec = ttrack.start(tag + (".bw" if bw else ".plain"), T, msg, handle_blockwise=bw)
                    rec["req"].observation.register_errback(lambda e: None)

                    def cancel_obs(rec=rec):
                        sim.probe("observation_cancelled_by_application")
                        if not rec["req"].observation.cancelled:
                            rec["req"].observation.cancel()
                    loop.at(loop.now + a["d"], cancel_obs)
            elif k == "t_obs_raiser":
                # the application's own error callback fails when it is told about the end of its observation: its
                # problem -- everything else that is outstanding still ends, and shutdown completes
                msg = Message(code=GET, uri="coap://[%s]/silent?raiser" % peer.addr[0], observe=0)
                rec = ttrack.start(tag + ".obs", T, msg, handle_blockwise=False)

                def raiser(e):
                    sim.probe("application_errback_raised")
                    raise RuntimeError("application callback fails")
                rec["req"].observation.register_errback(raiser)
                for j in range(2):
                    t_request(tag + ".after%d" % j, Message(code=GET, uri="coap://[%s]/silent?ar%d" % (peer2.addr[0], j)))
            elif k == "t_req_tcp":
                t_request(tag + ".silent", Message(code=GET, uri="coap+tcp://[%s]/silent" % TCP_PEER_IP))
                t_request(tag + ".late", Message(code=GET, uri="coap+tcp://[%s]/late" % TCP_PEER_IP))
            elif k == "s_req_tcp":
                # a scripted TCP client connects to the target's TCP server and asks for the slow resource
                def on_data_c(p, d):
                    frames, _ = split_frames(p.rx)
                    if any(m is not None and m["code"] == rc.RELEASE for (_a, _b, m, _e) in frames) and p.is_open:
                        loop.after(0.05, lambda: p.is_open and p.close())
                p = TcpPeer(sim, "tcp-client#%d" % n[0], on_data=on_data_c)
                tcp_clients.append(p)

                async def go(p=p, d=a["d"], tok=bytes([0x7C, n[0]])):
                    try:
                        await p.connect(common.SERVER_IP, 5683)
                    except OSError:
                        return  # the target's TCP server is closed already
                    p.write(CSM)
                    p.send({"code": rc.GET, "token": tok, "options": [(rc.URI_PATH, b"slow"), (rc.URI_QUERY, b"d=%r" % d)],
                            "payload": b""})
                loop.create_task(go())
            elif k == "t_get_big":
                t_request(tag, Message(code=GET, uri="coap://[%s]/big" % OTHER_IP), blockwise=True)
            elif k == "t_put_big":
                t_request(tag, Message(code=PUT, uri="coap://[%s]/big" % OTHER_IP, payload=b"P" * 3000), blockwise=True)
            elif k == "t_observe":
                msg = Message(code=GET, uri="coap://[%s]/counter" % OTHER_IP, observe=0)
                rec = ttrack.start(tag, T, msg, handle_blockwise=False)
                o = rec["req"].observation
                o.register_callback(lambda m: tobs["cb"].append(loop.now))
                o.register_errback(lambda e: tobs["err"].append((loop.now, e)))
                rec["observation"] = True
            elif k in ("s_req_slow", "s_req_fast"):
                path = b"slow" if k == "s_req_slow" else b"fast"
                sclient.send(taddr, msg={"type": rc.CON, "code": rc.GET, "mid": 0x5000 + n[0], "token": bytes([0x5C, n[0]]),
                                         "options": [(rc.URI_PATH, path), (rc.URI_QUERY, b"d=%r" % a["d"])], "payload": b""})
            elif k == "s_req_mcast":
                # a request that reaches the target on a multicast address ("All CoAP Nodes"): answered from its
                # unicast address, non-confirmably -- whenever the library chooses to send that answer
                sim.probe("request_received_on_multicast")
                sclient.send(("ff02::fd", 5683), msg={"type": rc.NON, "code": rc.GET, "mid": 0x5900 + n[0], "token": bytes([0x5B, n[0]]),
                                                      "options": [(rc.URI_PATH, b"fast"), (rc.URI_QUERY, b"d=%r" % a["d"])], "payload": b""})
            elif k == "s_token_reuse":
                # two confirmable requests on one token (different message IDs) in quick succession, both to a slow
                # handler: two empty-ACK timers are pending for one (remote, token)
                for j in range(2):
                    sclient.send(taddr, msg={"type": rc.CON, "code": rc.GET, "mid": 0x5800 + 2 * n[0] + j, "token": bytes([0x5E, n[0]]),
                                             "options": [(rc.URI_PATH, b"slow"), (rc.URI_QUERY, b"d=%r" % a["d"])], "payload": b""},
                                 fate=["deliver", 0.005 + 0.01 * j])
            elif k == "s_observe":
                sclient.send(taddr, msg={"type": rc.CON, "code": rc.GET, "mid": 0x5000 + n[0], "token": bytes([0x5D, n[0]]),
                                         "options": [(rc.OBSERVE, b""), (rc.URI_PATH, b"counter")], "payload": b""})
            elif k == "o_req":
                otrack.start(tag, O, Message(code=GET, uri="coap://[%s]/echo" % peer2.addr[0]))
                otrack.start(tag + ".late", O, Message(code=GET, uri="coap://[%s]/echo?late" % peer2.addr[0]))

        for a in scn["acts"]:
            loop.at(a["t"], act, a)
        for t in scn.get("changes", []):
            loop.at(t, tcounter.change)
            loop.at(t + 0.0005, ocounter.change)
        # the other context is a server, too, with work in progress at any instant: an observer of its counter and
        # a client whose requests to a slow resource overlap (non-confirmable: nothing to acknowledge)
        oclient = SClient(sim, common.PEER_IPS[3], 5699)
        oaddr = (OTHER_IP, 5683)
        loop.at(0.05, lambda: oclient.send(oaddr, msg={"type": rc.NON, "code": rc.GET, "mid": 0x6F00, "token": b"\x6f\x00",
                                                       "options": [(rc.OBSERVE, b""), (rc.URI_PATH, b"counter")], "payload": b""}))
        for j in range(13):
            loop.at(0.3 + 0.65 * j, lambda j=j: oclient.send(oaddr, msg={"type": rc.NON, "code": rc.GET, "mid": 0x6E00 + j,
                                                                       "token": bytes([0x6E, j]), "options": [(rc.URI_PATH, b"oslow")],
                                                                       "payload": b""}))
        # a request of the other context well after any shutdown instant
        loop.at(8.0, lambda: otrack.start("o_after", O, Message(code=GET, uri="coap://[%s]/echo?after" % peer2.addr[0])))

        if shutdown_at is not None:
            t_sd, after = shutdown_at

            def start_shutdown():
                sd["t_start"] = loop.now
                # what is outstanding right now
                tm = T.request_interfaces[0]
                mm = tm.token_interface
                snap = {"pending": [tag for tag, rec in ttrack.results.items() if not rec["done"]],
                        "handlers": [h for h in handlers if h["t1"] is None],
                        "piggyback": len(mm._piggyback_opportunities), "backlog": sum(len(v) for v in mm._backlogs.values()),
                        "exchanges": len(mm._active_exchanges), "dedup": len(mm._recent_messages),
                        "incoming": len(tm.incoming_requests), "outgoing": len(tm.outgoing_requests),
                        "wire_n": len(sim.net.wire), "exc_n": len(sim.loop.exceptions)}
                sd["snapshot"] = snap

                async def go():
                    try:
                        await T.shutdown()
                    except asyncio.CancelledError:
                        raise
                    except BaseException as e:
                        # shutdown() itself raised: reported as its own kind by the oracle
                        sd["raised"] = "%s: %s" % (type(e).__name__, e)
                        sim.log("app", "shutdown-raised", type(e).__name__)
                        return
                    sd["t_return"] = loop.now
                    sim.log("app", "shutdown-returned")
                    # a request submitted after shutdown has returned
                    rec = ttrack.start("after-shutdown", T, Message(code=GET, uri="coap://[%s]/echo" % peer2.addr[0]))
                    rec["submitted_after"] = loop.now
                    rec = ttrack.start("after-shutdown-tcp", T, Message(code=GET, uri="coap+tcp://[%s]/echo" % SLOW_TCP_IP))
                    rec["submitted_after"] = loop.now
                if after == 3:
                    return  # (the handler of /quit calls shutdown itself)
                if after == 4:
                    # whoever awaits shutdown() is cancelled right after shutdown's first step (an application task
                    # being torn down, wait_for with a time-out): the shutdown has to go through all the same
                    task = loop.create_task(go())
                    loop.call_soon(lambda: loop.call_soon(task.cancel))
                    keep_tasks.append(task)
                    return
                if after == 2:
                    # the synchronous part of shutdown() runs right here, i.e. in the same loop iteration as -- and
                    # before -- whatever the sockets deliver in this instant (the datagram "was already in the
                    # socket buffer when shutdown() was called")
                    keep_tasks.append(asyncio.Task(go(), loop=loop, eager_start=True))
                else:
                    loop.create_task(go())

            keep_tasks = []
            if after in (3, 4):
                # shutdown's return is not observed by anybody here: a request well after the time-out stands in
                def late_request():
                    if sd["t_return"] is None:
                        sd["t_return"] = sd["t_start"] + 3.0 if sd["t_start"] is not None else None
                    rec = ttrack.start("after-shutdown", T, Message(code=GET, uri="coap://[%s]/echo" % peer2.addr[0]))
                    rec["submitted_after"] = loop.now
                    rec = ttrack.start("after-shutdown-tcp", T, Message(code=GET, uri="coap+tcp://[%s]/echo" % SLOW_TCP_IP))
                    rec["submitted_after"] = loop.now
                loop.at(t_sd + 3.6, late_request)
            if after == 3:
                quit_hook[0] = start_shutdown
                loop.at(t_sd, lambda: sclient.send(taddr, msg={"type": rc.CON, "code": rc.GET, "mid": 0x5F01, "token": b"\x5f\x01",
                                                               "options": [(rc.URI_PATH, b"quit")], "payload": b""},
                                                   fate=["deliver", 0.0]))
            elif after == 1:
                # just after everything that happens in that instant: run as the last simulator event of the instant
                def arm():
                    loop.call_soon(lambda: loop.call_soon(start_shutdown))
                loop.at(t_sd, arm)
                # make sure it is sequenced behind deliveries scheduled later for the same instant
                loop.at(t_sd + 1e-9, lambda: None)
            else:
                loop.at(t_sd, start_shutdown)

        sim.run()

        tcp_writes = []  # (t, connection, side) of everything the target wrote on a TCP connection
        tcp_open = []
        for conn in sn.conns:
            # which side is the target? connections it opened (client side "c") go to TCP_PEER_IP; accepted ones come
            # from the scripted clients
            side, pipe = ("c", conn.c2s) if conn.saddr[0] == TCP_PEER_IP else ("s", conn.s2c)
            for (t, off, ln) in pipe.writes:
                tcp_writes.append((t, conn.name, ln))
            tr = conn.c if side == "c" else conn.s
            if tr is not None and not tr.is_closing():
                tcp_open.append(conn.name)
        result = {"tcp_writes": tcp_writes, "tcp_open": tcp_open, "events": sim.events, "wire": sim.net.wire, "sd": sd, "ttrack": ttrack, "otrack": otrack, "tobs": tobs,
                  "handlers": handlers, "exceptions": sim.loop_exceptions(), "taddr": taddr, "error": error,
                  "oserved": sorted((e["msg"]["token"].hex(), e["msg"]["code"], e["msg"]["payload"].hex()) for e in sim.net.wire
                                    if e["src"] == oaddr and e["dst"] == oclient.addr and e["msg"] is not None),
                  "now": loop.now, "digest": sim.digest(), "harness_errors": list(sim.loop.harness_errors)}
        return result
    finally:
        sim.close()


def boundaries_of(base):
    ts = set()
    tstr = fmt(base["taddr"])
    for ev in base["events"]:
        if ev[1] in ("tx", "rx") and tstr in ev[2]:
            ts.add(ev[0])
        elif ev[1] == "tcp" and ev[2] in ("write", "chunk", "connect"):
            ts.add(ev[0])
        elif ev[1] == "app":
            ts.add(ev[0])
    return sorted(t for t in ts if t <= 12.0)


def execute(sim, scn):
    from simkit.decide import KeyRnd

    seed = scn.get("run_seed", 0)
    base = run_world(scn, None, seed)
    if base["harness_errors"]:
        raise RuntimeError("harness error in baseline: " + base["harness_errors"][0])
    base_exc = [(m, en) for (t, m, en, es) in base["exceptions"]]
    pts = []
    import sys
    for t in boundaries_of(base):
        pts.append((t, 0))
        pts.append((t, 1))
        if sys.version_info >= (3, 12):
            pts.append((t, 2))
        pts.append((t, 3))
        pts.append((t, 4))
    sel = scn.get("boundaries", "all")
    if isinstance(sel, list):
        chosen = [(p[0], int(p[1])) for p in sel]
    elif sel == "all":
        chosen = pts
    else:
        k = int(sel.split(":")[1])
        r = KeyRnd(scn.get("bseed", 0) ^ seed)
        chosen = pts if len(pts) <= k else sorted(r.sample(pts, k))
    total_time = base["now"]
    total_dg = len(base["wire"])
    sig = hashlib.blake2b(digest_size=8)
    sig.update(repr(sorted(a["a"] for a in scn["acts"])).encode())
    sim.events.append((0.0, "baseline", base["digest"], len(pts)))
    n_outstanding = 0
    for (t_sd, after) in chosen:
        res = run_world(scn, (t_sd, after), seed)
        if res["harness_errors"]:
            raise RuntimeError("harness error in nested run: " + res["harness_errors"][0])
        total_time += res["now"]
        total_dg += len(res["wire"])
        sim.events.append((t_sd, "point", after, res["digest"]))
        kinds = judge(sim, scn, base, base_exc, res, t_sd, after)
        sig.update(repr(sorted(kinds)).encode())
        if kinds and kinds != {"nothing_outstanding"}:
            n_outstanding += 1
        if sim.violations and isinstance(sel, str):
            # pin the failing point for the replay file
            sim.scenario_patch = {"boundaries": [[t_sd, int(after)]]}
            break
    sim.extra_faults = {"shutdown_point": len(chosen)}
    sim.nontrivial = n_outstanding > 0
    sim.signature = sig.hexdigest()
    sim.sim_time_total = total_time
    sim.datagrams_total = total_dg


def judge(sim, scn, base, base_exc, res, t_sd, after):
    error = res["error"]
    sd = res["sd"]
    ident = {"shutdown_at": t_sd, "phase": ["before", "after", "same-iteration", "from-handler", "caller-cancelled"][int(after)]}
    kinds = set()
    if sd["t_start"] is None:
        return kinds  # the run ended before that instant
    snap = sd["snapshot"]
    if snap["exchanges"]:
        kinds.add("awaiting_ack")
    if snap["backlog"]:
        kinds.add("backlog_queued")
    if snap["piggyback"]:
        kinds.add("empty_ack_timer_pending")
    if snap["dedup"]:
        kinds.add("dedup_entries")
    if snap["handlers"]:
        kinds.add("handler_running")
    if snap["incoming"] and not snap["handlers"]:
        kinds.add("server_observation")
    for tag in snap["pending"]:
        if tag.startswith("t_req_tcp"):
            kinds.add("awaiting_tcp_response")
        if tag.startswith("t_req_acked") and not snap["exchanges"]:
            kinds.add("awaiting_separate_response")
        if tag.startswith("t_get_big") or tag.startswith("t_put_big"):
            kinds.add("mid_blockwise")
    if any(rec.get("observation") and rec["done"] and rec["outcome"] == "response" for rec in res["ttrack"].results.values()
           if rec["t_start"] <= sd["t_start"]) and not [e for e in res["tobs"]["err"] if e[0] < sd["t_start"]]:
        kinds.add("client_observation")
    if not kinds:
        kinds.add("nothing_outstanding")
    for k in kinds:
        sim.probe(k)
    ident["outstanding"] = sorted(kinds)
    # ---- shutdown completes, in time
    if sd.get("raised"):
        sim.violation("C18/shutdown-raises:%s" % sd["raised"].split(":")[0], dict(ident, error=sd["raised"][:200]))
        return kinds
    if sd["t_return"] is None:
        sim.violation("C18/shutdown-does-not-complete", ident)
        return kinds
    if sd["t_return"] - sd["t_start"] > 3.0 + 1e-6:
        sim.violation("C18/shutdown-exceeds-timeout", dict(ident, took=sd["t_return"] - sd["t_start"]))
    t_ret = sd["t_return"]
    # ---- outstanding client requests terminate with a library error
    for tag in snap["pending"]:
        rec = res["ttrack"].results[tag]
        # "within the shutdown time-out": a request that was still looking for its remote (name resolution, a TCP
        # connection being established) learns about the shutdown when that step ends
        if not rec["done"] or rec["t_done"] > sd["t_start"] + 3.0 + TOL:
            sim.violation("C18/request-not-terminated-by-shutdown", dict(ident, request=tag.split("#")[0], done=rec["done"]))
        elif rec["outcome"] == "error" and not isinstance(rec["exception"], error.Error):
            sim.violation("C18/request-failed-with-non-library-error", dict(ident, request=tag.split("#")[0],
                                                                          exc=repr(rec["exception"])))
    # observations of the target context as a client
    for tag, rec in res["ttrack"].results.items():
        if rec.get("observation") and rec["t_start"] <= sd["t_start"]:
            errs = res["tobs"]["err"]
            if rec["done"] and rec["outcome"] == "response":
                if not errs or errs[0][0] > t_ret + TOL:
                    sim.violation("C18/observation-not-terminated-by-shutdown", ident)
                elif not isinstance(errs[0][1], error.Error):
                    sim.violation("C18/observation-ended-with-non-library-error", dict(ident, exc=repr(errs[0][1])))
            late = [t for t in res["tobs"]["cb"] if t > t_ret + TOL]
            if late:
                sim.violation("C18/notification-delivered-after-shutdown", dict(ident, n=len(late)))
    # ---- running handlers are cancelled
    for h in snap["handlers"]:
        if h["t1"] is None or h["t1"] > t_ret + TOL:
            sim.violation("C18/handler-still-running-after-shutdown", dict(ident, ended=h["t1"]))
    # ---- nothing is transmitted after shutdown has returned
    taddr = res["taddr"]
    late = [e for e in res["wire"] if e["src"] == taddr and e["t"] > t_ret + TOL]
    if late:
        sim.violation("C18/transmission-after-shutdown", dict(ident, n=len(late), first=rc.summary(late[0]["msg"]) if late[0]["msg"] else None,
                                                            t=late[0]["t"]))
    late_tcp = [w for w in res["tcp_writes"] if w[0] > t_ret + TOL]
    if late_tcp:
        sim.violation("C18/tcp-write-after-shutdown", dict(ident, n=len(late_tcp), t=late_tcp[0][0], connection=late_tcp[0][1]))
    if res["tcp_open"]:
        sim.violation("C18/tcp-connection-left-open", dict(ident, connections=res["tcp_open"][:3]))
    # ---- no timer or callback raises
    if not base_exc:
        new_exc = res["exceptions"][snap["exc_n"]:]
        if new_exc:
            t, m, en, es = new_exc[0]
            sim.violation("C18/loop-exception-after-shutdown:%s" % en, dict(ident, t=t, message=m, text=es,
                                                                           after_return=t > t_ret + TOL))
    # ---- a request submitted afterwards fails immediately with the shutdown error
    for name, transport in (("after-shutdown", "udp"), ("after-shutdown-tcp", "tcp")):
        rec = res["ttrack"].results.get(name)
        idt = dict(ident, transport=transport)
        if rec is None or not rec["done"]:
            sim.violation("C18/request-after-shutdown-hangs", idt)
        elif rec["t_done"] - rec["submitted_after"] > TOL:
            sim.violation("C18/request-after-shutdown-not-immediate", dict(idt, delay=rec["t_done"] - rec["submitted_after"],
                                                                        outcome=rec["outcome"], exc=repr(rec.get("exception"))))
        elif rec["outcome"] != "error" or not isinstance(rec["exception"], error.LibraryShutdown):
            sim.violation("C18/request-after-shutdown-wrong-outcome", dict(idt, outcome=rec["outcome"], exc=repr(rec.get("exception"))))
    # ---- the other context is unaffected
    for tag, brec in base["otrack"].results.items():
        rec = res["otrack"].results.get(tag)
        if rec is None:
            continue
        same = (rec["done"], rec.get("outcome")) == (brec["done"], brec.get("outcome"))
        if not same:
            sim.violation("C18/other-context-affected", dict(ident, request=tag.split("#")[0], baseline=str(brec.get("outcome")),
                                                            got=str(rec.get("outcome")), exc=repr(rec.get("exception"))))
    if res["oserved"] != base["oserved"]:
        missing = [x for x in base["oserved"] if x not in res["oserved"]]
        extra = [x for x in res["oserved"] if x not in base["oserved"]]
        sim.violation("C18/other-context-affected", dict(ident, as_server=True, missing=missing[:4], extra=extra[:4],
                                                        n_baseline=len(base["oserved"]), n=len(res["oserved"])))
    return kinds


def evidence_extra(total):
    return {"shutdown_points_enumerated": total["faults"].get("shutdown_point", 0)}
