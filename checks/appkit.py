"""Helpers shared by the application-level checks (C17 site routing, C20
resource directory): an independent RFC 6690 link-format reader/writer, and a
sequential request driver for real aiocoap client contexts that knows -- from
the simulated wire -- when the server received a request and what it answered
even if the answer got lost.

Nothing here imports aiocoap at module level.
"""

from simkit import refcodec as rc

LINKFORMAT = 40


# --------------------------------------------------------------------------- link-format


def lf_write(links):
    """links: [[href, [[key, value|None], ...]], ...] -> str.  Values are always
    quoted; the generator never produces '"' or a backslash inside values."""
    out = []
    for href, attrs in links:
        s = "<%s>" % href
        for k, v in attrs:
            s += ";%s" % k if v is None else ';%s="%s"' % (k, v)
        out.append(s)
    return ",".join(out)


class LinkFormatError(Exception):
    pass


def lf_parse(text):
    """Independent reader for application/link-format (RFC 6690 section 2):
    returns [(href, [(key, value|None), ...]), ...]."""
    links = []
    i = 0
    n = len(text)
    if n == 0:
        return links
    while True:
        if i >= n or text[i] != "<":
            raise LinkFormatError("expected '<' at %d" % i)
        j = text.find(">", i)
        if j < 0:
            raise LinkFormatError("unterminated '<'")
        href = text[i + 1 : j]
        i = j + 1
        attrs = []
        while i < n and text[i] == ";":
            i += 1
            k0 = i
            while i < n and text[i] not in "=;,":
                i += 1
            key = text[k0:i]
            if not key:
                raise LinkFormatError("empty attribute name at %d" % k0)
            val = None
            if i < n and text[i] == "=":
                i += 1
                if i < n and text[i] == '"':
                    i += 1
                    buf = []
                    while True:
                        if i >= n:
                            raise LinkFormatError("unterminated quoted string")
                        ch = text[i]
                        if ch == "\\" and i + 1 < n:
                            buf.append(text[i + 1])
                            i += 2
                            continue
                        if ch == '"':
                            i += 1
                            break
                        buf.append(ch)
                        i += 1
                    val = "".join(buf)
                else:
                    v0 = i
                    while i < n and text[i] not in ";,":
                        i += 1
                    val = text[v0:i]
            attrs.append((key, val))
        links.append((href, attrs))
        if i >= n:
            return links
        if text[i] != ",":
            raise LinkFormatError("expected ',' at %d" % i)
        i += 1


def attrs_key(attrs, drop=()):
    """Order-insensitive canonical form of an attribute list."""
    return tuple(sorted(((k, "" if v is None else "=" + v) for k, v in attrs if k not in drop)))


def multiset(items):
    d = {}
    for x in items:
        d[x] = d.get(x, 0) + 1
    return d


def ms_sub(a, b):
    """a - b (multisets), only positive counts kept."""
    out = {}
    for k, v in a.items():
        r = v - b.get(k, 0)
        if r > 0:
            out[k] = r
    return out


def ms_list(ms):
    out = []
    for k in sorted(ms, key=repr):
        out += [k] * ms[k]
    return out


# --------------------------------------------------------------------------- request driver


class OpTrace:
    """What the wire shows about one application-level request."""

    __slots__ = ("opid", "first_mid", "first_token", "src", "t_send", "t_srv", "wire_resp", "in_flight")

    def __init__(self, opid):
        self.opid = opid
        self.first_mid = None
        self.first_token = None
        self.src = None
        self.t_send = None
        self.t_srv = None  # instant the first copy of the (first) request reached the server
        self.wire_resp = None  # first response datagram the server sent for the request's token
        self.in_flight = 0


class Driver:
    """Issues requests one at a time through real client contexts and watches
    the simulated wire: `t_srv` is the virtual instant the server's socket
    received the first copy of the request (message-layer de-duplication makes
    later copies harmless), `wire_resp` is the reference-decoded first response
    the server put on the wire for it."""

    def __init__(self, sim, server_addr):
        self.sim = sim
        self.server_addr = server_addr
        self.client_addrs = set()
        self.cur = None
        self.n = 0
        sim.net.taps.append(self._on_send)
        sim.net.deliver_taps.append(self._on_deliver)

    def add_client(self, ctx):
        addr = self.sim.local_addr(ctx)
        self.client_addrs.add(addr)
        return addr

    def _on_send(self, entry):
        cur = self.cur
        m = entry["msg"]
        if cur is None or m is None or entry["forged"]:
            return
        if entry["src"] in self.client_addrs and entry["dst"] == self.server_addr and 1 <= m["code"] <= 31:
            if cur.first_mid is None:
                cur.first_mid = m["mid"]
                cur.first_token = m["token"]
                cur.src = entry["src"]
                cur.t_send = self.sim.loop.now
            if m["mid"] == cur.first_mid and entry["src"] == cur.src:
                entry["_op"] = cur.opid
        elif entry["src"] == self.server_addr and m["code"] >= 64 and cur.first_token is not None:
            if cur.wire_resp is None and m["token"] == cur.first_token and entry["dst"] == cur.src:
                cur.wire_resp = m

    def _on_deliver(self, entry, copy, data):
        cur = self.cur
        if cur is None or entry.get("_op") != cur.opid:
            return
        if cur.t_srv is None and entry["deliveries"] and entry["deliveries"][-1][2] and data == entry["data"]:
            cur.t_srv = self.sim.loop.now

    async def request(self, ctx, code, path, query=(), payload=b"", content_format=None, accept=None,
                      extra_opts=None, timeout=400.0, host="fd00::1", handle_blockwise=True):
        """Returns (trace, response|None, error|None)."""
        import asyncio
        from aiocoap import Message

        self.n += 1
        tr = OpTrace(self.n)
        self.cur = tr
        msg = Message(code=code, uri="coap://[%s]/" % host, payload=payload)
        msg.opt.uri_path = tuple(path)
        msg.opt.uri_query = tuple(query)
        if content_format is not None:
            msg.opt.content_format = content_format
        if accept is not None:
            msg.opt.accept = accept
        if extra_opts:
            extra_opts(msg)
        resp = err = None
        req = ctx.request(msg, handle_blockwise=handle_blockwise)
        try:
            resp = await asyncio.wait_for(req.response, timeout)
        except asyncio.CancelledError:
            raise
        except Exception as e:  # network errors, time-outs: the wire knows what happened
            err = e
        return tr, resp, err


def wire_location(m):
    return tuple(v.decode("utf-8", "replace") for v in rc.opts(m, rc.LOCATION_PATH))
