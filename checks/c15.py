"""C15 -- CoAP over TCP: framing independent of segmentation, signalling rules enforced.

Workload A : real aiocoap TCP client context(s) <-> real aiocoap TCP server context.
Workload Bs: scripted TcpPeer (client role) -> real server context.
Workload Bc: real client context -> scripted TcpPeer (server role).

The oracle is an independent reference receiver (`ref_receive`, built on
simkit.refcodec only) that reads the byte stream sent to the real endpoint and
says what a conforming RFC 8323 endpoint has to do with it; where the property
statement leaves a reaction open (unknown 7.xx code, signalling before the CSM,
...) the reference receiver branches and any branch may match.
"""

import hashlib

from simkit import refcodec as rc
from simkit.stream import (SimStreamNet, TcpPeer, TcpPeerListener, order_tcp_pools, split_frames, length_form)

PROPERTY = "C15"
LEVEL = "exploration"
RUNS = {"quick": 2400, "thorough": 40000}
BUDGET = {"quick": 75, "thorough": 3000}
RULE = ("seeded scenarios of three workloads: A = 1-2 real TCP client contexts against a real TCP server context, "
        "1-8 requests/responses whose option+payload lengths are drawn around 12/13, 268/269, 65804/65805, concurrent "
        "requests, handler delays, optional reset/refusal; a peer that stops reading (the client's close() then cannot "
        "complete) and says Release/Abort; Bs/Bc = scripted RFC 8323 peer (reference codec) against a "
        "real server / client context with 3-20 frames: CSM first/missing/late, requests, responses, Ping, Pong, "
        "Release, Abort, unknown 7.xx, empty messages, elective/critical signalling options, TKL 9-15, oversize "
        "frames, unparsable frames, garbage, at any position. Every direction is cut into chunks by a policy (whole, "
        "single bytes, fixed size, explicit cut offsets, lazily decided random sizes and delays); each scenario is "
        "also executed under the whole-write chunking and the observations are compared (metamorphic). Systematic "
        "part: for sampled short streams every single cut position, byte-wise delivery, fixed sizes, random "
        "multi-cuts (thorough: all 2-cut combinations of streams <= 64 bytes). Non-trivial = at least one write was "
        "cut or a stream fault fired; distinct = distinct (workload, frame kinds, chunk modes, outcome) hash.")
COMPONENTS_REAL = ["aiocoap.transports.tcp", "aiocoap.transports.rfc8323common", "aiocoap.tokenmanager",
                   "aiocoap.protocol", "aiocoap.pipe", "aiocoap.message", "aiocoap.options", "aiocoap.optiontypes",
                   "aiocoap.resource", "aiocoap.error", "aiocoap.numbers"]
COMPONENTS_STUB = ["TCP streams (SimStreamNet: create_server/create_connection/transports)", "scripted RFC 8323 peer "
                   "(reference codec)", "reference receiver model", "module random of tokenmanager", "event loop clock "
                   "(virtual)"]
ASSUMPTIONS = ["the stream transport model follows asyncio's selector transport (close() drops later writes, an exception "
               "escaping data_received tears the connection down, Server.wait_closed waits for connections)",
               "the local maximum message size is the 1 MiB the endpoint announces in its CSM (frame measured from Len "
               "to end of payload)",
               "where RFC 8323 / the property statement leave the reaction open (unknown 7.xx code, signalling or "
               "empty message before the CSM, empty message with token/body, oversize frame only announced, payload "
               "marker without payload, invalid UTF-8 in a string option) both ignoring/answering and Abort are accepted",
               "elective signalling options are generated with ASCII values only",
               "TLS and WebSockets are not simulated"]
EXPECTED_PROBES = ["len_nibble", "len_ext1", "len_ext2", "len_ext4", "at_12", "at_13", "at_268", "at_269", "at_65804",
                   "at_65805", "cut_points", "bytewise", "abort_expected", "ping", "release", "peer_abort", "empty",
                   "csm_missing", "csm_late", "tkl", "oversize", "unparsable", "critical_sig_option", "concurrent",
                   "twin_compared", "reset", "pending_failed", "close_lingers"]

MAX_MSG = 1024 * 1024
SERVER_IP = "fd00::1"
PEER_IP = "fd00::10"
CLIENT_IPS = ["fd00::2", "fd00::3"]
STRING_OPTS = (3, 8, 11, 15, 20, 35, 39)
UINT_OPTS = (6, 7, 12, 14, 17, 23, 27, 28, 60, 258)
BOUNDARY_LENS = [0, 1, 2, 5, 11, 12, 13, 14, 15, 267, 268, 269, 270, 271]
BIG_LENS = [65803, 65804, 65805, 65806]


# ------------------------------------------------------------------ small helpers


def fill(n, seed=0):
    if n <= 0:
        return b""
    block = bytes((seed * 7 + 31 * i + (i >> 3)) & 0xFF for i in range(251))
    return (block * (n // 251 + 1))[:n]


def body_len(options, payload):
    return len(rc.encode_options(options, payload))


def canon_opts(options):
    out = []
    for n, v in options:
        v = bytes(v)
        if n in UINT_OPTS:
            v = v.lstrip(b"\0")
        out.append((int(n), v))
    return sorted(out, key=lambda o: o[0])


def msg_key(m, with_token=True):
    """Canonical, comparable form of a message dict."""
    return (m["code"], bytes(m["token"]) if with_token else None, tuple(canon_opts(m["options"])), bytes(m["payload"]))


def brief(m):
    """Small JSON-able description of a message dict."""
    if m is None:
        return None
    pl = bytes(m["payload"])
    return {"code": rc.code_str(m["code"]), "token": bytes(m.get("token") or b"").hex(),
            "options": [[n, (v.hex() if len(v) <= 16 else "%d bytes sha %s" % (len(v), hashlib.sha256(v).hexdigest()[:8]))]
                        for n, v in m["options"]],
            "payload": pl.hex() if len(pl) <= 16 else "%d bytes sha %s" % (len(pl), hashlib.sha256(pl).hexdigest()[:8])}


def valid_utf8(b):
    try:
        bytes(b).decode("utf-8")
        return True
    except UnicodeDecodeError:
        return False


def fit_request(base, target, seed):
    """base options (must contain the Uri-Query tag) + padding so that the
    encoded options+payload length is `target` when reachable."""
    base = sorted(base, key=lambda o: o[0])
    room = target - body_len(base, b"")
    if room <= 0:
        return base, b""
    if room == 1:
        return sorted(base + [(rc.URI_QUERY, b"")], key=lambda o: o[0]), b""
    return base, fill(room - 1, seed)


def fit_response(r, o, seed):
    """Options and payload of the handler's / scripted server's response with
    encoded length r."""
    if o == 1:
        cands = [[(rc.ETAG, b"\xaa" * k)] for k in (4, 5, 3, 2, 1, 6, 7, 8)]
    elif o == 2:
        cands = [[(rc.CONTENT_FORMAT, b"\x2a"), (rc.MAX_AGE, b"\x3c")], [(rc.CONTENT_FORMAT, b"\x2a"), (rc.MAX_AGE, b"\x01\x00")],
                 [(rc.CONTENT_FORMAT, b"\x2a")]]
    else:
        cands = []
    cands.append([])
    for opts in cands:
        room = r - body_len(opts, b"")
        if room == 0:
            return opts, b""
        if room >= 2:
            return opts, fill(room - 1, seed)
    if r == 1:
        return [(rc.CONTENT_FORMAT, b"")], b""
    return [], b""


def response_code_for(method):
    return {1: rc.CONTENT, 2: rc.CHANGED, 3: rc.CHANGED, 4: rc.DELETED, 5: rc.CONTENT}.get(method, rc.CONTENT)


def parse_query(options):
    q = {}
    for n, v in options:
        if n == rc.URI_QUERY and b"=" in v:
            a, b = v.split(b"=", 1)
            try:
                q[a.decode()] = b.decode()
            except UnicodeDecodeError:
                pass
    return q


def planned_response(req):
    """What the Echo handler answers to a request (dict) -- a pure function of
    the request's content (query r=<length>, o=<option variant>)."""
    q = parse_query(req["options"])
    try:
        r = int(q.get("r", "3"))
        o = int(q.get("o", "0"))
    except ValueError:
        r, o = 3, 0
    r = max(0, min(r, 200000))
    opts, payload = fit_response(r, o, seed=r + o)
    return {"code": response_code_for(req["code"]), "options": opts, "payload": payload}


def handler_delay(req):
    q = parse_query(req["options"])
    try:
        return min(2.0, int(q.get("d", "0")) / 1000.0)
    except ValueError:
        return 0.0


def len_probes(sim, stream_frames):
    """Count length forms / boundary lengths among reference-decoded frames."""
    for (a, b, m, err, raw0) in stream_frames:
        nib, nx, l = length_form(raw0)
        sim.probe({0: "len_nibble", 1: "len_ext1", 2: "len_ext2", 4: "len_ext4"}[nx])
        if l in (12, 13, 268, 269, 65804, 65805):
            sim.probe("at_%d" % l)


# ------------------------------------------------------------------ frames from specs


def frame_bytes(spec, tokens=None):
    """Bytes of one scripted frame.  `tokens[j]` is the token of the j-th
    request the scripted server has received (Bc)."""
    k = spec["k"]
    if k == "raw":
        return bytes.fromhex(spec["hex"])
    tok = bytes.fromhex(spec.get("token", ""))
    opts = [(int(n), bytes.fromhex(v)) for n, v in spec.get("opts", [])]
    pl = bytes.fromhex(spec.get("payload", ""))
    if k == "csm":
        return rc.tcp_encode({"code": rc.CSM, "token": tok, "options": opts, "payload": pl})
    if k in ("ping", "pong", "release", "abort"):
        code = {"ping": rc.PING, "pong": rc.PONG, "release": rc.RELEASE, "abort": rc.ABORT}[k]
        return rc.tcp_encode({"code": code, "token": tok, "options": opts, "payload": pl})
    if k == "sig":
        return rc.tcp_encode({"code": spec["code"], "token": tok, "options": opts, "payload": pl})
    if k == "empty":
        return rc.tcp_encode({"code": 0, "token": tok, "options": opts, "payload": pl})
    if k == "req":
        base = [(rc.URI_PATH, spec.get("path", "e").encode())]
        q = "r=%d" % spec.get("r", 3)
        if spec.get("o"):
            q += "&o=%d" % spec["o"]
        base.append((rc.URI_QUERY, q.split("&")[0].encode()))
        for part in q.split("&")[1:]:
            base.append((rc.URI_QUERY, part.encode()))
        if spec.get("d"):
            base.append((rc.URI_QUERY, b"d=%d" % spec["d"]))
        base += opts
        o2, payload = fit_request(base, spec.get("len", 0), seed=spec.get("seed", 1))
        return rc.tcp_encode({"code": spec.get("code", rc.GET), "token": tok, "options": o2, "payload": payload})
    if k == "resp":
        if "req" in spec:
            if tokens is None or spec["req"] >= len(tokens):
                tok = b"\xee\xee"
            else:
                tok = tokens[spec["req"]]
        o2, payload = fit_response(spec.get("len", 3), spec.get("o", 0), seed=spec.get("seed", 2))
        return rc.tcp_encode({"code": spec.get("code", rc.CONTENT), "token": tok, "options": o2, "payload": payload})
    if k == "tkl":
        # a frame whose TKL nibble is 9..15, sized as if TKL were a token length
        tkl = spec.get("tkl", 9)
        body = rc.encode_options(opts, pl)
        good = rc.tcp_encode({"code": spec.get("code", rc.GET), "token": b"", "options": opts, "payload": pl})
        nx = {13: 1, 14: 2, 15: 4}.get(good[0] >> 4, 0)
        return bytes([(good[0] & 0xF0) | tkl]) + good[1:1 + nx] + good[1 + nx:2 + nx] + fill(tkl, 3) + body
    if k == "badopt":
        v = spec.get("variant", 0) % 6
        bad = [b"\xf1x", b"\x1fx", b"\xb5ab", b"\xd0", b"\xb1e\xe1\x00", b"\x0e\x01"][v]
        pre = rc.encode_options([(rc.URI_PATH, b"e")], b"") if v == 1 else b""
        return _raw_frame(spec.get("code", rc.GET), tok, pre + bad)
    if k == "badutf8":
        body = rc.encode_options([(rc.URI_PATH, b"e"), (rc.URI_QUERY, bytes.fromhex(spec.get("bad", "fffe")))], b"")
        return _raw_frame(spec.get("code", rc.GET), tok, body)
    if k == "resp_badutf8":
        if tokens is not None and spec.get("req", 0) < len(tokens):
            tok = tokens[spec["req"]]
        return _raw_frame(spec.get("code", rc.CONTENT), tok, rc.encode_options([(rc.LOCATION_PATH, b"\xff\xfe")], b"ok"))
    if k == "marker":
        body = rc.encode_options([(rc.URI_PATH, b"e"), (rc.URI_QUERY, b"r=2")], b"") + b"\xff"
        return _raw_frame(spec.get("code", rc.GET), tok, body)
    if k == "oversize":
        # total frame length = spec["total"] (> MAX_MSG); full or only the first `sent` bytes
        total = spec["total"]
        bodylen = total - 6 - len(tok)
        head = bytes([0xF0 | len(tok)]) + (bodylen - 65805).to_bytes(4, "big") + bytes([spec.get("code", rc.POST)]) + tok
        opts_b = rc.encode_options([(rc.URI_PATH, b"e"), (rc.URI_QUERY, b"r=2")], b"") + b"\xff"
        frame_start = head + opts_b
        sent = spec.get("sent")
        if sent is None:
            return frame_start + fill(total - len(frame_start), 5)
        return (frame_start + fill(max(0, sent - len(frame_start)), 5))[:sent]
    raise ValueError("unknown frame kind %r" % k)


def _raw_frame(code, token, body):
    l = len(body)
    if l < 13:
        ln, lx = l, b""
    elif l < 269:
        ln, lx = 13, bytes([l - 13])
    elif l < 65805:
        ln, lx = 14, (l - 269).to_bytes(2, "big")
    else:
        ln, lx = 15, (l - 65805).to_bytes(4, "big")
    return bytes([(ln << 4) | len(token)]) + lx + bytes([code]) + token + body


# ------------------------------------------------------------------ reference receiver


class Outcome:
    def __init__(self):
        self.dispatch = []  # message dicts (+ "optional", "end" offset) to be handed to the token manager, in order
        self.pongs = []  # tokens of the Pings to be answered
        self.empties = 0
        self.end = "open"  # open | abort | peer_close | unchecked
        self.why = None
        self.end_off = None
        self.either = []  # kinds of the choice points met
        self.counts = {}
        self.bad_utf8 = False  # the frame the model stopped at carries invalid UTF-8 in a string option

    def count(self, k):
        self.counts[k] = self.counts.get(k, 0) + 1


PREFERRED = {"marker-nopayload": True, "bad-utf8": True, "oversize-announced": True, "unknown-signalling": False,
             "signalling-before-csm": False, "empty-before-csm": False, "empty-noncanonical": False}


def ref_receive(stream, choices=()):
    """What must an RFC 8323 endpoint do with `stream`?  `choices[i]` selects
    the alternative at the i-th open point (True = Abort)."""
    stream = bytes(stream)
    out = Outcome()
    pos = 0
    csm = False
    ci = [0]

    def choose(kind):
        i = ci[0]
        ci[0] += 1
        out.either.append(kind)
        return choices[i] if i < len(choices) else PREFERRED[kind]

    def stop(end, why, off):
        out.end, out.why, out.end_off = end, why, off

    while True:
        head = stream[pos:pos + 5]
        total = rc.tcp_frame_length(head)
        if total is None:
            break
        tkl = head[0] & 15
        if total > MAX_MSG:
            if pos + total <= len(stream):
                stop("abort", "oversize", pos + total)
            elif choose("oversize-announced"):
                stop("abort", "oversize", len(stream))
            else:
                out.count("oversize-waiting")
            break
        if pos + total > len(stream):
            break
        frame = stream[pos:pos + total]
        fend = pos + total
        pos = fend
        if tkl > 8:
            stop("abort", "tkl", fend)
            break
        hdr = 1 + {13: 1, 14: 2, 15: 4}.get(frame[0] >> 4, 0)
        code = frame[hdr]
        token = frame[hdr + 1:hdr + 1 + tkl]
        try:
            options, payload = rc.decode_options(frame, hdr + 1 + tkl)
        except rc.FormatError as e:
            if "zero-length payload" in str(e):
                try:
                    options, payload = rc.decode_options(frame[:-1], hdr + 1 + tkl)
                except rc.FormatError:
                    stop("abort", "unparsable", fend)
                    break
                if payload or choose("marker-nopayload"):
                    stop("abort", "unparsable", fend)
                    break
            else:
                stop("abort", "unparsable", fend)
                break
        msg = {"code": code, "token": token, "options": options, "payload": payload, "end": fend}
        cls = code >> 5
        if cls == 7:
            critical = [n for n, _ in options if n & 1]
            if code != rc.CSM and not csm:
                if choose("signalling-before-csm"):
                    stop("abort", "no-csm", fend)
                    break
            if code == rc.CSM:
                if critical:
                    stop("abort", "critical-option", fend)
                    break
                csm = True
                out.count("csm")
                continue
            if code in (rc.PING, rc.PONG, rc.RELEASE, rc.ABORT):
                if critical:
                    stop("abort", "critical-option", fend)
                    break
                if code == rc.PING:
                    out.pongs.append(token)
                elif code in (rc.RELEASE, rc.ABORT):
                    stop("peer_close", "release" if code == rc.RELEASE else "abort", fend)
                    break
                continue
            if choose("unknown-signalling"):
                stop("abort", "unknown-signalling", fend)
                break
            continue
        if code == 0:
            if csm and total == 2:
                out.empties += 1
                continue
            if choose("empty-before-csm" if not csm else "empty-noncanonical"):
                stop("abort", "empty", fend)
                break
            continue
        if cls in (1, 6):
            stop("unchecked", "reserved code class", fend)
            break
        if not csm:
            out.bad_utf8 = any(n in STRING_OPTS and not valid_utf8(v) for n, v in options)
            stop("abort", "no-csm", fend)
            break
        if any(n in STRING_OPTS and not valid_utf8(v) for n, v in options):
            if choose("bad-utf8"):
                stop("abort", "unparsable", fend)
                break
            msg["optional"] = True
        out.dispatch.append(msg)
    return out


def all_branches(stream):
    """Outcomes of every combination of alternatives (preferred one first)."""
    first = ref_receive(stream)
    n = len(first.either)
    if n == 0:
        return [first]
    outs = [first]
    seen = {tuple(PREFERRED[k] for k in first.either)}
    # depth-first over the choice tree (the number of choice points can differ per branch)
    stack = [()]
    while stack and len(outs) < 64:
        ch = stack.pop()
        o = ref_receive(stream, ch)
        if len(o.either) > len(ch):
            stack.append(ch + (True,))
            stack.append(ch + (False,))
        else:
            key = tuple(ch)
            if key not in seen:
                seen.add(key)
                outs.append(o)
    return outs


# ------------------------------------------------------------------ generation

CSM_PLAIN = {"k": "csm"}
CSM_FULL = {"k": "csm", "opts": [[2, "100000"], [4, ""]]}
CSM_WIRE = rc.tcp_encode({"code": rc.CSM, "token": b"", "options": [], "payload": b""})


def gen_policy(r, big=False, main=True):
    x = r.random()
    if not main:
        return {"mode": "whole"} if x < 0.6 else {"mode": "random"}
    if x < 0.12:
        return {"mode": "whole"}
    if x < 0.27:
        return {"mode": "bytes", "limit": 700} if big else {"mode": "bytes"}
    if x < 0.37:
        return {"mode": "fixed", "size": r.choice([1, 2, 3, 5, 7, 13, 14, 270]), "max_small": 700}
    if x < 0.47:
        n = r.randint(1, 6)
        top = 70000 if big else 400
        return {"mode": "cuts", "cuts": sorted({r.choice([r.randint(1, 40), r.randint(1, top)]) for _ in range(n)})}
    return {"mode": "random"}


def gen_len(r, allow_big=True):
    x = r.random()
    if x < 0.30:
        return r.randint(0, 40)
    if x < 0.50:
        return r.choice([11, 12, 13, 14])
    if x < 0.72:
        return r.choice([266, 267, 268, 269, 270])
    if x < 0.82:
        return r.randint(41, 3000)
    if allow_big and x < 0.95:
        return r.choice(BIG_LENS)
    if allow_big:
        return r.randint(65000, 70000)
    return r.randint(0, 300)


def gen_extra_opts(r, client=False):
    """Extra request options that any CoAP server passes through to the resource."""
    out = []
    if client and r.chance(0.04):
        out.append([rc.NO_RESPONSE, r.choice(["", "02"])])  # RFC 7967, set by the application on its request
    if r.chance(0.25):
        out.append([rc.IF_MATCH, r.randbytes(r.randint(0, 8)).hex()])
    if r.chance(0.2):
        out.append([rc.ETAG, r.randbytes(r.randint(1, 8)).hex()])
    if r.chance(0.2):
        out.append([rc.ACCEPT, rc.uint_bytes(r.choice([0, 40, 42, 50, 60, 11542])).hex()])
    if r.chance(0.25):
        out.append([rc.URI_QUERY, ("p=" + "x" * r.choice([0, 9, 10, 11, 12, 100, 253])).encode().hex()])
    if r.chance(0.1):
        out.append([2050, r.randbytes(r.randint(0, 20)).hex()])  # unknown elective, safe-to-forward
    return out


def gen_sig_opts(r, critical):
    """Options for signalling messages (ASCII values)."""
    out = []
    if r.chance(0.5) or critical:
        n = r.choice([6, 8, 10, 16, 300, 2050])
        out.append([n, ("v" * r.randint(0, 3)).encode().hex()])
    if critical:
        n = r.choice([1, 3, 5, 7, 9, 11, 271, 2049, 65535, 65537, 65803, 65801])
        if r.chance(0.15):
            # option numbers are sums of deltas: beyond 16 bit with an elective option in between
            out.append([65804, ""])
            n = r.choice([65805, 131537, 131607])
        out.append([n, ("c" * r.randint(0, 3)).encode().hex()])
    return sorted(out, key=lambda o: o[0])


def ok_garbage(g):
    for prefix in (b"", CSM_WIRE):
        for o in all_branches(prefix + g):
            # must end in a definite Abort inside the garbage itself (an
            # incomplete tail would swallow the frames that follow)
            if o.dispatch or o.end != "abort":
                return False
    return True


def gen_garbage(r):
    for _ in range(30):
        if r.chance(0.3):
            g = r.choice([b"GET /.well-known/core HTTP/1.0\r\n\r\n", b"\x16\x03\x01\x00\xa5\x01\x00\x00\xa1\x03\x03", b"SSH-2.0-x\r\n",
                          b"\xff\xff\xff\xff", b"\x40\x01\x12\x34\xb1e"])
        else:
            g = r.randbytes(r.randint(1, 40))
        if ok_garbage(g):
            return g
    return b"\x0f" + bytes(16)


def gen_token(r, used, i):
    for _ in range(20):
        n = r.choice([0, 1, 1, 2, 2, 3, 4, 8, 8, r.randint(0, 8)])
        t = (bytes([0x10 + i]) + r.randbytes(8))[:n]
        if t not in used:
            used.add(t)
            return t
    t = bytes([0x10 + i, 0xFE])
    used.add(t)
    return t


def gen_req_frame(r, used, i, allow_big):
    spec = {"k": "req", "code": r.choice([1, 1, 2, 2, 3, 4, 5, 6, 7, r.randint(8, 31)]), "token": gen_token(r, used, i).hex(),
            "len": gen_len(r, allow_big), "r": gen_len(r, allow_big), "o": r.choice([0, 0, 1, 2]), "seed": r.randint(0, 200),
            "opts": gen_extra_opts(r)}
    if r.chance(0.2):
        spec["d"] = r.choice([1, 20, 300])
    return spec


def gen_bs(r, tier):
    ops = []
    used = set()
    csm_pos = r.weighted([(75, "first"), (8, "missing"), (17, "late")])
    n = r.randint(2, 18)
    bigs = 0
    for i in range(n):
        k = r.weighted([(40, "req"), (12, "ping"), (4, "pong"), (8, "empty"), (4, "csm2"), (2, "sig"), (3, "release"),
                        (2, "abort"), (3, "tkl"), (3, "badopt"), (2, "badutf8"), (1, "marker"), (1, "oversize_hdr"),
                        (0.4, "oversize_full"), (2, "garbage"), (0.3, "maxsize_ok"), (1, "emptyodd"), (1, "critping")])
        if k == "req":
            f = gen_req_frame(r, used, i, allow_big=bigs < 2)
            if f["len"] > 60000 or f["r"] > 60000:
                bigs += 1
        elif k in ("ping", "pong"):
            f = {"k": k, "token": r.randbytes(r.randint(0, 8)).hex(), "opts": gen_sig_opts(r, False) if r.chance(0.3) else []}
        elif k == "critping":
            f = {"k": r.choice(["ping", "pong", "release", "abort"]), "token": r.randbytes(r.randint(0, 4)).hex(),
                 "opts": gen_sig_opts(r, True)}
        elif k == "empty":
            f = {"k": "empty"}
        elif k == "emptyodd":
            f = {"k": "empty", "token": r.randbytes(r.randint(1, 8)).hex()} if r.chance(0.5) else {"k": "empty", "payload": "00"}
        elif k == "csm2":
            f = {"k": "csm", "opts": ([[2, rc.uint_bytes(r.choice([1152, 2000, 1 << 20, 1 << 24])).hex()]] if r.chance(0.5) else []) +
                 ([[4, ""]] if r.chance(0.5) else []) + gen_sig_opts(r, r.chance(0.35))}
        elif k == "sig":
            f = {"k": "sig", "code": r.choice([0xE0, 0xE6, 0xE7, 0xF0, 0xFF]), "token": r.randbytes(r.randint(0, 2)).hex()}
        elif k in ("release", "abort"):
            f = {"k": k, "opts": gen_sig_opts(r, False) if r.chance(0.3) else [],
                 "payload": (b"bye".hex() if r.chance(0.3) else "")}
        elif k == "tkl":
            f = {"k": "tkl", "tkl": r.randint(9, 15), "code": r.choice([rc.GET, rc.CSM, rc.PING, 0]),
                 "opts": [[rc.URI_PATH, b"e".hex()]] if r.chance(0.5) else []}
        elif k == "badopt":
            f = {"k": "badopt", "variant": r.randint(0, 5), "token": gen_token(r, used, i).hex(),
                 "code": r.choice([rc.GET, rc.POST, rc.PING, rc.CSM, rc.CONTENT])}
        elif k == "badutf8":
            f = {"k": "badutf8", "token": gen_token(r, used, i).hex(), "bad": r.choice(["fffe", "c0", "e28228", "74ff"])}
        elif k == "marker":
            f = {"k": "marker", "token": gen_token(r, used, i).hex()}
        elif k == "oversize_hdr":
            f = {"k": "oversize", "total": r.choice([MAX_MSG + 1, MAX_MSG + 2, 5000000, 65805 + 5 + 0xFFFFFFFF]),
                 "sent": r.choice([5, 6, 20, 300]), "token": ""}
        elif k == "oversize_full":
            f = {"k": "oversize", "total": MAX_MSG + r.choice([1, 2, 100]), "token": gen_token(r, used, i).hex()}
        elif k == "maxsize_ok":
            # total frame length (5 bytes Len+ext, code, token, body) exactly at / just below the limit
            f = {"k": "req", "code": 2, "token": gen_token(r, used, i).hex(), "r": 5, "o": 0, "seed": 9, "opts": []}
            f["len"] = MAX_MSG - r.choice([0, 0, 1, 2]) - 6 - len(bytes.fromhex(f["token"]))
        else:
            f = {"k": "raw", "hex": gen_garbage(r).hex(), "garbage": True}
        if r.chance(0.12):
            f["gap"] = r.choice([0.0005, 0.01, 0.2, 2.0])
        ops.append(f)
    csm = dict(r.choice([CSM_PLAIN, CSM_FULL, CSM_FULL]))
    if r.chance(0.15):
        csm["opts"] = list(csm.get("opts", [])) + gen_sig_opts(r, False)
    if csm_pos == "first":
        ops.insert(0, csm)
    elif csm_pos == "late":
        ops.insert(r.randint(1, min(3, len(ops))), csm)
    big = any(f.get("len", 0) > 3000 or f.get("total", 0) > 3000 for f in ops)
    return {"w": "Bs", "ops": ops, "chunk": {"c2s": gen_policy(r, big), "s2c": gen_policy(r, big, main=False)}}


def gen_bc(r, tier):
    nreq = r.randint(1, 5)
    reqs = []
    for i in range(nreq):
        reqs.append({"tag": i, "t": 0.0 if i == 0 else round(r.choice([0.05, 0.05, 0.1, r.uniform(0.05, 0.4)]), 4),
                     "code": r.choice([1, 2, 3, 4, 5]), "len": gen_len(r, allow_big=(i < 2)), "seed": r.randint(0, 200),
                     "opts": gen_extra_opts(r, client=True)})
    steps = []
    csm_mode = r.weighted([(75, "first"), (10, "missing"), (15, "late")])
    first = []
    if csm_mode == "first":
        c = dict(r.choice([CSM_PLAIN, CSM_FULL, CSM_FULL]))
        if r.chance(0.15):
            c["opts"] = list(c.get("opts", [])) + gen_sig_opts(r, r.chance(0.2))
        first.append(c)

    def misc():
        k = r.weighted([(10, "ping"), (4, "pong"), (8, "empty"), (3, "csm2"), (2, "sig"), (4, "release"), (3, "abort"), (2, "tkl"),
                        (2, "badopt"), (1, "oversize_hdr"), (0.3, "oversize_full"), (2, "garbage"), (2, "stray"), (1, "critping"),
                        (1, "badutf8")])
        if k in ("ping", "pong"):
            return {"k": k, "token": r.randbytes(r.randint(0, 8)).hex(), "opts": gen_sig_opts(r, False) if r.chance(0.3) else []}
        if k == "critping":
            return {"k": r.choice(["ping", "pong", "release", "abort"]), "opts": gen_sig_opts(r, True)}
        if k == "empty":
            return {"k": "empty"}
        if k == "csm2":
            return {"k": "csm", "opts": gen_sig_opts(r, r.chance(0.35))}
        if k == "sig":
            return {"k": "sig", "code": r.choice([0xE0, 0xE6, 0xF0, 0xFF])}
        if k in ("release", "abort"):
            return {"k": k, "opts": gen_sig_opts(r, False) if r.chance(0.3) else []}
        if k == "tkl":
            return {"k": "tkl", "tkl": r.randint(9, 15), "code": r.choice([rc.CONTENT, rc.CSM, 0])}
        if k == "badopt":
            return {"k": "badopt", "variant": r.randint(0, 5), "token": "7e", "code": rc.CONTENT}
        if k == "badutf8":
            return {"k": "resp_badutf8", "req": r.randrange(0, nreq)}
        if k == "oversize_hdr":
            return {"k": "oversize", "total": r.choice([MAX_MSG + 1, 5000000]), "sent": r.choice([5, 6, 50]), "token": "", "code": rc.CONTENT}
        if k == "oversize_full":
            return {"k": "oversize", "total": MAX_MSG + r.choice([1, 7]), "token": "7d", "code": rc.CONTENT}
        if k == "stray":
            return {"k": "resp", "token": r.choice(["", "7f", "7f7f7f7f7f7f7f7f"]), "len": r.randint(0, 30), "code": rc.CONTENT}
        return {"k": "raw", "hex": gen_garbage(r).hex(), "garbage": True}

    while r.chance(0.25):
        first.append(misc())
    if first:
        steps.append({"after": 0, "frames": first})
    answered = set()
    for k in range(1, nreq + 1):
        frames = []
        if csm_mode == "late" and k == 1 and r.chance(0.5):
            frames.append(dict(CSM_FULL))
            csm_mode = "done"
        while r.chance(0.3):
            frames.append(misc())
        for j in range(k):
            if j not in answered and r.chance(0.75):
                answered.add(j)
                frames.append({"k": "resp", "req": j, "code": r.choice([rc.CONTENT, rc.CHANGED, rc.CREATED, rc.NOT_FOUND, rc.INTERNAL_SERVER_ERROR,
                                                                        rc.code(2, 31), rc.code(5, 31)]),
                               "len": gen_len(r, allow_big=(j < 2)), "o": r.choice([0, 0, 1, 2]), "seed": r.randint(0, 200)})
                if r.chance(0.08):
                    frames.append(dict(frames[-1], seed=frames[-1]["seed"] + 1))  # duplicate token: second one is stray
        if csm_mode == "late" and k == 1:
            frames.append(dict(CSM_PLAIN))
            csm_mode = "done"
        while r.chance(0.2):
            frames.append(misc())
        if frames:
            steps.append({"after": k, "frames": frames})
    big = any(q["len"] > 3000 for q in reqs) or any(f.get("len", 0) > 3000 or f.get("total", 0) > 3000 for s in steps for f in s["frames"])
    scn = {"w": "Bc", "reqs": reqs, "ops": steps, "chunk": {"c2s": gen_policy(r, big, main=r.chance(0.5)), "s2c": gen_policy(r, big)}}
    if r.chance(0.12):
        # the peer stops reading after so many bytes (but goes on talking): later requests stay in the client's write
        # buffer, so that a close() of the client's transport cannot complete
        scn["fault"] = {"kind": "stall", "dir": "c2s", "at": r.choice([r.randint(1, 30), r.randint(8, 120), r.randint(8, 600)])}
        if r.chance(0.7):
            k = r.randint(0, nreq)
            steps.append({"after": k, "frames": [{"k": r.choice(["release", "abort"]), "opts": []}]})
            steps.sort(key=lambda s_: s_["after"])
        # what the peer says takes a while to arrive, so that later requests have been written meanwhile
        scn["chunk"]["s2c"] = dict(scn["chunk"]["s2c"], latency=r.choice([0.001, 0.1, 0.5]))
    return scn


def gen_a(r, tier):
    nclients = r.choice([1, 1, 1, 2])
    n = r.randint(1, 8)
    ops = []
    bigs = 0
    for i in range(n):
        c = r.randrange(0, nclients)
        first_of_client = not any(o["client"] == c for o in ops)
        if first_of_client:
            t = 0.0
        elif r.chance(0.15):
            t = 0.0  # concurrent with the connection set-up of the first request
        elif r.chance(0.3) and ops:
            t = ops[-1]["t"] if ops[-1]["t"] > 0 else 0.05
        else:
            t = round(r.uniform(0.02, 0.6), 4)
        op = {"tag": i, "client": c, "t": t, "code": r.choice([1, 1, 2, 2, 3, 4, 5, 6, 7]), "len": gen_len(r, bigs < 3),
              "r": gen_len(r, bigs < 3), "o": r.choice([0, 0, 1, 2]), "seed": r.randint(0, 200), "opts": gen_extra_opts(r, client=True)}
        if op["len"] > 60000 or op["r"] > 60000:
            bigs += 1
        if r.chance(0.25):
            op["d"] = r.choice([1, 5, 50, 300])
        ops.append(op)
    big = bigs > 0
    scn = {"w": "A", "nclients": nclients, "ops": ops, "chunk": {"c2s": gen_policy(r, big), "s2c": gen_policy(r, big)}}
    x = r.random()
    if x < 0.07:
        scn["fault"] = {"kind": "reset", "dir": r.choice(["c2s", "s2c"]), "at": r.choice([r.randint(0, 40), r.randint(0, 600)])}
    elif x < 0.10:
        scn["fault"] = {"kind": "refuse", "index": 0}
    elif x < 0.13:
        scn["fault"] = {"kind": "eof", "dir": r.choice(["c2s", "s2c"]), "at": r.randint(0, 60)}
    return scn


def gen(r, tier):
    w = r.weighted([(33, "A"), (38, "Bs"), (23, "Bc"), (6, "Br")])
    if w == "Br":
        return gen_br(r)
    if w == "A":
        return gen_a(r, tier)
    if w == "Bs":
        return gen_bs(r, tier)
    return gen_bc(r, tier)


def draw_bias(scn):
    if scn.get("token0") is not None:
        t0 = int(scn["token0"])
        return {"tm": {"randint": lambda r, a, b: t0}}
    if scn.get("w") in ("A", "Bc"):
        # token start near the byte-length boundaries of the token counter
        return {"tm": {"randint": lambda r, a, b: r.choice([a, 254, 255, 256, 65533, 65534, b, r.randint(a, b)])}}
    return None


# ------------------------------------------------------------------ systematic part, corpus, shrinking


def _req(token, length=0, r=3, code=1, **kw):
    return dict({"k": "req", "code": code, "token": token, "len": length, "r": r, "o": 0, "seed": 1, "opts": []}, **kw)


def sample_streams(tier):
    """Short scripted streams (Bs: peer -> real server) whose every cut is enumerated."""
    s = [
        [CSM_FULL, _req("01", 0, 0), {"k": "ping", "token": "a1a2"}, {"k": "empty"}, _req("02", 13, 12, code=2), {"k": "release"}],
        [CSM_PLAIN, _req("", 12, 13), _req("11", 13, 14), _req("1213", 14, 2)],
        [{"k": "csm", "opts": [[2, "0480"], [6, "76"]]}, {"k": "ping", "token": ""}, {"k": "pong", "token": "05"}, _req("0102030405060708", 6, 1, code=4),
         {"k": "abort", "payload": b"x".hex()}],
        [CSM_PLAIN, _req("21", 9, 5), {"k": "tkl", "tkl": 9, "code": 1}],
        [{"k": "ping", "token": "31"}, CSM_PLAIN, _req("32", 7, 0)],
        [_req("41", 6, 2)],
        [CSM_PLAIN, {"k": "empty"}, {"k": "empty"}, {"k": "badopt", "variant": 0, "token": "51"}],
        [CSM_PLAIN, {"k": "ping", "token": "61"}, {"k": "csm", "opts": [[11, "63"]]}, _req("62", 6, 2)],
        [{"k": "csm", "opts": [[65804, ""], [131537, ""]]}, _req("63", 6, 2)],
        [CSM_PLAIN, {"k": "csm", "opts": [[65537, "01"]]}, _req("64", 6, 2)],
    ]
    if tier == "thorough":
        s += [
            [CSM_FULL, {"k": "sig", "code": 0xE9}, _req("71", 6, 2)],
            [CSM_PLAIN, {"k": "badutf8", "token": "81", "bad": "fffe"}],
            [CSM_PLAIN, {"k": "ping", "token": "91", "opts": [[9, ""]]}, _req("92", 6, 2)],
            [CSM_PLAIN, _req("a1", 20, 5, d=20), {"k": "empty"}, _req("a2", 6, 5), {"k": "ping", "token": "a3"}],
        ]
    return s


def sample_bc():
    """(reqs, steps, predicted s2c stream length) for the scripted-server samples (token0 pinned to 0)."""
    reqs = [{"tag": 0, "t": 0.0, "code": 1, "len": 0, "seed": 1, "opts": []},
            {"tag": 1, "t": 0.05, "code": 2, "len": 13, "seed": 2, "opts": []}]
    steps = [{"after": 0, "frames": [dict(CSM_FULL)]},
             {"after": 2, "frames": [{"k": "ping", "token": "b1"}, {"k": "resp", "req": 1, "code": rc.CHANGED, "len": 13, "o": 0, "seed": 3},
                                     {"k": "empty"}, {"k": "resp", "req": 0, "code": rc.CONTENT, "len": 12, "o": 1, "seed": 4},
                                     {"k": "release"}]}]
    toks = [b"\x01", b"\x02"]
    n = sum(len(frame_bytes(f, toks)) for st in steps for f in st["frames"])
    return reqs, steps, n


def sample_a():
    ops = [{"tag": 0, "client": 0, "t": 0.0, "code": 2, "len": 13, "r": 12, "o": 0, "seed": 1, "opts": []},
           {"tag": 1, "client": 0, "t": 0.05, "code": 1, "len": 0, "r": 13, "o": 1, "seed": 2, "opts": []},
           {"tag": 2, "client": 0, "t": 0.05, "code": 5, "len": 12, "r": 0, "o": 0, "seed": 3, "opts": []}]
    return ops


def a_request_msg(op):
    """What the application asks aiocoap to send (reference form, without token)."""
    base = [(rc.URI_PATH, b"e"), (rc.URI_QUERY, b"t=%d" % op["tag"]), (rc.URI_QUERY, b"r=%d" % op.get("r", 3))]
    if op.get("o"):
        base.append((rc.URI_QUERY, b"o=%d" % op["o"]))
    if op.get("d"):
        base.append((rc.URI_QUERY, b"d=%d" % op["d"]))
    base += [(int(n), bytes.fromhex(v)) for n, v in op.get("opts", [])]
    opts, payload = fit_request(base, op.get("len", 0), seed=op.get("seed", 1))
    return {"code": op["code"], "token": b"", "options": opts, "payload": payload}


def cut_scenarios(base, direction, n, tier, rnd_seed):
    """All single cuts, byte-wise, fixed sizes, random multi-cuts (thorough: all 2-cuts if n <= 64)."""
    from simkit.decide import KeyRnd

    out = []
    other = "s2c" if direction == "c2s" else "c2s"

    def mk(policy, label, ncuts):
        scn = dict(base)
        scn["chunk"] = {direction: policy, other: {"mode": "whole"}}
        scn["sys"] = label
        scn["cutdir"] = direction
        scn["ncuts"] = ncuts
        return scn

    for p in range(1, n):
        out.append(mk({"mode": "cuts", "cuts": [p]}, "cut1", 1))
    out.append(mk({"mode": "bytes"}, "bytes", max(0, n - 1)))
    for k in (2, 3, 5):
        out.append(mk({"mode": "fixed", "size": k, "max_small": 100000}, "fixed", max(0, (n - 1) // k)))
    r = KeyRnd(rnd_seed)
    for _ in range(40 if tier == "thorough" else 4):
        k = r.randint(2, 6)
        cuts = sorted({r.randint(1, max(1, n - 1)) for _ in range(k)})
        out.append(mk({"mode": "cuts", "cuts": cuts}, "cutN", len(cuts)))
    if tier == "thorough" and n <= 64:
        for a in range(1, n):
            for b in range(a + 1, n):
                out.append(mk({"mode": "cuts", "cuts": [a, b]}, "cut2", 2))
    return out


def systematic(tier):
    out = []
    for i, ops in enumerate(sample_streams(tier)):
        n = sum(len(frame_bytes(f)) for f in ops)
        out += cut_scenarios({"w": "Bs", "ops": ops, "stream_len": n}, "c2s", n, tier, 1000 + i)
    reqs, steps, n = sample_bc()
    out += cut_scenarios({"w": "Bc", "reqs": reqs, "ops": steps, "token0": 0, "stream_len": n}, "s2c", n, tier, 2000)
    ops = sample_a()
    n_c2s = 7 + sum(len(rc.tcp_encode(dict(a_request_msg(o), token=b"\x01"))) for o in ops)
    n_s2c = 7 + sum(len(rc.tcp_encode(dict(planned_response(a_request_msg(o)), token=b"\x01"))) for o in ops)
    base = {"w": "A", "nclients": 1, "ops": ops, "token0": 0, "noshutdown": True}
    out += cut_scenarios(dict(base, stream_len=n_c2s), "c2s", n_c2s, "quick" if tier == "quick" else tier, 3000)
    out += cut_scenarios(dict(base, stream_len=n_s2c), "s2c", n_s2c, "quick" if tier == "quick" else tier, 3001)
    # successive connections of one client to one address: how the second one starts, after any end of the first
    for end in ("close", "release", "abort", "reset"):
        for second in ("first", "none", "late"):
            for opts in ([], [[2, "100000"], [4, ""]]):
                for ch in (WHOLE, {"mode": "bytes"}):
                    out.append({"w": "Br", "gap": 2.0, "conns": [{"csm": "first", "csm_opts": opts, "end": end},
                                                                  {"csm": second, "csm_opts": opts, "end": "close"},
                                                                  {"csm": "first", "csm_opts": [], "end": "close"}],
                                "reqs": [{"tag": k, "code": rc.GET, "len": 0, "seed": k + 1, "opts": []} for k in range(3)],
                                "chunk": {"c2s": WHOLE, "s2c": ch}})
    for end in ("close", "release", "abort", "reset"):
        out.append({"w": "Br", "gap": 2.0, "reuse_remote": True, "conns": [{"csm": "first", "csm_opts": [], "end": end}] * 3,
                    "reqs": [{"tag": k, "code": rc.GET, "len": 0, "seed": k + 1, "opts": []} for k in range(3)],
                    "chunk": {"c2s": WHOLE, "s2c": WHOLE}})
    return out


def corpus():
    whole = {"c2s": {"mode": "whole"}, "s2c": {"mode": "whole"}}
    bytesw = {"c2s": {"mode": "bytes", "limit": 600}, "s2c": {"mode": "bytes", "limit": 600}}
    out = [
        # the two defects known at design time, minimal form
        {"w": "Bs", "ops": [CSM_PLAIN, {"k": "empty"}], "chunk": whole},
        {"w": "Bs", "ops": [CSM_PLAIN, {"k": "badutf8", "token": "01", "bad": "ff"}], "chunk": whole},
        # size limit: exactly at the limit is accepted, one more byte is refused
        {"w": "Bs", "ops": [CSM_FULL, _req("a1", MAX_MSG - 7, 5, code=2)], "chunk": {"c2s": {"mode": "fixed", "size": 300000}, "s2c": {"mode": "whole"}}},
        {"w": "Bs", "ops": [CSM_FULL, {"k": "oversize", "total": MAX_MSG + 1, "token": "a2"}],
         "chunk": {"c2s": {"mode": "fixed", "size": 300000}, "s2c": {"mode": "whole"}}},
        {"w": "Bs", "ops": [CSM_FULL, {"k": "oversize", "total": MAX_MSG + 1, "sent": 5, "token": ""}], "chunk": bytesw},
        # extended length boundaries in both directions, every length form
        {"w": "Bs", "ops": [CSM_FULL] + [_req("%02x" % (0x20 + i), l, l2) for i, (l, l2) in enumerate(
            [(12, 13), (13, 12), (268, 269), (269, 268), (65804, 65805), (65805, 65804)])], "chunk": bytesw},
        {"w": "A", "nclients": 1, "ops": [{"tag": i, "client": 0, "t": 0.0 if i == 0 else 0.05, "code": 2, "len": l, "r": l2, "o": 0, "seed": i,
                                           "opts": []} for i, (l, l2) in enumerate(
            [(12, 13), (13, 12), (268, 269), (269, 268), (65804, 65805), (65805, 65804)])], "chunk": bytesw},
        {"w": "A", "nclients": 2, "ops": [{"tag": i, "client": i % 2, "t": 0.0, "code": 1, "len": 10 + i, "r": 266 + i, "o": i % 3, "seed": i,
                                           "opts": [], "d": 5 * (4 - i)} for i in range(5)],
         "chunk": {"c2s": {"mode": "fixed", "size": 3}, "s2c": {"mode": "fixed", "size": 7}}},
        # signalling rules
        {"w": "Bs", "ops": [CSM_PLAIN, {"k": "ping", "token": "0102030405060708"}, {"k": "ping", "token": ""}, {"k": "pong", "token": "09"}],
         "chunk": bytesw},
        {"w": "Bs", "ops": [_req("01", 6, 2)], "chunk": whole},
        {"w": "Bs", "ops": [CSM_PLAIN, {"k": "csm", "opts": [[2049, ""]]}], "chunk": whole},
        {"w": "Bs", "ops": [CSM_PLAIN, {"k": "tkl", "tkl": 15, "code": rc.CSM}], "chunk": bytesw},
    ]
    reqs, steps, n = sample_bc()
    out.append({"w": "Bc", "reqs": reqs, "ops": steps, "chunk": bytesw})
    # the application's No-Response option (RFC 7967) has to go out with the request
    out.append({"w": "A", "nclients": 1, "ops": [{"tag": 0, "client": 0, "t": 0.0, "code": 2, "len": 30, "r": 5, "o": 0, "seed": 1, "opts": [[258, "02"]]}],
                "chunk": whole})
    out.append({"w": "Bc", "reqs": reqs, "ops": [{"after": 0, "frames": [dict(CSM_PLAIN)]}, {"after": 2, "frames": [{"k": "abort"}]}], "chunk": whole})
    out.append({"w": "Bc", "reqs": reqs[:1], "ops": [{"after": 1, "frames": [{"k": "resp", "req": 0, "len": 5}]}], "chunk": whole})
    # the peer stops reading in the middle of the requests and then says Release / Abort: the client's transport
    # cannot finish closing, the requests have to fail all the same
    for kind in ("release", "abort"):
        for at in (10, 20, 30, 45, 60):
            out.append({"w": "Bc", "reqs": reqs, "ops": [{"after": 0, "frames": [dict(CSM_PLAIN)]}, {"after": 1, "frames": [{"k": kind, "opts": []}]}],
                        "chunk": {"c2s": {"mode": "whole"}, "s2c": {"mode": "whole", "latency": 0.5}},
                        "fault": {"kind": "stall", "dir": "c2s", "at": at}})
    return out


def shrink(scn):
    # simpler chunking first, then fewer / smaller things
    ch = scn.get("chunk") or {}
    for d in ("c2s", "s2c"):
        if (ch.get(d) or {}).get("mode", "whole") != "whole":
            c = dict(scn)
            c["chunk"] = dict(ch)
            c["chunk"][d] = {"mode": "whole"}
            yield c
    if scn.get("fault"):
        c = dict(scn)
        c["fault"] = None
        yield c
    if scn.get("w") == "Br":
        n = len(scn["conns"])
        if n > 2:
            yield dict(scn, conns=scn["conns"][:-1], reqs=scn["reqs"][:-1])
            yield dict(scn, conns=scn["conns"][1:], reqs=[dict(q, tag=k) for k, q in enumerate(scn["reqs"][1:])])
        for j, cn in enumerate(scn["conns"]):
            if cn.get("csm_opts"):
                yield dict(scn, conns=scn["conns"][:j] + [dict(cn, csm_opts=[])] + scn["conns"][j + 1:])
        return
    if scn.get("w") == "Bc":
        if len(scn["reqs"]) > 1:
            c = dict(scn)
            c["reqs"] = scn["reqs"][:-1]
            yield c
        for i, st in enumerate(scn["ops"]):
            for j in range(len(st["frames"])):
                c = dict(scn)
                c["ops"] = list(scn["ops"])
                c["ops"][i] = dict(st, frames=st["frames"][:j] + st["frames"][j + 1:])
                yield c
    if scn.get("w") == "A" and scn.get("nclients", 1) > 1:
        c = dict(scn)
        c["nclients"] = 1
        c["ops"] = [dict(o, client=0) for o in scn["ops"]]
        yield c
    lst = scn["reqs"] if scn.get("w") == "Bc" else scn["ops"]
    key = "reqs" if scn.get("w") == "Bc" else "ops"
    for i, o in enumerate(lst):
        for f, small in (("len", 0), ("r", 2), ("d", 0), ("opts", []), ("gap", 0), ("o", 0)):
            if f in o and o[f] != small and o[f]:
                c = dict(scn)
                c[key] = list(lst)
                c[key][i] = dict(o)
                c[key][i][f] = small
                yield c


def evidence_extra(total):
    p = total["probes"]
    return {
        "cut_points_enumerated": p.get("cut_points", 0),
        "cut_enumeration_runs": p.get("sys_runs", 0),
        "chunks_delivered": p.get("chunks", 0),
        "stream_bytes": p.get("stream_bytes", 0),
        "twin_runs_compared": p.get("twin_compared", 0),
        "streams": total["datagrams"],
    }


# ------------------------------------------------------------------ execution: shared pieces

WHOLE = {"mode": "whole"}
NO_ABORT_KIND = {"oversize": "C15/oversize-no-abort", "tkl": "C15/tkl-no-abort", "unparsable": "C15/unparsable-frame-no-abort",
                 "critical-option": "C15/critical-signalling-option-no-abort", "no-csm": "C15/no-csm-no-abort"}


def snapshot(msg):
    return {"code": int(msg.code), "token": bytes(msg.token or b""),
            "options": [(int(o.number), bytes(o.encode())) for o in msg.opt.option_list()],
            "payload": bytes(msg.payload or b"")}


def install_tap(ctx, sink, sim, closing_of=None):
    """Record every message handed to a token manager of `ctx` (the
    observation point the property names)."""
    n = 0
    for tman in ctx.request_interfaces:
        if not (hasattr(tman, "process_request") and hasattr(tman, "process_response")):
            continue
        n += 1

        def wrap(orig, what):
            def f(msg):
                closing = bool(closing_of(msg)) if closing_of is not None else False
                sink.append({"what": what, "m": snapshot(msg), "t": sim.loop.now, "closing": closing, "remote": msg.remote})
                return orig(msg)
            return f

        tman.process_request = wrap(tman.process_request, "req")
        tman.process_response = wrap(tman.process_response, "resp")
    if n == 0:
        raise RuntimeError("no token manager found to observe")


def to_aiocoap(m, uri=None):
    from aiocoap import Message
    from aiocoap.numbers.optionnumbers import OptionNumber

    msg = Message(code=m["code"], uri=uri) if uri else Message(code=m["code"])
    for n, v in m["options"]:
        msg.opt.add_option(OptionNumber(n).create_option(decode=bytes(v)))
    msg.payload = bytes(m["payload"])
    return msg


def make_site(sim, handler_log):
    import asyncio
    import aiocoap.resource as resource

    class Echo(resource.Resource):
        async def needs_blockwise_assembly(self, request):
            return False

        async def render(self, request):
            snap = snapshot(request)
            handler_log.append({"m": snap, "t": sim.loop.now})
            d = handler_delay(snap)
            if d:
                await asyncio.sleep(d)
            return to_aiocoap(planned_response(snap))

    site = resource.Site()
    site.add_resource(["e"], Echo())
    return site


def strip_path(m):
    return dict(m, options=[(n, v) for n, v in m["options"] if n != rc.URI_PATH])


def policy_fn(chunk, fault=None):
    def f(conn, d):
        spec = dict((chunk or {}).get(d) or WHOLE)
        if fault and fault.get("kind") in ("reset", "eof", "stall") and fault.get("dir") == d and conn.index == fault.get("conn", 0):
            spec[{"reset": "reset_at", "eof": "eof_at", "stall": "stall_at"}[fault["kind"]]] = fault["at"]
        return spec
    return f


def decoded(pipe_stream):
    """Reference-decode a stream aiocoap wrote: (frames [(a, b, msg, err, first bytes)], rest)."""
    frames, rest = split_frames(pipe_stream)
    return [(a, b, m, e, bytes(pipe_stream[a:a + 5])) for (a, b, m, e) in frames], rest


def compare_seq(expected, observed, why_no_csm=False):
    """Expected vs observed dispatch sequence.  Returns [(kind, detail)] and the
    tokens of unexplained observed messages."""
    v = []
    stray = []
    i = j = 0
    while i < len(observed):
        ob = observed[i]
        while j < len(expected) and expected[j].get("optional") and msg_key(expected[j]) != msg_key(ob):
            j += 1
        if j < len(expected) and msg_key(expected[j]) == msg_key(ob):
            i += 1
            j += 1
            continue
        # not what comes next
        later = [k for k in range(j, len(expected)) if msg_key(expected[k]) == msg_key(ob)]
        stray.append(ob["token"])
        if ob["code"] == 0:
            v.append(("C15/empty-message-dispatched", {"dispatched": brief(ob)}))
        elif why_no_csm:
            v.append(("C15/dispatched-before-csm", {"dispatched": brief(ob)}))
        elif later:
            v.append(("C15/dispatch-order", {"dispatched": brief(ob), "expected_next": brief(expected[j])}))
            j = later[0] + 1
        elif j < len(expected) and expected[j]["token"] == ob["token"] and expected[j]["code"] == ob["code"]:
            v.append(("C15/dispatched-message-differs", {"dispatched": brief(ob), "sent": brief(expected[j])}))
            j += 1
        else:
            v.append(("C15/unexpected-dispatch", {"dispatched": brief(ob)}))
        i += 1
    missing = [e for e in expected[j:] if not e.get("optional")]
    if missing:
        v.append(("C15/message-not-dispatched", {"missing": [brief(m) for m in missing[:3]], "n": len(missing)}))
    return v, stray


def judge_endpoint(O, ob):
    """Reference outcome O against the observation of one real endpoint."""
    v = []
    if ob["out_err"] or ob["out_rest"]:
        v.append(("C15/output-not-decodable", {"error": ob["out_err"], "rest": ob["out_rest"][:32].hex()}))
    aborts = [m for m in ob["out"] if m["code"] == rc.ABORT]
    if ob["fatal"]:
        # an exception left data_received: the frame was not processable for this
        # endpoint and the connection went down without an Abort, whatever else was due
        v.append((NO_ABORT_KIND["unparsable"], {"exception_escaped_data_received": ob["fatal"], "model_end": [O.end, O.why],
                                                "abort_written": bool(aborts), "close_reason": ob["close_reason"]}))
    elif O.end == "abort":
        if not aborts:
            v.append((NO_ABORT_KIND.get(O.why, "C15/no-abort"), {"why": O.why, "at_offset": O.end_off, "closed": ob["closing"],
                                                                   "close_reason": ob["close_reason"]}))
        elif ob["close_reason"] != "close":
            v.append(("C15/abort-without-close", {"why": O.why, "close_reason": ob["close_reason"]}))
    elif O.end != "unchecked":
        if aborts:
            v.append(("C15/unexpected-abort", {"abort": brief(aborts[0]), "diagnostic": aborts[0]["payload"][:60].decode("latin-1"),
                                               "empties": O.empties, "end": O.end}))
        elif O.end == "open" and ob["closing"]:
            v.append(("C15/unexpected-close", {"close_reason": ob["close_reason"], "empties": O.empties}))
        elif O.end == "peer_close" and not ob["closing"]:
            v.append(("C15/release-not-closing", {"peer_sent": O.why}))
    dv, stray = compare_seq(O.dispatch, ob["tap"], why_no_csm=(O.why == "no-csm"))
    v += dv
    pongs = sorted(m["token"] for m in ob["out"] if m["code"] == rc.PONG)
    want = sorted(O.pongs)
    if pongs != want:
        extra = list(pongs)
        for t in want:
            if t in extra:
                extra.remove(t)
        lack = list(want)
        for t in pongs:
            if t in lack:
                lack.remove(t)
        if extra and lack and len(pongs) == len(want):
            v.append(("C15/pong-token-mismatch", {"pongs": [t.hex() for t in pongs], "pings": [t.hex() for t in want]}))
        elif extra:
            v.append(("C15/spurious-pong", {"pongs": [t.hex() for t in extra]}))
        elif O.end == "open":
            v.append(("C15/ping-not-answered", {"pings": [t.hex() for t in lack]}))
    return v, stray


def judge_branches(stream, ob, extra):
    """Any branch of the reference receiver may match; if none does, the
    violations of the branch with the fewest of them are reported (the
    preferred branch on a tie)."""
    best = None
    for O in all_branches(stream):
        v, stray = judge_endpoint(O, ob)
        v += extra(O, stray)
        if not v:
            return O, []
        if best is None or len({k for k, _ in v}) < len({k for k, _ in best[1]}):
            best = (O, v)
    return best


def endpoint_observation(sim, tap, out_stream, tr, out_limit=None):
    data = bytes(out_stream if out_limit is None else out_stream[:out_limit])
    frames, rest = split_frames(data)
    err = None
    out = []
    for (a, b, m, e) in frames:
        if m is None:
            err = e
            rest = data[a:]
            break
        out.append(m)
    return {"tap": [e["m"] for e in tap if not e["closing"]], "tap_late": [e["m"] for e in tap if e["closing"]],
            "out": out, "out_rest": bytes(rest), "out_err": err, "closing": tr.is_closing(), "close_reason": tr.close_reason,
            "fatal": ("%s: %s" % (type(tr.fatal).__name__, str(tr.fatal)[:80])) if (tr.fatal is not None and not tr.fatal_late) else None,
            "fatal_late": tr.fatal is not None and tr.fatal_late,
            "frames": [(a, b, m, e, data[a:a + 5]) for (a, b, m, e) in frames if m is not None]}


def count_outcome_probes(sim, O):
    if O.end == "abort":
        sim.probe("abort_expected")
        sim.probe({"tkl": "tkl", "oversize": "oversize", "unparsable": "unparsable", "critical-option": "critical_sig_option",
                   "no-csm": "csm_missing"}.get(O.why, "abort_other"))
    if O.end == "peer_close":
        sim.probe("release" if O.why == "release" else "peer_abort")
    if O.pongs:
        sim.probe("ping", len(O.pongs))
    if O.empties:
        sim.probe("empty", O.empties)
    for k in O.either:
        sim.probe("open_point")
    if "signalling-before-csm" in O.either and O.counts.get("csm"):
        sim.probe("csm_late")


def shutdown_ctx(sim, ctxs):
    import asyncio

    async def go():
        for c in ctxs:
            try:
                await asyncio.wait_for(c.shutdown(), 60)
            except asyncio.TimeoutError:
                sim.anomaly("shutdown-timeout", "")
    sim.loop.run_until_complete(go())
    sim.run()


# ------------------------------------------------------------------ workload Bs: scripted client -> real server


def run_bs(sim, scn, chunk, wid, nworld):
    import aiocoap

    loop = sim.loop
    sn = SimStreamNet(sim, prefix=wid + ":")
    loop.streamnet = sn
    sn.policy_for = policy_fn(chunk)
    ip = "fd00:%d::1" % nworld
    handler_log = []
    tap = []
    state = {}
    site = make_site(sim, handler_log)
    peer = TcpPeer(sim, wid + ":peer")

    async def setup():
        srv = await aiocoap.Context.create_server_context(site, bind=(ip, 5683), transports=["tcpserver"], loggername="coap-server")
        order_tcp_pools(srv)
        install_tap(srv, tap, sim, closing_of=lambda msg: state["tr"].is_closing())
        await peer.connect(ip, 5683)
        return srv

    srv = loop.run_until_complete(setup())
    conn = sn.conns[0]
    state["tr"] = conn.s
    # the peer writes its frames; frames without "gap" join the previous write burst
    t = loop.now
    burst = bytearray()
    plan = []
    for f in scn["ops"]:
        if f.get("gap") and burst:
            plan.append((t, bytes(burst)))
            burst = bytearray()
        if f.get("gap"):
            t += f["gap"]
        burst += frame_bytes(f)
    if burst:
        plan.append((t, bytes(burst)))
    for (when, data) in plan:
        loop.at(when, peer.write, data)
    sim.run()
    stream = bytes(conn.c2s.stream)
    ob = endpoint_observation(sim, tap, conn.s2c.stream, conn.s)
    delivered_all = conn.c2s.delivered == len(stream) or conn.s.is_closing()
    if not delivered_all:
        raise RuntimeError("peer stream not delivered: %d of %d" % (conn.c2s.delivered, len(stream)))

    def extra(O, stray):
        v = []
        expected = {}
        for d in O.dispatch:
            if d["code"] >> 5 == 0 and not d.get("optional") and rc.opts(d, rc.URI_PATH) == [b"e"]:
                expected[d["token"]] = dict(planned_response(d), token=d["token"])
        lenient = {d["token"] for d in O.dispatch if d.get("optional") or rc.opts(d, rc.URI_PATH) != [b"e"]}
        seen = {}
        for m in ob["out"]:
            cls = m["code"] >> 5
            if m["code"] in (rc.CSM, rc.PONG, rc.ABORT):
                continue
            if cls in (2, 4, 5):
                if m["token"] in expected and not seen.get(m["token"]) and msg_key(m) == msg_key(expected[m["token"]]):
                    seen[m["token"]] = 1
                    continue
                if m["token"] in lenient and m["token"] not in expected:
                    continue
                if m["token"] in stray:
                    continue  # already reported as a dispatch violation
                if m["token"] not in expected:
                    v.append(("C15/unexpected-output", {"written": brief(m)}))
                    continue
                seen[m["token"]] = seen.get(m["token"], 0) + 1
                if seen[m["token"]] > 1:
                    v.append(("C15/duplicate-response", {"written": brief(m)}))
                elif msg_key(m) != msg_key(expected[m["token"]]):
                    v.append(("C15/response-differs", {"written": brief(m), "handler_returned": brief(expected[m["token"]])}))
            else:
                v.append(("C15/unexpected-output", {"written": brief(m)}))
        if O.end == "open":
            miss = [t for t in expected if t not in seen and t not in stray]
            if miss:
                v.append(("C15/response-missing", {"tokens": [t.hex() for t in miss[:5]]}))
            want = [strip_path(d) for d in O.dispatch if not d.get("optional") and d["code"] >> 5 == 0 and rc.opts(d, rc.URI_PATH) == [b"e"]]
            got = [h["m"] for h in handler_log]
            if stray:
                pass  # a message was handed on that should not have been (reported above); the handler log is disturbed by it
            elif [msg_key(m) for m in want] != [msg_key(m) for m in got]:
                if len(want) != len(got):
                    v.append(("C15/handler-invocations", {"expected": len(want), "seen": len(got)}))
                else:
                    k = [i for i in range(len(want)) if msg_key(want[i]) != msg_key(got[i])][0]
                    v.append(("C15/handler-saw-different-message", {"sent": brief(want[k]), "seen": brief(got[k])}))
        return v

    O, viols = judge_branches(stream, ob, extra)
    for kind, detail in viols:
        sim.violation(kind, dict(detail, world=wid, workload="Bs"))
    if ob["tap_late"]:
        # (whether the bytes behind the message that ended the connection arrive in the same segment or a moment later
        # must make no difference: cut off there, they are never looked at)
        sim.violation("C15/dispatched-after-close", {"n": len(ob["tap_late"]), "first": brief(ob["tap_late"][0]) if isinstance(ob["tap_late"][0], dict) else str(ob["tap_late"][0])[:80],
                                                     "world": wid, "workload": "Bs"})
    if ob["fatal_late"]:
        sim.anomaly("exception-after-close", "data_received raised while handling bytes that followed its own close()")
    count_outcome_probes(sim, O)
    len_probes(sim, ob["frames"])
    sim.log("app", "bs-outcome", wid, O.end, O.why, len(ob["tap"]), ob["closing"], ob["close_reason"])
    # end of the world: the peer goes away, the server shuts down
    peer.close()
    sim.run()
    shutdown_ctx(sim, [srv])
    obs = {"aborted": any(m["code"] == rc.ABORT for m in ob["out"]), "closing": ob["closing"],
           "tap": [hashlib.sha256(repr(msg_key(m)).encode()).hexdigest()[:12] for m in ob["tap"]],
           "pongs": sorted(m["token"].hex() for m in ob["out"] if m["code"] == rc.PONG),
           "handler": ([hashlib.sha256(repr(msg_key(h["m"])).encode()).hexdigest()[:12] for h in handler_log] if O.end == "open" else None)}
    return {"obs": obs, "sn": sn, "kinds": [f["k"] for f in scn["ops"]], "end": O.end}


# ------------------------------------------------------------------ workload Bc: real client -> scripted server


def bc_request_msg(q):
    base = [(rc.URI_PATH, b"e"), (rc.URI_QUERY, b"t=%d" % q["tag"])]
    base += [(int(n), bytes.fromhex(v)) for n, v in q.get("opts", [])]
    opts, payload = fit_request(base, q.get("len", 0), seed=q.get("seed", 1))
    return {"code": q["code"], "token": b"", "options": opts, "payload": payload}


def sent_differs(written, given):
    """(kind, detail) for a message on the wire that is not the message the application handed over."""
    wn = [n for n, _ in written["options"]]
    dropped = sorted({n for n, _ in given["options"] if n not in wn})
    if dropped:
        rest = dict(given, options=[(n, v) for n, v in given["options"] if n not in dropped])
        if msg_key(written, False) == msg_key(rest, False):
            return ("C15/option-dropped-on-send", {"option_numbers": dropped, "written": brief(written), "given": brief(given)})
    return ("C15/sent-message-differs", {"written": brief(written), "given": brief(given)})


def tag_of(m):
    t = parse_query(m["options"]).get("t")
    try:
        return int(t)
    except (TypeError, ValueError):
        return None


def start_request(sim, ctx, m, uri, outcomes, tag):
    msg = to_aiocoap(m, uri=uri)
    rec = {"done": 0, "outcome": None}
    outcomes[tag] = rec
    req = ctx.request(msg, handle_blockwise=False)

    def done(f):
        rec["done"] += 1
        rec["t"] = sim.loop.now
        if f.cancelled():
            rec["outcome"] = "cancelled"
        elif f.exception() is not None:
            rec["outcome"] = "error"
            rec["exception"] = f.exception()
        else:
            rec["outcome"] = "response"
            rec["response"] = snapshot(f.result())
            rec["raw_response"] = f.result()
        sim.log("app", "done", tag, rec["outcome"], type(rec.get("exception")).__name__ if rec.get("exception") is not None else
                (rc.code_str(rec["response"]["code"]) if rec.get("response") else None))

    req.response.add_done_callback(done)
    sim.log("app", "start", tag)


def run_bc(sim, scn, chunk, wid, nworld):
    import aiocoap
    from aiocoap import error

    loop = sim.loop
    sn = SimStreamNet(sim, prefix=wid + ":", client_ip="fd00:%d::2" % nworld)
    loop.streamnet = sn
    sn.policy_for = policy_fn(chunk, scn.get("fault") or None)
    ip = "fd00:%d::10" % nworld
    tap = []
    outcomes = {}
    steps = scn["ops"]
    st = {"next": 0, "tokens": [], "marks": []}

    def advance(peer):
        if peer.transport is None or peer.transport.is_closing():
            return
        frames, _ = split_frames(peer.rx)
        st["tokens"] = [m["token"] for (a, b, m, e) in frames if m is not None and m["code"] >> 5 == 0 and m["code"] != 0]
        while st["next"] < len(steps) and steps[st["next"]]["after"] <= len(st["tokens"]):
            step = steps[st["next"]]
            st["next"] += 1
            data = b"".join(frame_bytes(f, st["tokens"]) for f in step["frames"])
            if data:
                peer.write(data)
                st["marks"].append((len(peer.tx), len(st["tokens"])))

    def factory(n):
        listener.server.close()  # one connection only; later attempts are refused
        return TcpPeer(sim, wid + ":peer", on_data=lambda p, d: advance(p), on_event=lambda p, k, i: advance(p) if k == "made" else None)

    listener = TcpPeerListener(sim, ip, 5683, factory)

    async def setup():
        await listener.start()
        cli = await aiocoap.Context.create_client_context(transports=["tcpclient"], loggername="coap")
        install_tap(cli, tap, sim, closing_of=lambda msg: sn.conns[0].c.is_closing() if sn.conns else False)
        return cli

    cli = loop.run_until_complete(setup())
    t0 = loop.now
    uri = "coap+tcp://[%s]" % ip
    for q in scn["reqs"]:
        loop.at(t0 + q["t"], start_request, sim, cli, bc_request_msg(q), uri, outcomes, q["tag"])
    sim.run()
    if not sn.conns:
        raise RuntimeError("client never connected")
    conn = sn.conns[0]
    peer = listener.peers[0]
    stream = bytes(conn.s2c.stream)
    ob = endpoint_observation(sim, tap, conn.c2s.stream, conn.c)
    reqs = {q["tag"]: q for q in scn["reqs"]}
    token_of = {}
    for m in ob["out"]:
        if m["code"] >> 5 == 0 and m["code"] != 0 and tag_of(m) in reqs and tag_of(m) not in token_of:
            token_of[tag_of(m)] = m["token"]
    answered = {}

    def extra(O, stray):
        v = []
        seen_tags = set()
        for m in ob["out"]:
            if m["code"] in (rc.CSM, rc.PONG, rc.ABORT):
                continue
            tag = tag_of(m)
            if m["code"] >> 5 == 0 and m["code"] != 0 and tag in reqs and tag not in seen_tags:
                seen_tags.add(tag)
                want = bc_request_msg(reqs[tag])
                if msg_key(m, False) != msg_key(want, False):
                    v.append(sent_differs(m, want))
            elif not (m["code"] >> 5 in (2, 4, 5) and m["token"] in stray):
                v.append(("C15/unexpected-output", {"written": brief(m)}))
        answered.clear()
        optional_tokens = {d["token"] for d in O.dispatch if d.get("optional")}
        for tag, tok in token_of.items():
            for d in O.dispatch:
                if d["token"] == tok and d["code"] >> 5 in (2, 4, 5) and not d.get("optional"):
                    answered[tag] = d
                    break
        known = None
        if O.end == "peer_close":
            n = None
            for (txoff, ntok) in st["marks"]:
                if txoff >= O.end_off:
                    n = ntok
                    break
            known = set(st["tokens"][:n]) if n is not None else set()
        for tag, rec in outcomes.items():
            tok = token_of.get(tag)
            if tag in answered:
                d = answered[tag]
                if rec["outcome"] != "response":
                    v.append(("C15/response-not-delivered-to-application", {"tag": tag, "outcome": rec["outcome"],
                                                                             "exception": repr(rec.get("exception"))[:120], "sent": brief(d)}))
                elif msg_key(rec["response"], False) != msg_key(d, False):
                    v.append(("C15/application-response-differs", {"tag": tag, "got": brief(rec["response"]), "sent": brief(d)}))
                continue
            if rec["outcome"] == "response" and tok not in optional_tokens:
                if any(msg_key(rec["response"], False) == msg_key(m, False) for m in ob["tap_late"]):
                    continue  # handed on after the endpoint had closed the connection: counted as anomaly only
                v.append(("C15/response-without-source", {"tag": tag, "got": brief(rec["response"])}))
                continue
            if known is not None and tok is not None and tok in known:
                if rec["outcome"] is None:
                    v.append(("C15/pending-request-not-failed", {"tag": tag, "peer_sent": O.why}))
                elif rec["outcome"] == "error" and not isinstance(rec["exception"], error.NetworkError):
                    v.append(("C15/pending-request-wrong-error", {"tag": tag, "exception": repr(rec["exception"])[:160]}))
                elif rec["outcome"] == "error":
                    sim.probe("pending_failed")
        if rec_twice(outcomes):
            v.append(("C15/request-completed-twice", {}))
        return v

    O, viols = judge_branches(stream, ob, extra)
    extra(O, [m["token"] for m in ob["tap"]])  # leave `answered` as computed for the branch that is reported
    for kind, detail in viols:
        sim.violation(kind, dict(detail, world=wid, workload="Bc"))
    if ob["tap_late"]:
        # (whether the bytes behind the message that ended the connection arrive in the same segment or a moment later
        # must make no difference: cut off there, they are never looked at)
        sim.violation("C15/dispatched-after-close", {"n": len(ob["tap_late"]), "first": brief(ob["tap_late"][0]) if isinstance(ob["tap_late"][0], dict) else str(ob["tap_late"][0])[:80],
                                                     "world": wid, "workload": "Bc"})
    if ob["fatal_late"]:
        sim.anomaly("exception-after-close", "data_received raised while handling bytes that followed its own close()")
    for tag, rec in outcomes.items():
        if rec["outcome"] == "error" and not isinstance(rec["exception"], error.Error):
            sim.anomaly("request-failed-with-foreign-exception", repr(rec["exception"]))
    count_outcome_probes(sim, O)
    len_probes(sim, ob["frames"])
    if len(sn.conns) > 1 or sn.attempts > 1:
        sim.probe("reconnect")
    sim.log("app", "bc-outcome", wid, O.end, O.why, len(ob["tap"]), ob["closing"], ob["close_reason"])
    for c in sn.conns:
        c.c2s.unstall()
    shutdown_ctx(sim, [cli])
    peer.close()
    sim.run()
    obs = {"aborted": any(m["code"] == rc.ABORT for m in ob["out"]), "closing": ob["closing"],
           "tap": [hashlib.sha256(repr(msg_key(m, False)).encode()).hexdigest()[:12] for m in ob["tap"]],
           "pongs": sorted(m["token"].hex() for m in ob["out"] if m["code"] == rc.PONG),
           "answered": {str(tag): (outcomes[tag]["outcome"], hashlib.sha256(repr(msg_key(outcomes[tag]["response"], False)).encode()).hexdigest()[:12]
                                   if outcomes[tag].get("response") else None) for tag in sorted(answered) if tag in outcomes}}
    return {"obs": obs, "sn": sn, "kinds": [f["k"] for s_ in steps for f in s_["frames"]], "end": O.end}


# ------------------------------------------------------------------ workload Br: a real client over successive connections


def gen_br(r):
    n = r.randint(2, 4)
    conns = []
    for j in range(n):
        conns.append({"csm": r.weighted([(6, "first"), (2, "none"), (2, "late")]) if j else r.weighted([(8, "first"), (1, "none"), (1, "late")]),
                      "csm_opts": r.choice([[], [[2, "100000"], [4, ""]], [[2, "0480"]]]),
                      "end": r.choice(["close", "release", "abort", "reset"])})
    return {"w": "Br", "conns": conns, "gap": r.choice([0.5, 2.0, 30.0]), "reuse_remote": r.chance(0.3),
            "reqs": [{"tag": k, "code": r.choice([rc.GET, rc.POST]), "len": r.choice([0, 5, 13]), "seed": k + 1, "opts": []} for k in range(n)],
            "chunk": {"c2s": WHOLE, "s2c": r.choice([WHOLE, {"mode": "bytes"}, {"mode": "fixed", "size": 3, "max_small": 100000}])}}


def run_br(sim, scn, chunk, wid, nworld):
    """One client context, one server address, one connection after the other: connection j serves request j and then
    goes away (closed, released, aborted, reset); the next request opens connection j+1.  Every connection stands for
    itself: nothing is dispatched on it before ITS peer's CSM, whatever an earlier connection to the same address did."""
    import aiocoap
    from aiocoap import error

    loop = sim.loop
    sn = SimStreamNet(sim, prefix=wid + ":", client_ip="fd00:%d::2" % nworld)
    loop.streamnet = sn
    sn.policy_for = policy_fn(chunk, None)
    ip = "fd00:%d::1" % nworld
    tap = []
    outcomes = {}
    conns = scn["conns"]
    served = {}  # connection index -> {"tokens": [...], "answered": token or None}

    def advance(p, j):
        spec = conns[min(j, len(conns) - 1)]
        st = served.setdefault(j, {"tokens": [], "answered": None, "resp": None})
        frames, _rest = split_frames(p.rx)
        for (a, b, m, err) in frames:
            if m is None or not (1 <= m["code"] < 32) or m["token"] in st["tokens"]:
                continue
            st["tokens"].append(m["token"])
            if st["answered"] is not None or not p.is_open:
                continue
            st["answered"] = m["token"]
            resp = {"code": rc.CONTENT, "token": m["token"], "options": [], "payload": b"conn%d" % j}
            st["resp"] = resp
            out = rc.tcp_encode(resp)
            if spec["csm"] == "late":
                out += rc.tcp_encode({"code": rc.CSM, "token": b"", "options": [(int(n), bytes.fromhex(v)) for n, v in spec["csm_opts"]], "payload": b""})
            p.write(out)
            end = spec["end"]

            def finish(p=p, end=end):
                if not p.is_open:
                    return
                if end == "release":
                    p.write(rc.tcp_encode({"code": rc.RELEASE, "token": b"", "options": [], "payload": b""}))
                elif end == "abort":
                    p.write(rc.tcp_encode({"code": rc.ABORT, "token": b"", "options": [], "payload": b"bye"}))
                if end == "reset":
                    p.abort()
                else:
                    p.close()
            loop.after(0.1, finish)

    def factory(n):
        spec = conns[min(n, len(conns) - 1)]

        def made(p, k, i, n=n, spec=spec):
            if k == "made" and spec["csm"] == "first":
                p.write(rc.tcp_encode({"code": rc.CSM, "token": b"", "options": [(int(a), bytes.fromhex(v)) for a, v in spec["csm_opts"]],
                                       "payload": b""}))
        return TcpPeer(sim, wid + ":peer%d" % n, on_data=lambda p, d, n=n: advance(p, n), on_event=made)

    listener = TcpPeerListener(sim, ip, 5683, factory)

    async def setup():
        await listener.start()
        cli = await aiocoap.Context.create_client_context(transports=["tcpclient"], loggername="coap")
        install_tap(cli, tap, sim)
        return cli

    cli = loop.run_until_complete(setup())
    t0 = loop.now
    uri = "coap+tcp://[%s]" % ip
    def start_k(k, q):
        prev = outcomes.get(scn["reqs"][k - 1]["tag"]) if k else None
        if scn.get("reuse_remote") and prev is not None and prev.get("raw_response") is not None:
            # the application addresses the peer through the remote of the response it got before (as the library's
            # own block-wise layer does for follow-up requests): that connection is gone by now
            sim.probe("request_to_remote_of_earlier_response")
            msg = to_aiocoap(bc_request_msg(q))
            msg.remote = prev["raw_response"].remote
            rec = {"done": 0, "outcome": None, "reused_remote": True}
            outcomes[q["tag"]] = rec
            req = cli.request(msg, handle_blockwise=False)

            def done(f, rec=rec, tag=q["tag"]):
                rec["done"] += 1
                rec["t"] = loop.now
                if f.cancelled():
                    rec["outcome"] = "cancelled"
                elif f.exception() is not None:
                    rec["outcome"], rec["exception"] = "error", f.exception()
                else:
                    rec["outcome"], rec["response"], rec["raw_response"] = "response", snapshot(f.result()), f.result()
                sim.log("app", "done", tag, rec["outcome"])
            req.response.add_done_callback(done)
            sim.log("app", "start", q["tag"])
            return
        start_request(sim, cli, bc_request_msg(q), uri, outcomes, q["tag"])

    for k, q in enumerate(scn["reqs"]):
        loop.at(t0 + k * scn.get("gap", 2.0), start_k, k, q)
    sim.run()
    for tag, rec in outcomes.items():
        if rec.get("reused_remote"):
            if rec["outcome"] is None:
                sim.violation("C15/pending-request-not-failed", {"tag": tag, "why": "sent to the remote of an earlier response whose connection "
                                                                  "had ended (close / Release / Abort / reset) long before", "world": wid, "workload": "Br"})
            elif rec["outcome"] == "error" and not isinstance(rec["exception"], error.NetworkError):
                sim.violation("C15/pending-request-wrong-error", {"tag": tag, "exception": repr(rec["exception"])[:160], "world": wid, "workload": "Br"})
    sim.probe("successive_connections", len(sn.conns))
    if len(sn.conns) > 1:
        sim.probe("reconnect")
    viol = []
    for j, conn in enumerate(sn.conns):
        spec = conns[min(j, len(conns) - 1)]
        st = served.get(j, {"tokens": [], "answered": None, "resp": None})
        frames, rest = split_frames(bytes(conn.c2s.stream))
        out = [m for (a, b, m, e) in frames if m is not None]
        aborted = any(m["code"] == rc.ABORT for m in out)
        mine = [e for e in tap if e["remote"] is conn.c.get_protocol() or getattr(e["remote"], "_transport", None) is conn.c]
        delivered = [e["m"] for e in mine if e["what"] == "resp"]
        ident = {"connection": j, "csm": spec["csm"], "earlier_connections": [c_["csm"] for c_ in conns[:j]], "world": wid, "workload": "Br"}
        tags = [k for k, q in enumerate(scn["reqs"]) if any(tag_of(m) == q["tag"] for m in out if 1 <= m["code"] < 32)]
        if spec["csm"] == "first":
            if aborted:
                viol.append(("C15/unexpected-abort", dict(ident, diagnostic=[m["payload"][:40].decode("latin-1") for m in out if m["code"] == rc.ABORT][0])))
            if st["resp"] is not None and not any(msg_key(m, False) == msg_key(st["resp"], False) for m in delivered):
                viol.append(("C15/message-not-dispatched", dict(ident, missing=brief(st["resp"]))))
            for k in tags:
                rec = outcomes.get(scn["reqs"][k]["tag"])
                if st["resp"] is not None and st["answered"] is not None and rec is not None and rec["outcome"] != "response" \
                        and any(tag_of(m) == scn["reqs"][k]["tag"] and m["token"] == st["answered"] for m in out):
                    viol.append(("C15/response-not-delivered-to-application", dict(ident, tag=k, outcome=rec["outcome"],
                                                                                     exception=repr(rec.get("exception"))[:120])))
        elif st["resp"] is not None:
            # the peer answered before (or without) its CSM
            sim.probe("csm_missing")
            if delivered:
                viol.append(("C15/dispatched-before-csm", dict(ident, dispatched=brief(delivered[0]))))
            if not aborted:
                viol.append(("C15/no-csm-no-abort", dict(ident, closed=conn.c.is_closing())))
            elif conn.c.close_reason != "close":
                viol.append(("C15/abort-without-close", dict(ident, close_reason=conn.c.close_reason)))
            for k in tags:
                rec = outcomes.get(scn["reqs"][k]["tag"])
                if rec is not None and rec["outcome"] == "response":
                    viol.append(("C15/response-without-source", dict(ident, tag=k, got=brief(rec["response"]))))
                elif rec is not None and rec["outcome"] is None:
                    viol.append(("C15/pending-request-not-failed", dict(ident, tag=k)))
                elif rec is not None and rec["outcome"] == "error" and not isinstance(rec["exception"], error.NetworkError):
                    viol.append(("C15/pending-request-wrong-error", dict(ident, tag=k, exception=repr(rec["exception"])[:160])))
    for kind, detail in viol:
        sim.violation(kind, detail)
    if rec_twice(outcomes):
        sim.violation("C15/request-completed-twice", {"world": wid, "workload": "Br"})
    shutdown_ctx(sim, [cli])
    for p in listener.peers:
        if p.is_open:
            p.close()
    sim.run()
    obs = {"n_conns": len(sn.conns), "outcomes": {str(k): v["outcome"] for k, v in sorted(outcomes.items())},
           "aborts": [any(m is not None and m["code"] == rc.ABORT for (a, b, m, e) in split_frames(bytes(c.c2s.stream))[0]) for c in sn.conns]}
    return {"obs": obs, "sn": sn, "kinds": ["br"], "end": "open"}


def rec_twice(outcomes):
    return any(r["done"] > 1 for r in outcomes.values())


# ------------------------------------------------------------------ workload A: real client(s) <-> real server


def run_a(sim, scn, chunk, wid, nworld):
    import aiocoap
    from aiocoap import error

    loop = sim.loop
    fault = scn.get("fault") or None
    sn = SimStreamNet(sim, prefix=wid + ":")
    loop.streamnet = sn
    sn.policy_for = policy_fn(chunk, fault)
    if fault and fault["kind"] == "refuse":
        sn.connect_fault = lambda index, h, port: "refuse" if index == fault.get("index", 0) else None
    ip = "fd00:%d::1" % nworld
    handler_log = []
    stap = []
    ctaps = []
    outcomes = {}
    site = make_site(sim, handler_log)
    nclients = scn.get("nclients", 1)
    clients = []

    async def setup():
        srv = await aiocoap.Context.create_server_context(site, bind=(ip, 5683), transports=["tcpserver"], loggername="coap-server")
        order_tcp_pools(srv)
        install_tap(srv, stap, sim)
        for i in range(nclients):
            c = await aiocoap.Context.create_client_context(transports=["tcpclient"], loggername="coap")
            t = []
            install_tap(c, t, sim)
            ctaps.append(t)
            clients.append(c)
        return srv

    srv = loop.run_until_complete(setup())
    tis = [[ri.token_interface for ri in c.request_interfaces] for c in clients]

    def source_ip(proto):
        owner = getattr(proto, "_ctx", None)
        for i, lst in enumerate(tis):
            if any(owner is ti for ti in lst):
                return "fd00:%d::%d" % (nworld, 2 + i)
        return None

    sn.source_ip_of = source_ip
    t0 = loop.now
    uri = "coap+tcp://[%s]" % ip
    ops = {op["tag"]: op for op in scn["ops"]}
    times = sorted(op["t"] for op in scn["ops"])
    if any(times[i] == times[i + 1] for i in range(len(times) - 1)):
        sim.probe("concurrent")
    for op in scn["ops"]:
        loop.at(t0 + op["t"], start_request, sim, clients[op["client"] % nclients], a_request_msg(op), uri, outcomes, op["tag"])
    sim.run()
    clean = fault is None
    viol = lambda kind, detail: sim.violation(kind, dict(detail, world=wid, workload="A"))
    wire_req = {}  # requests that went out differently from what the application gave (reported once, there)
    handler_by_tag = {}
    for h in handler_log:
        handler_by_tag.setdefault(tag_of(h["m"]), []).append(h["m"])
    ctap = [e for t in ctaps for e in t]
    stap_msgs = [e["m"] for e in stap]
    ctap_msgs = [e["m"] for e in ctap]
    protos = [c.s.get_protocol() for c in sn.conns] + [c.c.get_protocol() for c in sn.conns]
    for e in stap + ctap:
        if not any(e["remote"] is p for p in protos):
            raise RuntimeError("message handed to a token manager with a remote that is no simulated connection")
    for conn in sn.conns:
        frames = {}
        for d in ("c2s", "s2c"):
            fr, rest = decoded(conn.pipe(d).stream)
            frames[d] = fr
            bad = [f for f in fr if f[2] is None]
            if bad or rest:
                viol("C15/output-not-decodable", {"conn": conn.name, "dir": d, "error": bad[0][3] if bad else "trailing bytes",
                                                  "rest": bytes(rest[:24]).hex()})
            len_probes(sim, [f for f in fr if f[2] is not None])
        tok2tag = {}
        # requests on the wire are what the application handed over
        for (a, b, m, e, raw0) in frames["c2s"]:
            if m is None:
                continue
            if m["code"] in (rc.CSM, rc.RELEASE, rc.PONG):
                continue
            tag = tag_of(m)
            if m["code"] == rc.ABORT or m["code"] >> 5 != 0 or tag not in ops:
                if not (m["code"] == rc.ABORT and not clean):
                    viol("C15/unexpected-abort" if m["code"] == rc.ABORT else "C15/unexpected-output", {"conn": conn.name, "dir": "c2s", "written": brief(m)})
                continue
            tok2tag[m["token"]] = tag
            want = a_request_msg(ops[tag])
            if msg_key(m, False) != msg_key(want, False):
                kind, detail = sent_differs(m, want)
                viol(kind, dict(detail, tag=tag))
                wire_req[tag] = m
        for (a, b, m, e, raw0) in frames["s2c"]:
            if m is None or m["code"] in (rc.CSM, rc.RELEASE, rc.PONG):
                continue
            tag = tok2tag.get(m["token"])
            if m["code"] >> 5 not in (2, 4, 5) or tag is None:
                if not (m["code"] == rc.ABORT and not clean):
                    viol("C15/unexpected-abort" if m["code"] == rc.ABORT else "C15/unexpected-output", {"conn": conn.name, "dir": "s2c", "written": brief(m)})
                continue
            want = planned_response(a_request_msg(ops[tag]))
            if msg_key(m, False) != msg_key(want, False):
                viol("C15/sent-message-differs", {"tag": tag, "written": brief(m), "given": brief(want), "side": "server"})
        # the receiver hands on exactly the frames that arrived, in order
        for d, who in (("c2s", "server"), ("s2c", "client")):
            pipe = conn.pipe(d)
            arrived = [m for (a, b, m, e, raw0) in frames[d] if m is not None and b <= pipe.delivered and m["code"] >> 5 != 7]
            keyset = [msg_key(m) for m in arrived]
            proto = (conn.s if d == "c2s" else conn.c).get_protocol()
            got = [e["m"] for e in (stap if d == "c2s" else ctap) if e["remote"] is proto]
            if [msg_key(m) for m in got] != keyset:
                dv, _ = compare_seq(arrived, got)
                for kind, detail in dv or [("C15/dispatch-order", {})]:
                    viol(kind, dict(detail, conn=conn.name, receiver=who))
    # application level
    for tag, op in ops.items():
        want_req = strip_path(wire_req.get(tag) or a_request_msg(op))
        seen = handler_by_tag.get(tag, [])
        rec = outcomes.get(tag)
        if len(seen) > 1:
            viol("C15/handler-invocations", {"tag": tag, "seen": len(seen), "expected": 1})
        if seen and msg_key(seen[0], False) != msg_key(want_req, False):
            viol("C15/handler-saw-different-message", {"tag": tag, "sent": brief(want_req), "seen": brief(seen[0])})
        if rec is None:
            continue
        if rec["done"] > 1:
            viol("C15/request-completed-twice", {"tag": tag})
        want = planned_response(a_request_msg(op))
        if rec["outcome"] == "response":
            if msg_key(rec["response"], False) != msg_key(want, False):
                viol("C15/application-response-differs", {"tag": tag, "got": brief(rec["response"]), "sent": brief(want)})
        elif clean:
            viol("C15/request-not-completed", {"tag": tag, "outcome": rec["outcome"], "exception": repr(rec.get("exception"))[:160],
                                               "handler_invoked": bool(seen)})
        elif rec["outcome"] == "error" and not isinstance(rec["exception"], error.NetworkError):
            sim.anomaly("request-failed-with-non-network-error", repr(rec["exception"]))
    if len(sn.conns) > nclients:
        sim.probe("parallel_connections")
    sim.log("app", "a-outcome", wid, len(stap_msgs), len(ctap_msgs), len(sn.conns))
    shutdown_ctx(sim, clients + [srv])
    obs = {"req": {str(tag): [hashlib.sha256(repr(msg_key(m, False)).encode()).hexdigest()[:12] for m in handler_by_tag.get(tag, [])]
                   for tag in sorted(ops)},
           "out": {str(tag): (outcomes[tag]["outcome"], hashlib.sha256(repr(msg_key(outcomes[tag]["response"], False)).encode()).hexdigest()[:12]
                              if outcomes[tag].get("response") else None) for tag in sorted(outcomes)}}
    return {"obs": obs, "sn": sn, "kinds": [(o["code"], min(o["len"], 70000) // 300, min(o["r"], 70000) // 300) for o in scn["ops"]],
            "end": "fault" if fault else "open"}


# ------------------------------------------------------------------ the run


def is_whole(chunk):
    return all(((chunk or {}).get(d) or WHOLE).get("mode", "whole") == "whole" for d in ("c2s", "s2c"))


def execute(sim, scn):
    w = scn["w"]
    runner = {"A": run_a, "Bs": run_bs, "Bc": run_bc, "Br": run_br}[w]
    chunk = scn.get("chunk") or {}
    first = runner(sim, scn, chunk, "v", 1)
    results = [first]
    if not is_whole(chunk) and not scn.get("fault"):
        second = runner(sim, dict(scn, fault=None), {"c2s": WHOLE, "s2c": WHOLE}, "b", 2)
        results.append(second)
        sim.probe("twin_compared")
        if first["obs"] != second["obs"] and not sim.violations:
            diff = sorted(k for k in set(first["obs"]) | set(second["obs"]) if first["obs"].get(k) != second["obs"].get(k))
            sim.violation("C15/chunking-changes-behaviour", {"differs": diff, "chunked": {k: first["obs"].get(k) for k in diff},
                                                             "whole": {k: second["obs"].get(k) for k in diff},
                                                             "chunk": chunk})
    faults = {}
    chunks = 0
    nbytes = 0
    for res in results:
        for k, n in res["sn"].extra_faults().items():
            faults[k] = faults.get(k, 0) + n
        for c in res["sn"].conns:
            for d in ("c2s", "s2c"):
                chunks += len(c.pipe(d).chunks)
                nbytes += c.pipe(d).written
    sim.extra_faults = faults
    sim.probe("chunks", chunks)
    sim.probe("stream_bytes", nbytes)
    if faults.get("reset"):
        sim.probe("reset")
    if faults.get("close_linger"):
        sim.probe("close_lingers")
    if scn.get("sys"):
        sim.probe("sys_runs")
        inside = scn.get("ncuts", 0)
        sim.probe("cut_points", inside)
        if scn["sys"] == "bytes":
            sim.probe("bytewise")
    elif (chunk.get("c2s") or {}).get("mode") == "bytes" or (chunk.get("s2c") or {}).get("mode") == "bytes":
        sim.probe("bytewise")
    h = hashlib.blake2b(digest_size=8)
    h.update(repr((w, first["kinds"], (chunk.get("c2s") or WHOLE).get("mode"), (chunk.get("s2c") or WHOLE).get("mode"),
                   first["end"], min(faults.get("cut", 0), 20), bool(scn.get("fault")))).encode())
    sim.signature = h.hexdigest()
    for (t, m, en, es) in sim.loop_exceptions():
        sim.anomaly("loop-exception", "%s %s %s" % (m, en, es))
