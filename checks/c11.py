"""C11 -- OSCORE: round trip, inner data hidden, responses bound, tampering detected.

Two matching in-memory security contexts A (client) and B (server) plus
foreign contexts (other secret / salt / ID context, reflection).  Every
message crosses a byte-level wire: protect -> Message.encode -> datagram ->
(fault) -> Message.decode -> unprotect.  The outer datagram is inspected with
the independent reference codec, tampering is done on the reference-decoded
datagram (OSCORE option value, ciphertext), never through aiocoap.
"""

import hashlib

from simkit import refcodec as rc
from simkit.decide import KeyRnd, mix

PROPERTY = "C11"
LEVEL = "exploration"
RUNS = {"quick": 3000, "thorough": 80000}
BUDGET = {"quick": 80, "thorough": 3000}
USES_AIOCOAP_NET = False
RULE = ("seeded scenarios: one pair of matching contexts (every non-group AEAD algorithm, sender/recipient ID lengths "
        "0..iv_bytes-6, ID context absent/empty/present, sequence numbers preset so that partial IVs of 1-5 bytes "
        "occur, up to 2^40-2) and 1-8 request/response exchanges with random codes, Class E/U option sets and "
        "payloads; per message a list of faults applied to the datagram: single-bit flips of the OSCORE option and "
        "of the ciphertext, field rewrites (partial IV value/length/padding, KID, KID context, flag bits), "
        "truncation, extension, option removal, cut-and-paste of option or ciphertext from another message, "
        "delivery to a context with other keys, delivery of a response to a foreign request (same and other "
        "context), response replay; systematic part: every single-bit flip of option and ciphertext of sampled "
        "messages. Non-trivial = at least one faulted delivery was made; distinct = distinct hash of (codes, option "
        "numbers, fault kinds, verdict classes).")
COMPONENTS_REAL = ["aiocoap.oscore (CanProtect.protect, _split_message, _compress, CanUnprotect.unprotect, _uncompress, "
                   "_extract_external_aad, _construct_nonce, RequestIdentifiers, ReplayWindow)",
                   "aiocoap.message / aiocoap.options (encode, decode)", "cryptography 38.0.4 (AEAD, HKDF)"]
COMPONENTS_STUB = ["cbor2 (deterministic stand-in, validated against RFC 8613 appendix C)",
                   "network (byte strings handed over directly)", "reference codec for inspecting/tampering datagrams",
                   "in-memory security contexts (post_seqnoincrease is a no-op)"]
ASSUMPTIONS = ["an accepted datagram whose OSCORE option was re-encoded without changing the effective partial IV "
               "value, key ID or ID context (cleared k/h flag with the receiver's own value implied, leading zero "
               "of a response's partial IV, trailing bytes) is counted as an anomaly, not as a violation: the "
               "statement speaks about changes *to* these values",
               "bit flips in the CoAP header, token and outer options are not faults for this property (they are "
               "not protected by OSCORE)", "Observe is excluded from the round-trip comparison (special-cased by "
               "RFC 8613 4.1.3.5)", "a request that protect() refuses (Proxy-Uri) is an anomaly, not a verdict"]
EXPECTED_PROBES = ["outer_observe_rewritten", "roundtrip_request", "roundtrip_response", "piv_len_1", "piv_len_2", "piv_len_3", "piv_len_4",
                   "piv_len_5", "fault_flip_opt", "fault_flip_ct", "fault_piv", "fault_kid", "fault_ctx", "fault_flags",
                   "fault_trunc", "fault_drop_opt", "fault_swap_ct", "fault_swap_opt", "foreign_keys", "cross_pairing",
                   "cross_pairing_other_context", "response_own_piv", "response_replayed", "id_context_present",
                   "empty_sender_id", "allflips_messages", "rejected_decode_error", "rejected_tag", "both_directions", "oversized_response_attempted", "file_backed_context"]

MAX_SEQNO = 2 ** 40 - 1
ALGS = ["AES-CCM-16-64-128", "AES-CCM-16-64-256", "AES-CCM-64-64-128", "AES-CCM-64-64-256",
        "AES-CCM-16-128-128", "AES-CCM-16-128-256", "AES-CCM-64-128-128", "AES-CCM-64-128-256",
        "ChaCha20/Poly1305", "A128GCM", "A192GCM", "A256GCM"]
IV_BYTES = {"AES-CCM-16-64-128": 13, "AES-CCM-16-64-256": 13, "AES-CCM-64-64-128": 7, "AES-CCM-64-64-256": 7,
            "AES-CCM-16-128-128": 13, "AES-CCM-16-128-256": 13, "AES-CCM-64-128-128": 7, "AES-CCM-64-128-256": 7,
            "ChaCha20/Poly1305": 12, "A128GCM": 12, "A192GCM": 12, "A256GCM": 12}
OUTER_ONLY = (rc.URI_HOST, rc.URI_PORT, rc.PROXY_URI, rc.PROXY_SCHEME)
OUTER_ALLOWED = (rc.OSCORE, rc.URI_HOST, rc.URI_PORT, rc.PROXY_URI, rc.PROXY_SCHEME, rc.OBSERVE)
REQ_CODES = [rc.GET, rc.POST, rc.PUT, rc.DELETE, rc.FETCH, rc.PATCH, rc.IPATCH]
RESP_CODES = [rc.CREATED, rc.DELETED, rc.VALID, rc.CHANGED, rc.CONTENT, rc.CONTINUE, rc.BAD_REQUEST, rc.UNAUTHORIZED,
              rc.NOT_FOUND, rc.METHOD_NOT_ALLOWED, rc.REQUEST_ENTITY_INCOMPLETE, rc.INTERNAL_SERVER_ERROR,
              rc.code(5, 3)]


# ------------------------------------------------------------------ generation


def _tok(r, prefix):
    return (prefix + r.randbytes(5).hex()).encode()


def _block(r):
    v = (r.randint(0, 4000) << 4) | (8 if r.chance(0.5) else 0) | r.randint(0, 6)
    return rc.uint_bytes(v)


def gen_msg(r, request):
    opts = []
    if request:
        code = r.choice(REQ_CODES)
        if r.chance(0.15):
            opts.append((rc.IF_MATCH, r.randbytes(8)))
        if r.chance(0.2):
            opts.append((rc.URI_HOST, _tok(r, "host-") + b".example"))
        if r.chance(0.15):
            opts.append((rc.ETAG, r.randbytes(r.randint(6, 8))))
        if r.chance(0.05):
            opts.append((rc.IF_NONE_MATCH, b""))
        if r.chance(0.2):
            opts.append((rc.OBSERVE, rc.uint_bytes(r.choice([0, 0, 1]))))
        if r.chance(0.1):
            opts.append((rc.URI_PORT, rc.uint_bytes(r.randint(1, 65535))))
        for _ in range(r.choice([0, 1, 1, 2, 3])):
            opts.append((rc.URI_PATH, _tok(r, "seg")))
        if r.chance(0.3):
            opts.append((rc.CONTENT_FORMAT, rc.uint_bytes(r.choice([0, 40, 42, 50, 60, 10000, 65535]))))
        for _ in range(r.choice([0, 0, 1, 2])):
            opts.append((rc.URI_QUERY, _tok(r, "q=")))
        if r.chance(0.2):
            opts.append((rc.ACCEPT, rc.uint_bytes(r.choice([0, 40, 60, 65000]))))
        if r.chance(0.1):
            opts.append((rc.BLOCK2, _block(r)))
        if r.chance(0.1):
            opts.append((rc.BLOCK1, _block(r)))
        if r.chance(0.08):
            opts.append((rc.PROXY_SCHEME, r.choice([b"coap", b"coaps", b"http"])))
        if r.chance(0.1):
            opts.append((rc.SIZE1, rc.uint_bytes(r.randint(0, 2 ** 32 - 1))))
        if r.chance(0.1):
            opts.append((rc.ECHO, r.randbytes(r.randint(8, 16))))
        if r.chance(0.05):
            opts.append((rc.NO_RESPONSE, rc.uint_bytes(r.choice([0, 2, 8, 16, 26]))))
        if r.chance(0.1):
            opts.append((rc.REQUEST_TAG, r.randbytes(r.choice([0, 6, 8]))))
        if r.chance(0.03):
            opts = [o for o in opts if o[0] not in (rc.URI_PATH, rc.URI_QUERY, rc.URI_HOST, rc.URI_PORT,
                                                    rc.PROXY_SCHEME)]
            opts.append((rc.PROXY_URI, b"coap://" + _tok(r, "px") + b".example/" + _tok(r, "pp")))
    else:
        code = r.choice(RESP_CODES)
        if r.chance(0.25):
            opts.append((rc.ETAG, r.randbytes(r.randint(6, 8))))
        if r.chance(0.15):
            opts.append((rc.OBSERVE, rc.uint_bytes(r.randint(0, 2 ** 24 - 1))))
        for _ in range(r.choice([0, 0, 0, 1, 2])):
            opts.append((rc.LOCATION_PATH, _tok(r, "loc")))
        if r.chance(0.4):
            opts.append((rc.CONTENT_FORMAT, rc.uint_bytes(r.choice([0, 40, 50, 60, 11542]))))
        if r.chance(0.3):
            opts.append((rc.MAX_AGE, rc.uint_bytes(r.choice([0, 1, 60, 2 ** 32 - 1]))))
        if r.chance(0.1):
            opts.append((rc.LOCATION_QUERY, _tok(r, "lq=")))
        if r.chance(0.15):
            opts.append((rc.BLOCK2, _block(r)))
        if r.chance(0.1):
            opts.append((rc.SIZE2, rc.uint_bytes(r.randint(0, 2 ** 32 - 1))))
        if r.chance(0.1):
            opts.append((rc.ECHO, r.randbytes(r.randint(8, 16))))
    opts.sort(key=lambda o: o[0])
    n = r.choice([0, 0, 1, 7, 8, 16, 16, 33, 64, 200, 1024])
    return {"code": code, "opts": [[n_, v.hex()] for n_, v in opts], "payload": r.randbytes(n).hex()}


def gen_faults(r, n, nmsg):
    out = []
    for _ in range(n):
        k = r.weighted([(22, "flip_opt"), (22, "flip_ct"), (12, "piv"), (8, "kid"), (8, "ctx"), (8, "flags"),
                        (6, "trunc"), (3, "append"), (3, "drop_opt"), (3, "rawopt"), (4, "swap_ct"), (4, "swap_opt")])
        if k in ("flip_opt", "flip_ct"):
            out.append([k, r.randint(0, 4095)])
        elif k == "piv":
            m = r.weighted([(4, "delta"), (3, "set"), (2, "pad"), (1, "drop")])
            if m == "delta":
                out.append(["piv", "delta", r.choice([1, -1, 2, 255, 256, -256, 65536, 2 ** 32, -(2 ** 24)])])
            elif m == "set":
                out.append(["piv", "set", r.randbytes(r.choice([1, 1, 2, 3, 4, 5, 5, 6, 7])).hex()])
            else:
                out.append(["piv", m])
        elif k == "kid":
            m = r.weighted([(4, "set"), (2, "drop"), (2, "add")])
            out.append(["kid", m, r.randbytes(r.randint(0, 7)).hex()])
        elif k == "ctx":
            m = r.weighted([(4, "set"), (2, "drop")])
            out.append(["ctx", m, r.randbytes(r.randint(0, 8)).hex()])
        elif k == "flags":
            out.append(["flags", r.choice([0x08, 0x10, 0x20, 0x40, 0x80, 0x01, 0x02, 0x04, 0x07, 0x18, 0x30,
                                           r.randint(1, 255)])])
        elif k == "trunc":
            out.append(["trunc", r.choice([1, 1, 2, 8, 9, 16, 17, 4000])])
        elif k == "append":
            out.append(["append", r.randbytes(r.choice([1, 8, 16])).hex()])
        elif k == "rawopt":
            out.append(["rawopt", r.randbytes(r.randint(0, 12)).hex()])
        elif k in ("swap_ct", "swap_opt"):
            out.append([k, r.randint(0, 50)])
        else:
            out.append([k])
    return out


def gen_ctx(r):
    alg = "AES-CCM-16-64-128" if r.chance(0.3) else r.choice(ALGS)
    maxid = IV_BYTES[alg] - 6
    while True:
        sid = r.randbytes(min(maxid, r.choice([0, 0, 1, 1, 2, maxid, r.randint(0, maxid)])))
        rid = r.randbytes(min(maxid, r.choice([0, 1, 1, 2, maxid, r.randint(0, maxid)])))
        if sid != rid:
            break
    x = r.random()
    idctx = None if x < 0.55 else (b"" if x < 0.62 else r.randbytes(r.randint(1, 8)))

    def seq():
        b = r.choice([0, 0, 1, 2, 3, 4, 5])
        if b == 0:
            return r.randint(0, 3)
        if b == 5:
            return r.choice([MAX_SEQNO - 20, MAX_SEQNO - 9, r.randint(2 ** 32, MAX_SEQNO - 30)])
        return r.choice([256 ** (b - 1) * 255 + 250 if b > 1 else 250, r.randint(256 ** (b - 1), 256 ** b - 1)])

    return {"alg": alg, "hash": r.choice(["sha256", "sha256", "sha384", "sha512"]), "sid": sid.hex(), "rid": rid.hex(),
            "idctx": None if idctx is None else idctx.hex(), "secret": r.randbytes(16).hex(),
            "salt": r.randbytes(r.choice([0, 8])).hex(), "seq_a": seq(), "seq_b": seq(),
            "send_ctx": not r.chance(0.15), "fs": r.chance(0.2)}


def gen(r, tier):
    ctx = gen_ctx(r)
    n = r.choice([1, 2, 2, 3, 4, 5, 8])
    ops = []
    for i in range(n):
        ops.append({
            "req": gen_msg(r, True),
            "resp": gen_msg(r, False) if r.chance(0.85) else None,
            "own_piv": r.chance(0.35),
            "req_faults": gen_faults(r, r.choice([0, 2, 4, 8]), n),
            "resp_faults": gen_faults(r, r.choice([0, 2, 4, 8]), n),
            "foreign": r.sample(["secret", "salt", "idctx", "reflect", "alg"], r.choice([0, 1, 2])),
            "cross": [r.randint(0, 20) for _ in range(r.choice([0, 1, 2]))],
            "cross_other": r.chance(0.2),
            "replay_resp": r.chance(0.15),
        })
        if ops[-1]["own_piv"] and r.chance(0.3):
            ops[-1]["big_between"] = True
        if r.chance(0.3):
            # somebody on the path rewrites the (unprotected) outer Observe option of the request
            ops[-1]["outer_obs"] = r.choice(["set0", "set0", "drop", "set1"])
    if r.chance(0.3):
        # both ends use their context in both roles: some exchanges run the other way round (B asks, A answers), and
        # the two senders' sequence numbers may well coincide (they are counted per sender)
        for op in ops:
            op["rev"] = r.chance(0.5)
        if r.chance(0.6):
            ctx["seq_b"] = ctx["seq_a"]
    return {"ctx": ctx, "ops": ops}


def _fixed_ctx(**kw):
    c = {"alg": "AES-CCM-16-64-128", "hash": "sha256", "sid": "", "rid": "01", "idctx": None,
         "secret": "0102030405060708090a0b0c0d0e0f10", "salt": "9e7ca92223786340", "seq_a": 20, "seq_b": 0,
         "send_ctx": True}
    c.update(kw)
    return c


def _simple_op(**kw):
    op = {"req": {"code": rc.GET, "opts": [[rc.URI_PATH, b"segment-one".hex()]], "payload": ""},
          "resp": {"code": rc.CONTENT, "opts": [], "payload": b"Hello World! marker".hex()}, "own_piv": False,
          "req_faults": [], "resp_faults": [], "foreign": [], "cross": [], "cross_other": False, "replay_resp": False}
    op.update(kw)
    return op


def corpus():
    out = []
    # flag bits of the option, one at a time, for an option with and without trailing bytes
    flags = [["flags", m] for m in (0x08, 0x10, 0x20, 0x40, 0x80, 0x01, 0x02, 0x04)]
    for sid in ("", "01", "0102030405"):
        for idctx in (None, "37cbf3210017a2d3"):
            out.append({"ctx": _fixed_ctx(sid=sid, rid="ff" if sid == "01" else "01", idctx=idctx),
                        "ops": [_simple_op(req_faults=flags, resp_faults=flags, own_piv=True)],
                        "name": "flag-bits"})
    # partial IV lengths 6 and 7 (reserved), padding, removal
    pivs = [["piv", "set", "000000000005"], ["piv", "set", "00000000000005"], ["piv", "pad"], ["piv", "drop"],
            ["piv", "delta", 1], ["piv", "delta", -1]]
    out.append({"ctx": _fixed_ctx(sid="01", rid="02", seq_a=5, seq_b=5),
                "ops": [_simple_op(req_faults=pivs, resp_faults=pivs, own_piv=True)], "name": "piv-rewrites"})
    # cross pairing of responses, same and other context, all foreign receivers
    out.append({"ctx": _fixed_ctx(sid="01", rid="02"),
                "ops": [_simple_op(cross=[1, 2], cross_other=True, foreign=["secret", "salt", "idctx", "reflect", "alg"]),
                        _simple_op(cross=[0, 2], own_piv=True, replay_resp=True),
                        _simple_op(cross=[0, 1], cross_other=True)], "name": "cross-pairing"})
    # the answering end loaded from a context directory, with and without an ID context
    for idc in (None, "37cbf3210017a2d3", ""):
        out.append({"ctx": _fixed_ctx(sid="01", rid="02", idctx=idc, fs=True),
                    "ops": [_simple_op(own_piv=True, foreign=["idctx", "secret"]), _simple_op(rev=True, cross=[0])], "name": "file-backed-context"})
    # a response that cannot be protected (too large) between two that can
    for alg in ("AES-CCM-16-64-128", "AES-CCM-64-64-128", "ChaCha20/Poly1305"):
        out.append({"ctx": _fixed_ctx(sid="01", rid="02", alg=alg), "ops": [_simple_op(own_piv=True, big_between=True),
                                                                            _simple_op(own_piv=True, big_between=True, rev=True)],
                    "name": "oversized-response-between"})
    # both ends ask and answer with one context each, the two senders' sequence numbers coinciding
    for own in (False, True):
        out.append({"ctx": _fixed_ctx(sid="01", rid="02", seq_a=0, seq_b=0),
                    "ops": [_simple_op(own_piv=own), _simple_op(rev=True, own_piv=own), _simple_op(rev=True, cross=[0]),
                            _simple_op(cross=[0], own_piv=own), _simple_op(rev=True, own_piv=own)], "name": "both-directions"})
    # RFC 8613 C.4 shaped exchange with every bit flipped
    out.append({"ctx": _fixed_ctx(), "ops": [_simple_op(req_faults=[["allflips"]], resp_faults=[["allflips"]])],
                "name": "rfc8613-c4-allflips"})
    return out


def systematic(tier):
    n = 200 if tier == "thorough" else 20
    out = []
    for i in range(n):
        r = KeyRnd(mix("C11-systematic", i))
        ctx = gen_ctx(r)
        req = gen_msg(r, True)
        resp = gen_msg(r, False)
        for m in (req, resp):
            if len(m["payload"]) > 128:
                m["payload"] = m["payload"][:128]
        out.append({"ctx": ctx, "ops": [{"req": req, "resp": resp, "own_piv": bool(i % 2),
                                         "req_faults": [["allflips"]], "resp_faults": [["allflips"]], "foreign": [],
                                         "cross": [], "cross_other": False, "replay_resp": False}]})
    return out


def shrink(scn):
    ops = scn["ops"]
    for i, op in enumerate(ops):
        for key in ("req_faults", "resp_faults", "foreign", "cross"):
            lst = op.get(key) or []
            if len(lst) > 1:
                for j in range(len(lst)):
                    c = dict(scn)
                    c["ops"] = ops[:i] + [dict(op, **{key: [lst[j]]})] + ops[i + 1:]
                    yield c
            if lst:
                c = dict(scn)
                c["ops"] = ops[:i] + [dict(op, **{key: []})] + ops[i + 1:]
                yield c
        for key in ("own_piv", "cross_other", "replay_resp"):
            if op.get(key):
                c = dict(scn)
                c["ops"] = ops[:i] + [dict(op, **{key: False})] + ops[i + 1:]
                yield c
        for side in ("req", "resp"):
            m = op.get(side)
            if not m:
                continue
            if m["opts"]:
                for j in range(len(m["opts"])):
                    c = dict(scn)
                    c["ops"] = ops[:i] + [dict(op, **{side: dict(m, opts=m["opts"][:j] + m["opts"][j + 1:])})] + ops[i + 1:]
                    yield c
            if len(m["payload"]) > 2:
                c = dict(scn)
                c["ops"] = ops[:i] + [dict(op, **{side: dict(m, payload=m["payload"][:2])})] + ops[i + 1:]
                yield c
        if op.get("resp") and not (op.get("resp_faults") or op.get("cross")):
            c = dict(scn)
            c["ops"] = ops[:i] + [dict(op, resp=None)] + ops[i + 1:]
            yield c
    ctx = scn["ctx"]
    for key, val in (("idctx", None), ("salt", ""), ("alg", "AES-CCM-16-64-128"), ("hash", "sha256"), ("seq_a", 0),
                     ("seq_b", 0), ("send_ctx", True)):
        if ctx.get(key) != val:
            if key == "alg" and max(len(ctx["sid"]), len(ctx["rid"])) // 2 > IV_BYTES[val] - 6:
                continue
            c = dict(scn)
            c["ctx"] = dict(ctx, **{key: val})
            yield c


# ------------------------------------------------------------------ tampering on the reference-decoded datagram


def _reenc(ref, opt_value, payload):
    opts = [(n, v) for (n, v) in ref["options"] if n != rc.OSCORE]
    if opt_value is not None:
        opts.append((rc.OSCORE, opt_value))
    opts.sort(key=lambda o: o[0])
    m = dict(ref, options=opts, payload=payload)
    return rc.encode(m)


def apply_fault(env, ref, fault, others):
    """Returns a list of (label, datagram, new option value or None when removed, ciphertext changed)."""
    opt = rc.opt1(ref, rc.OSCORE)
    ct = ref["payload"]
    k = fault[0]
    out = []

    def fields():
        return env.lenient_oscore_option(opt)

    if k == "flip_opt":
        if not opt:
            return []
        b = fault[1] % (8 * len(opt))
        new = bytearray(opt)
        new[b // 8] ^= 1 << (b % 8)
        out.append(("flip_opt", bytes(new), ct))
    elif k == "flip_ct":
        if not ct:
            return []
        b = fault[1] % (8 * len(ct))
        new = bytearray(ct)
        new[b // 8] ^= 1 << (b % 8)
        out.append(("flip_ct", opt, bytes(new)))
    elif k == "allflips":
        for b in range(8 * len(opt)):
            new = bytearray(opt)
            new[b // 8] ^= 1 << (b % 8)
            out.append(("flip_opt", bytes(new), ct))
        for b in range(8 * len(ct)):
            new = bytearray(ct)
            new[b // 8] ^= 1 << (b % 8)
            out.append(("flip_ct", opt, bytes(new)))
    elif k == "piv":
        f = fields()
        cur = f["piv"]
        mode = fault[1]
        if mode == "delta":
            v = (int.from_bytes(cur, "big") if cur else 0) + int(fault[2])
            v = max(0, min(2 ** 40 - 1, v))
            piv = v.to_bytes(5, "big").lstrip(b"\0") or b"\0"
        elif mode == "set":
            piv = bytes.fromhex(fault[2])
        elif mode == "pad":
            if not cur or len(cur) >= 7:
                return []
            piv = b"\0" + cur
        else:
            if cur is None:
                return []
            piv = None
        if piv == cur:
            return []
        out.append(("piv", env.build_oscore_option(piv, f["kid"], f["kid_context"], f["flags"] & 0xE0), ct))
    elif k == "kid":
        f = fields()
        mode, val = fault[1], bytes.fromhex(fault[2])
        if mode == "drop":
            if f["kid"] is None:
                return []
            kid = None
        elif mode == "set":
            if f["kid"] is None or val == f["kid"]:
                return []
            kid = val
        else:
            if f["kid"] is not None:
                return []
            kid = val
        out.append(("kid", env.build_oscore_option(f["piv"], kid, f["kid_context"], f["flags"] & 0xE0), ct))
    elif k == "ctx":
        f = fields()
        mode, val = fault[1], bytes.fromhex(fault[2])
        if mode == "drop":
            if f["kid_context"] is None:
                return []
            c = None
        else:
            if val == f["kid_context"]:
                return []
            c = val
        out.append(("ctx", env.build_oscore_option(f["piv"], f["kid"], c, f["flags"] & 0xE0), ct))
    elif k == "flags":
        mask = fault[1] & 0xFF
        if not mask:
            return []
        new = bytes([(opt[0] if opt else 0) ^ mask]) + (opt[1:] if opt else b"")
        if new == b"\0":
            new = b""
        out.append(("flags", new, ct))
    elif k == "trunc":
        n = min(int(fault[1]), len(ct))
        if n <= 0:
            return []
        out.append(("trunc", opt, ct[:len(ct) - n]))
    elif k == "append":
        out.append(("append", opt, ct + bytes.fromhex(fault[1])))
    elif k == "drop_opt":
        out.append(("drop_opt", None, ct))
    elif k == "rawopt":
        new = bytes.fromhex(fault[1])
        if new == opt:
            return []
        out.append(("rawopt", new, ct))
    elif k in ("swap_ct", "swap_opt"):
        cands = [o for o in others if (rc.opt1(o, rc.OSCORE), o["payload"]) != (opt, ct)]
        if not cands:
            return []
        o = cands[fault[1] % len(cands)]
        if k == "swap_ct":
            if o["payload"] == ct:
                return []
            out.append(("swap_ct", opt, o["payload"]))
        else:
            oo = rc.opt1(o, rc.OSCORE)
            if oo == opt:
                return []
            out.append(("swap_opt", oo, ct))
    else:
        raise ValueError("unknown fault %r" % (fault,))
    res = []
    for (label, newopt, newct) in out:
        res.append((label, _reenc(ref, newopt, newct), newopt, newct != ct))
    return res


def judge_accept(env, orig_opt, new_opt, ct_changed, expected_kid, expected_ctx, is_request):
    """An altered datagram was accepted. Returns ("violation"|"anomaly", label)."""
    if ct_changed:
        return "violation", "altered-ciphertext-accepted"
    if new_opt is None:
        return "violation", "message-without-oscore-option-accepted"
    o = env.lenient_oscore_option(orig_opt)
    try:
        n = env.lenient_oscore_option(new_opt)
    except ValueError:
        return "violation", "undecodable-option-accepted"
    if n["reserved"]:
        return "violation", "reserved-flag-bits-accepted"
    if n["group"] != o["group"]:
        return "violation", "group-flag-change-accepted"
    # partial IV
    if (o["piv"] is None) != (n["piv"] is None):
        return "violation", "altered-partial-iv-accepted"
    notes = []
    if o["piv"] is not None:
        if int.from_bytes(o["piv"], "big") != int.from_bytes(n["piv"], "big") or len(n["piv"]) > 5:
            return "violation", "altered-partial-iv-accepted"
        if o["piv"] != n["piv"]:
            if is_request:
                return "violation", "altered-partial-iv-accepted"  # the request's AAD binds the bytes
            notes.append("noncanonical-partial-iv-accepted")
    # key id
    if n["kid"] is not None:
        if o["kid"] is not None:
            if n["kid"] != o["kid"]:
                return "violation", "altered-kid-accepted"
        elif n["kid"] != expected_kid:
            return "violation", "altered-kid-accepted"
        else:
            notes.append("explicit-kid-added-accepted")
    elif o["kid"] is not None:
        notes.append("kid-flag-cleared-accepted")
    # id context
    if n["kid_context"] is not None:
        if o["kid_context"] is not None:
            if n["kid_context"] != o["kid_context"]:
                return "violation", "altered-kid-context-accepted"
        elif n["kid_context"] != expected_ctx:
            return "violation", "altered-kid-context-accepted"
        else:
            notes.append("explicit-kid-context-added-accepted")
    elif o["kid_context"] is not None:
        notes.append("kid-context-flag-cleared-accepted")
    if n["rest"]:
        notes.append("trailing-option-bytes-accepted")
    if not notes:
        notes.append("re-encoded-option-accepted")
    return "anomaly", notes[0]


# ------------------------------------------------------------------ execution


def _markers(spec, inner_only=True):
    out = []
    p = bytes.fromhex(spec["payload"])
    if len(p) >= 6:
        out.append(("payload", p))
    for n, v in spec["opts"]:
        if inner_only and (n in OUTER_ONLY or n == rc.OBSERVE):
            continue
        v = bytes.fromhex(v)
        if len(v) >= 6:
            out.append(("option %d" % n, v))
    return out


def execute(sim, scn):
    from simkit import oscore_env as env

    osc = env.prepare()
    from aiocoap import error

    c = scn["ctx"]
    sid, rid = bytes.fromhex(c["sid"]), bytes.fromhex(c["rid"])
    idctx = None if c.get("idctx") is None else bytes.fromhex(c["idctx"])
    salt, secret = bytes.fromhex(c.get("salt") or ""), bytes.fromhex(c["secret"])
    alg, hf = c["alg"], c.get("hash", "sha256")

    def mk(s_id, r_id, secret_=secret, salt_=salt, idctx_=idctx, alg_=alg, seq=0):
        return env.make_context(osc, alg_, hf, s_id, r_id, idctx_, salt_, secret_, seqno=seq, window=32,
                                initialized=True)

    A = mk(sid, rid, seq=c.get("seq_a", 0))
    B = mk(rid, sid, seq=c.get("seq_b", 0))
    fs_run = None
    fs_seams = None
    if c.get("fs") and hf == "sha256":
        # the answering end is the library's file-backed context, loaded from a context directory with these very
        # parameters (its keys come out of ITS loading code, not out of this check's helper)
        from . import c13
        fs_run = c13.Run(osc, {"ctx": {"alg": alg, "sid": c["rid"], "rid": c["sid"], "idctx": c.get("idctx"), "secret": c["secret"],
                                       "salt": c.get("salt") or "", "window": 32, "chunk_start": None, "chunk_limit": None},
                               "init": {"next": c.get("seq_b", 0), "received": {"index": 0, "bitfield": 0}}, "ops": [], "crash": {"mode": "none"}},
                         None, scn.get("run_seed", 0))
        fs_seams = fs_run.F.Seams(osc, fs_run.fs, fs_run.secrets, clock=fs_run.clock)
        fs_seams.__enter__()
        fs_run.load()
        if fs_run.N is not None:
            B = fs_run.N
            sim.probe("file_backed_context")
    Bs = mk(rid, sid)  # shadow receiver of faulted requests: same keys, window reset before every delivery
    As = mk(sid, rid)  # the same for exchanges in the other direction (B asks, A answers)
    other_secret = bytes(b ^ 0x5A for b in secret)
    A2 = mk(sid, rid, secret_=other_secret, seq=c.get("seq_a", 0))  # another pair with the same IDs and numbers
    B2 = mk(rid, sid, secret_=other_secret, seq=c.get("seq_b", 0))
    if idctx is not None:
        sim.probe("id_context_present")
    if sid == b"":
        sim.probe("empty_sender_id")

    def foreign(kind, server_side):
        s_id, r_id = (rid, sid) if server_side else (sid, rid)
        if kind == "secret":
            return mk(s_id, r_id, secret_=other_secret)
        if kind == "salt":
            return mk(s_id, r_id, salt_=salt + b"\x01")
        if kind == "idctx":
            return mk(s_id, r_id, idctx_=(idctx or b"") + b"\x02")
        if kind == "alg":
            cands = [a for a in ALGS if IV_BYTES[a] == IV_BYTES[alg] and a != alg]
            other = cands[(len(secret) + len(sid)) % len(cands)]
            return mk(s_id, r_id, alg_=other)
        if kind == "reflect":
            return mk(r_id, s_id)  # the sender's own context: same keys, roles not swapped
        raise ValueError(kind)

    sig = hashlib.blake2b(digest_size=8)
    state = {"mid": 0, "faulted": 0}
    req_refs = []   # reference-decoded intact request datagrams (for cut-and-paste)
    resp_refs = []
    rids_a = []     # A's request identifiers per exchange (None when the request failed)
    rids_a2 = []

    def wire(msg):
        state["mid"] = (state["mid"] + 1) & 0xFFFF
        return env.to_wire(msg, state["mid"], state["mid"].to_bytes(2, "big"))

    def ident(i, side):
        return {"exchange": i, "message": side}

    def check_outer(i, side, data, spec, is_request):
        ref = rc.decode(data)
        allowed = (rc.POST, rc.FETCH) if is_request else (rc.CHANGED, rc.CONTENT)
        if ref["code"] not in allowed:
            sim.violation("C11/outer-code-not-fixed", dict(ident(i, side), outer_code=rc.code_str(ref["code"]),
                                                            inner_code=rc.code_str(spec["code"])))
        for n, v in ref["options"]:
            if n not in OUTER_ALLOWED:
                sim.violation("C11/outer-option-not-allowed", dict(ident(i, side), option=n, value=v.hex()))
        if rc.opt1(ref, rc.OSCORE) is None:
            sim.violation("C11/outer-without-oscore-option", ident(i, side))
        for what, marker in _markers(spec):
            if marker in data:
                sim.violation("C11/outer-reveals-inner-data", dict(ident(i, side), what=what, marker=marker.hex()))
        o = env.lenient_oscore_option(rc.opt1(ref, rc.OSCORE) or b"")
        if o["piv"] is not None:
            sim.probe("piv_len_%d" % len(o["piv"]))
        return ref

    def check_roundtrip(i, side, spec, msg):
        want = [(n, bytes.fromhex(v)) for n, v in spec["opts"] if n not in OUTER_ONLY and n != rc.OBSERVE]
        got = [(n, v) for n, v in env.options_of(msg) if n != rc.OBSERVE]
        if int(msg.code) != spec["code"]:
            sim.violation("C11/roundtrip-code-differs", dict(ident(i, side), sent=spec["code"], got=int(msg.code)))
        if sorted(want) != sorted(got):
            sim.violation("C11/roundtrip-options-differ", dict(
                ident(i, side), sent=[[n, v.hex()] for n, v in want], got=[[n, v.hex()] for n, v in got]))
        if msg.payload != bytes.fromhex(spec["payload"]):
            sim.violation("C11/roundtrip-payload-differs", dict(ident(i, side), sent=spec["payload"][:64],
                                                                got=msg.payload.hex()[:64]))

    def deliver_faulted(i, side, label, data, new_opt, ct_changed, orig_opt, receiver, request_id, is_request,
                        exp_kid, exp_ctx, fault):
        """A tampered datagram arrives. It must be refused with a protection error."""
        state["faulted"] += 1
        sim.probe("fault_" + label)
        sig.update(label.encode())
        try:
            msg_in = env.from_wire(data)
        except error.UnparsableMessage:
            sim.probe("tamper_unparsable")
            return
        if is_request:
            receiver.recipient_replay_window.initialize_empty()
        try:
            got, _ = receiver.unprotect(msg_in, request_id)
        except osc.ProtectionInvalid as e:
            sim.probe("rejected_decode_error" if isinstance(e, osc.DecodeError) else
                      ("rejected_tag" if "Tag" in str(e) else "rejected_other"))
            sig.update(b"r")
            return
        except osc.NotAProtectedMessage:
            if new_opt is None:
                sim.probe("rejected_not_protected")
                sig.update(b"n")
                return
            sim.violation("C11/unprotect-raises-NotAProtectedMessage",
                          dict(ident(i, side), fault=fault, option=new_opt.hex()))
            return
        except Exception as e:
            sim.violation("C11/unprotect-raises-%s" % type(e).__name__,
                          dict(ident(i, side), fault=fault, label=label, error=str(e)[:120],
                               option=None if new_opt is None else new_opt.hex(), original_option=orig_opt.hex()))
            sig.update(type(e).__name__.encode())
            return
        sev, what = judge_accept(env, orig_opt, new_opt, ct_changed, exp_kid, exp_ctx, is_request)
        detail = dict(ident(i, side), fault=fault, label=label, option=None if new_opt is None else new_opt.hex(),
                      original_option=orig_opt.hex(), ciphertext_changed=ct_changed)
        if sev == "violation":
            sim.violation("C11/" + what, detail)
        else:
            sim.anomaly(what, detail)
            sim.probe("accepted_" + what.replace("-", "_"))
        sig.update(what.encode())

    ops = scn["ops"]
    n_ops = len(ops)

    def roles(op):
        """who asks and who answers in this exchange: both ends use their one context in both roles"""
        if op.get("rev"):
            return {"P": B, "Q": A, "Qs": As, "P2": B2, "p_sid": rid, "q_sid": sid, "rev": True}
        return {"P": A, "Q": B, "Qs": Bs, "P2": A2, "p_sid": sid, "q_sid": rid, "rev": False}

    if any(op.get("rev") for op in ops):
        sim.probe("both_directions")
    # pass 1: protect all requests first, so that cut-and-paste and cross pairing have material
    prepared = []
    for i, op in enumerate(ops):
        spec = op["req"]
        sig.update(repr((spec["code"], [n for n, _ in spec["opts"]], len(spec["payload"]))).encode())
        msg = env.build_message(spec["code"], [(n, bytes.fromhex(v)) for n, v in spec["opts"]],
                                bytes.fromhex(spec["payload"]))
        kc = True if c.get("send_ctx", True) else False
        try:
            outer, rid_a = roles(op)["P"].protect(msg, kid_context=kc)
        except osc.ContextUnavailable:
            sim.probe("sender_exhausted")
            prepared.append(None)
            rids_a.append(None)
            rids_a2.append(None)
            continue
        except Exception as e:
            sim.anomaly("protect-raised-%s" % type(e).__name__,
                        "options %s" % [n for n, _ in spec["opts"]])
            sim.probe("protect_refused")
            prepared.append(None)
            rids_a.append(None)
            rids_a2.append(None)
            continue
        data = wire(outer)
        ref = check_outer(i, "request", data, spec, True)
        req_refs.append(ref)
        rids_a.append(rid_a)
        prepared.append((data, ref))
        # the same request in the other context pair (for cross pairing across contexts)
        try:
            _, rid_a2 = roles(op)["P2"].protect(env.build_message(spec["code"], [(n, bytes.fromhex(v)) for n, v in spec["opts"]],
                                                     bytes.fromhex(spec["payload"])), kid_context=kc)
            rids_a2.append(rid_a2)
        except Exception:
            rids_a2.append(None)

    intact_responses = []  # (exchange, datagram)
    nonce_seen = {}
    for i, op in enumerate(ops):
        if prepared[i] is None:
            continue
        data, ref = prepared[i]
        spec = op["req"]
        R = roles(op)
        orig_opt = rc.opt1(ref, rc.OSCORE) or b""
        # --- faulted copies of the request first (they must not disturb the intact one)
        for fault in op.get("req_faults") or []:
            if fault[0] == "allflips":
                sim.probe("allflips_messages")
            for (label, mut, new_opt, ctch) in apply_fault(env, ref, fault, req_refs):
                deliver_faulted(i, "request", label, mut, new_opt, ctch, orig_opt, R["Qs"], None, True, R["p_sid"], idctx, fault)
        for kind in op.get("foreign") or []:
            sim.probe("foreign_keys")
            F = foreign(kind, not R["rev"])
            state["faulted"] += 1
            try:
                F.unprotect(env.from_wire(data))
            except osc.ProtectionInvalid:
                pass
            except Exception as e:
                sim.violation("C11/unprotect-raises-%s" % type(e).__name__,
                              dict(ident(i, "request"), foreign=kind, error=str(e)[:120]))
            else:
                sim.violation("C11/foreign-keys-accepted", dict(ident(i, "request"), foreign=kind))
        if op.get("outer_obs"):
            # Observe travels twice, encrypted and in the clear; the outer copy is anybody's to change on the way, and
            # changing it may take the sender's Observe away (RFC 8613 4.1.3.5.1) -- it never puts one there the
            # sender did not send, and it touches nothing else
            o_opts = [(n, v) for n, v in ref["options"] if n != rc.OBSERVE]
            if op["outer_obs"] != "drop":
                o_opts.append((rc.OBSERVE, b"" if op["outer_obs"] == "set0" else b"\x01"))
            o_opts.sort(key=lambda o: o[0])
            sim.probe("outer_observe_rewritten")
            state["faulted"] += 1
            R["Qs"].recipient_replay_window.initialize_empty()
            try:
                got_o, _ = R["Qs"].unprotect(env.from_wire(rc.encode(dict(ref, options=o_opts))))
            except osc.ProtectionInvalid:
                sim.probe("outer_observe_rewrite_refused")
            except Exception as e:
                sim.violation("C11/unprotect-raises-%s" % type(e).__name__,
                              dict(ident(i, "request"), outer_observe=op["outer_obs"], error=str(e)[:120]))
            else:
                sent_obs = [bytes.fromhex(v) for n, v in spec["opts"] if n == rc.OBSERVE]
                got_obs = [v for n, v in env.options_of(got_o) if n == rc.OBSERVE]
                if got_obs and got_obs != sent_obs:
                    sim.violation("C11/observe-made-up-from-outer-option",
                                  dict(ident(i, "request"), outer_observe=op["outer_obs"], sent=[v.hex() for v in sent_obs],
                                       got=[v.hex() for v in got_obs]))
                check_roundtrip(i, "request", spec, got_o)
        # --- intact delivery
        try:
            got, rid_b = R["Q"].unprotect(env.from_wire(data))
        except Exception as e:
            sim.violation("C11/intact-message-rejected", dict(ident(i, "request"), error="%s: %s" % (
                type(e).__name__, str(e)[:120])))
            continue
        sim.probe("roundtrip_request")
        check_roundtrip(i, "request", spec, got)
        if op.get("resp") is None:
            continue
        # --- response(s)
        rspec = op["resp"]
        sig.update(repr((rspec["code"], [n for n, _ in rspec["opts"]], len(rspec["payload"]))).encode())
        rounds = 2 if op.get("own_piv") else 1
        for rnd in range(rounds):
            if rnd == 1 and op.get("big_between"):
                # between the two responses the responder tries to send one that is too large for the algorithm (or
                # for anything): protect() may refuse it -- what follows must still never use a nonce twice
                sim.probe("oversized_response_attempted")
                try:
                    R["Q"].protect(env.build_message(rc.CONTENT, [], b"L" * 70000), rid_b)
                    sim.probe("oversized_response_protected")
                except Exception as e:
                    sim.probe("oversized_response_refused")
                    sig.update(type(e).__name__.encode())
            rmsg = env.build_message(rspec["code"], [(n, bytes.fromhex(v)) for n, v in rspec["opts"]],
                                     bytes.fromhex(rspec["payload"]))
            try:
                router, _ = R["Q"].protect(rmsg, rid_b)
            except osc.ContextUnavailable:
                sim.probe("sender_exhausted")
                break
            except Exception as e:
                sim.anomaly("protect-raised-%s" % type(e).__name__, "response options %s" % [n for n, _ in rspec["opts"]])
                break
            rdata = wire(router)
            side = "response" if rnd == 0 else "response-own-piv"
            rref = check_outer(i, side, rdata, rspec, False)
            ropt = rc.opt1(rref, rc.OSCORE) or b""
            # one nonce, one message: a response either brings its own Partial IV (the responder's numbering) or uses
            # the request's -- the latter at most once
            own = env.lenient_oscore_option(ropt)["piv"]
            nk = ("responder", bool(R["rev"]), int.from_bytes(own, "big")) if own is not None else \
                ("requester", bool(R["rev"]), int.from_bytes(env.lenient_oscore_option(orig_opt)["piv"] or b"", "big"))
            if nk in nonce_seen:  # (every pass through here is one protect() call)
                sim.violation("C11/nonce-used-for-two-messages", dict(ident(i, side), numbering=nk[0], partial_iv=nk[2],
                                                                      own_partial_iv=own is not None))
            nonce_seen.setdefault(nk, rref["payload"])
            if rnd == 1:
                sim.probe("response_own_piv")
                if env.lenient_oscore_option(ropt)["piv"] is None:
                    sim.anomaly("second-response-without-own-piv", ident(i, side))
            resp_refs.append(rref)
            intact_responses.append((i, rdata))
            for fault in op.get("resp_faults") or []:
                if fault[0] == "allflips":
                    sim.probe("allflips_messages")
                for (label, mut, new_opt, ctch) in apply_fault(env, rref, fault, resp_refs):
                    deliver_faulted(i, side, label, mut, new_opt, ctch, ropt, R["P"], rids_a[i], False, R["q_sid"], idctx, fault)
            for kind in op.get("foreign") or []:
                if kind == "reflect":
                    continue
                F = foreign(kind, R["rev"])
                state["faulted"] += 1
                try:
                    F.unprotect(env.from_wire(rdata), rids_a[i])
                except osc.ProtectionInvalid:
                    pass
                except Exception as e:
                    sim.violation("C11/unprotect-raises-%s" % type(e).__name__,
                                  dict(ident(i, side), foreign=kind, error=str(e)[:120]))
                else:
                    sim.violation("C11/foreign-keys-accepted", dict(ident(i, side), foreign=kind))
            # the response delivered as the answer to another request
            for j in op.get("cross") or []:
                cands = [k for k in range(n_ops) if k != i and rids_a[k] is not None and bool(ops[k].get("rev")) == R["rev"]]
                if not cands:
                    break
                k = cands[j % len(cands)]
                sim.probe("cross_pairing")
                state["faulted"] += 1
                try:
                    R["P"].unprotect(env.from_wire(rdata), rids_a[k])
                except osc.ProtectionInvalid:
                    pass
                except Exception as e:
                    sim.violation("C11/unprotect-raises-%s" % type(e).__name__,
                                  dict(ident(i, side), cross=k, error=str(e)[:120]))
                else:
                    sim.violation("C11/response-accepted-for-other-request", dict(ident(i, side), other_request=k))
            if op.get("cross_other") and rids_a2[i] is not None:
                # same IDs, same partial IV, other keys: B2's response to "the same" request must not verify at A,
                # and B's response must not verify at A2
                sim.probe("cross_pairing_other_context")
                state["faulted"] += 1
                try:
                    R["P2"].unprotect(env.from_wire(rdata), rids_a2[i])
                except osc.ProtectionInvalid:
                    pass
                except Exception as e:
                    sim.violation("C11/unprotect-raises-%s" % type(e).__name__,
                                  dict(ident(i, side), cross="other-context", error=str(e)[:120]))
                else:
                    sim.violation("C11/response-accepted-in-other-context", ident(i, side))
            # intact delivery (and a replay of it to the same request, which OSCORE does not forbid)
            try:
                rgot, _ = R["P"].unprotect(env.from_wire(rdata), rids_a[i])
            except Exception as e:
                sim.violation("C11/intact-message-rejected", dict(ident(i, side), error="%s: %s" % (
                    type(e).__name__, str(e)[:120])))
                continue
            sim.probe("roundtrip_response")
            check_roundtrip(i, side, rspec, rgot)
            if op.get("replay_resp"):
                sim.probe("response_replayed")
                try:
                    R["P"].unprotect(env.from_wire(rdata), rids_a[i])
                    sim.probe("response_replay_accepted")
                except osc.ProtectionInvalid:
                    sim.probe("response_replay_rejected")
    if fs_seams is not None:
        for obj in fs_run.objs:
            fs_run.discard(obj)
        fs_seams.__exit__(None, None, None)
    sim.log("c11", state["faulted"], sig.hexdigest(), len(sim.violations), len(sim.anomalies))
    for v in sim.violations:
        sim.log("violation", v["kind"])
    sim.extra_faults = {"tampered_or_misdirected_delivery": state["faulted"]} if state["faulted"] else {}
    sim.nontrivial = state["faulted"] > 0
    sim.signature = sig.hexdigest()


def evidence_extra(total):
    p = total["probes"]
    return {"faulted_deliveries": total["faults"].get("tampered_or_misdirected_delivery", 0),
            "messages_with_all_bits_flipped": p.get("allflips_messages", 0),
            "intact_roundtrips": p.get("roundtrip_request", 0) + p.get("roundtrip_response", 0)}
