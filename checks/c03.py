"""C03 -- confirmable messages: bounded exponential back-off that always terminates."""

from simkit import refcodec as rc
from simkit import faults
from simkit.net import ScriptedEndpoint, fmt
from . import common
from .common import EPS, TOL

PROPERTY = "C03"
LEVEL = "exploration"
RUNS = {"quick": 4000, "thorough": 80000}
BUDGET = {"quick": 90, "thorough": 3000}
RULE = ("seeded scenarios: 1-4 CON messages (client requests to scripted peers, separate CON responses "
        "of a real server) with random TransportTuning, per-copy scripted reaction (silence / ACK / RST / "
        "piggyback / wrong-MID / wrong-source) placed before, epsilon before, exactly at, epsilon after the "
        "next retransmission timer or after give-up, plus loss/dup/delay of copies; systematic grid "
        "MAX_RETRANSMIT x reaction x position x copy. Non-trivial = a fault fired or a scripted reaction "
        "other than a prompt ACK occurred; distinct = distinct (event class, link, fate) sequence hash.")
COMPONENTS_REAL = ["aiocoap.messagemanager", "aiocoap.tokenmanager", "aiocoap.protocol", "aiocoap.pipe",
                   "aiocoap.transports.udp6", "aiocoap.util.asyncio.recvmsg", "aiocoap.message",
                   "aiocoap.numbers.constants", "aiocoap.error", "aiocoap.resource"]
COMPONENTS_STUB = ["UDP socket (SimSocket)", "name resolution", "module random of messagemanager/tokenmanager",
                   "scripted acknowledging peer (reference codec)", "event loop clock (virtual)"]
ASSUMPTIONS = ["the socket model (recvmsg/sendmsg/pktinfo) is faithful to Linux",
               "call_soon FIFO order of asyncio is kept; timers and arrivals at the same instant are processed arrivals first",
               "time comparisons use a tolerance of 1e-9 s"]
EXPECTED_PROBES = ["application_callback_raised", "piggyback_with_unknown_token", "request_cancelled_while_exchange_open", "mid_collision_with_peer_message", "giveup", "ack_tie", "ack_pre_eps", "ack_post_eps", "rst", "wrong_mid", "wrong_src",
                   "server_con", "mr0", "late_ack", "separate_response_during_other_exchange", "send_raised_for_a_retransmission"]

KINDS = ["ack", "rst", "piggy", "piggy_wrongtoken", "wrongmid_ack", "wrongmid_rst", "wrongsrc_ack", "wrongsrc_rst", "wrongport_ack"]
POSITIONS = ["now", "mid", "pre", "tie", "post", "late"]


# ------------------------------------------------------------------ generation


def gen_tuning(r):
    if r.chance(0.2):
        return {}
    t = {}
    if r.chance(0.8):
        t["ACK_TIMEOUT"] = r.choice([0.05, 0.5, 1.0, 2.0, 3.7, 20.0, round(r.uniform(0.05, 20), 3)])
    if r.chance(0.7):
        t["ACK_RANDOM_FACTOR"] = r.choice([1.0, 1.5, 2.0, 4.0, round(r.uniform(1, 4), 3)])
    if r.chance(0.8):
        t["MAX_RETRANSMIT"] = r.randint(0, 7)
    if t and r.chance(0.35):
        # where the values live: on a subclass (default), on the instance, or set by the tuning's __init__
        t["_style"] = r.choice(["instance", "init"])
    return t


def gen_script(r, mr, allow_piggy):
    n = mr + 1
    script = [None] * n
    plan = r.random()
    kinds_final = ["ack", "rst"] + (["piggy", "piggy_wrongtoken"] if allow_piggy else [])
    noise = ["wrongmid_ack", "wrongmid_rst", "wrongsrc_ack", "wrongsrc_rst", "wrongport_ack"]
    if plan < 0.25:
        pass  # total silence -> give up
    elif plan < 0.7:
        j = r.randrange(0, n)
        script[j] = [r.choice(kinds_final), r.choice(POSITIONS[:5])]
    else:
        for k in range(n):
            if r.chance(0.4):
                script[k] = [r.choice(noise), r.choice(POSITIONS[:5])]
        if r.chance(0.6):
            j = r.randrange(0, n)
            script[j] = [r.choice(kinds_final), r.choice(POSITIONS)]
        elif r.chance(0.5):
            script[n - 1] = [r.choice(["ack", "rst"]), "late"]
    return script


def gen(r, tier):
    nmsg = r.choice([1, 1, 2, 3, 4])
    msgs = []
    for i in range(nmsg):
        t = gen_tuning(r)
        mr = common.tuning_values(t)["MAX_RETRANSMIT"]
        kind = "sepresp" if r.chance(0.25) else "request"
        msgs.append({
            "id": i, "kind": kind, "peer": i, "t": round(r.uniform(0, 5), 3), "tuning": t,
            "blockwise": r.chance(0.3),
            "script": gen_script(r, mr, allow_piggy=(kind == "request")),
            "eps": r.choice([1e-6, 1e-3]),
            # the two directions number their messages independently: the peer may have used, for a message of its
            # own, the very ID our next message will get
            "collide": r.choice([None, None, "non", "con"]) if kind == "request" else None,
            # the application may lose interest (cancel) while the exchange is still open
            "cancel_at": (round(r.uniform(0.01, 6.0), 3) if (kind == "request" and r.chance(0.15)) else None),
            # an earlier request to the same peer that was acknowledged with an empty ACK; its separate response
            # arrives while THIS message's exchange is open (factor x this message's ACK_TIMEOUT after its start)
            "companion": (r.choice([0.005, 0.5, 0.99, 1.5, 2.5, 5.0, 12.0]) if (kind == "request" and r.chance(0.2)) else None),
            # the transport's send() RAISES for one of the copies (not the first): a datagram layer that throws instead of
            # reporting an error -- that copy is lost before the wire, everything else goes on as scheduled
            "send_raises": (r.randint(1, max(1, mr)) if (kind == "request" and mr >= 1 and r.chance(0.12)) else None),
            # the application's own callbacks fail when they are handed the outcome (it asked to observe; whatever comes
            # -- a response without Observe, a Reset, the time-out -- its callback and errback raise): the exchange is
            # concluded by the ACK / Reset all the same
            "raiser": kind == "request" and r.chance(0.15),
        })
    net = faults.swarm(r, kinds=("drop", "dup", "delay"))
    return {"msgs": msgs, "net": net, "stall": (r.chance(0.15))}


def systematic(tier):
    out = []
    mrs = range(0, 8) if tier == "thorough" else (0, 1, 4)
    for mr in mrs:
        for kind in ("ack", "rst", "piggy", "wrongmid_ack", "wrongsrc_rst"):
            for pos in POSITIONS:
                copies = range(mr + 1) if tier == "thorough" else sorted({0, mr})
                for k in copies:
                    script = [None] * (mr + 1)
                    script[k] = [kind, pos]
                    out.append({"msgs": [{"id": 0, "kind": "request", "peer": 0, "t": 0.0,
                                          "tuning": {"MAX_RETRANSMIT": mr, "ACK_TIMEOUT": 1.0},
                                          "blockwise": False, "script": script, "eps": 1e-6}],
                                "net": {}, "stall": False})
        for kind in ("piggy", "rst", "ack"):
            script = [None] * (mr + 1)
            script[0] = [kind, POSITIONS[0]]
            out.append({"msgs": [{"id": 0, "kind": "request", "peer": 0, "t": 0.0, "tuning": {"MAX_RETRANSMIT": mr, "ACK_TIMEOUT": 1.0},
                                  "blockwise": False, "script": script, "eps": 1e-6, "raiser": True}], "net": {}, "stall": False})
        out.append({"msgs": [{"id": 0, "kind": "sepresp", "peer": 0, "t": 0.0,
                              "tuning": {"MAX_RETRANSMIT": mr, "ACK_TIMEOUT": 0.5, "ACK_RANDOM_FACTOR": 2.0},
                              "blockwise": False, "script": [None] * (mr + 1), "eps": 1e-6}],
                    "net": {}, "stall": False})
    return out


def shrink(scn):
    # fewer messages, simpler scripts, default tuning, no net faults
    if len(scn["msgs"]) > 1:
        for i in range(len(scn["msgs"])):
            c = dict(scn)
            c["msgs"] = scn["msgs"][:i] + scn["msgs"][i + 1:]
            yield c
    if any(scn.get("net", {}).values()):
        c = dict(scn)
        c["net"] = {}
        yield c
    if scn.get("stall"):
        c = dict(scn)
        c["stall"] = False
        yield c
    for i, m in enumerate(scn["msgs"]):
        for k, s in enumerate(m["script"]):
            if s is not None:
                c = dict(scn)
                mm = dict(m)
                mm["script"] = m["script"][:k] + [None] + m["script"][k + 1:]
                c["msgs"] = scn["msgs"][:i] + [mm] + scn["msgs"][i + 1:]
                yield c
        for key in list(m["tuning"]):
            c = dict(scn)
            mm = dict(m)
            mm["tuning"] = {a: b for a, b in m["tuning"].items() if a != key}
            mr_new = common.tuning_values(mm["tuning"])["MAX_RETRANSMIT"]
            sc = list(m["script"])[: mr_new + 1]
            sc += [None] * (mr_new + 1 - len(sc))
            mm["script"] = sc
            c["msgs"] = scn["msgs"][:i] + [mm] + scn["msgs"][i + 1:]
            yield c


# ------------------------------------------------------------------ peers


class AckPeer(ScriptedEndpoint):
    """Reacts to the k-th copy (sender's numbering) of a CON as the script says."""

    def __init__(self, sim, ip, port, spec, world):
        super().__init__(sim, ip, port)
        self.spec = spec
        self.world = world
        self.reacted = set()

    def handle(self, msg, src, data):
        if msg is None or msg["type"] != rc.CON:
            return
        if self.spec["kind"] == "sepresp" and not (msg["code"] >> 5 in (2, 4, 5)):
            return
        if 1 <= msg["code"] < 32 and (rc.opt1(msg, rc.URI_PATH) or b"").startswith(b"c"):
            # the companion request: empty ACK at once, the response in a message of its own much later
            if "companion_seen" in self.world.setdefault(self.addr, {}):
                return
            self.world[self.addr]["companion_seen"] = True
            self.send(src, msg={"type": rc.ACK, "code": 0, "mid": msg["mid"], "token": b"", "options": [], "payload": b""},
                      fate=["deliver", 0.002])
            ato = common.tuning_values(self.spec["tuning"])["ACK_TIMEOUT"]
            self.send(src, msg={"type": rc.NON, "code": rc.CONTENT, "mid": 0x7C00 + self.spec["id"], "token": msg["token"],
                                "options": [], "payload": b"companion"},
                      fate=["at", self.spec["t"] + self.spec["companion"] * ato])
            self.sim.probe("separate_response_during_other_exchange")
            return
        st = self.world["exch"].get((src, self.addr, msg["mid"]))
        if st is None:
            return
        k = len(st["tx"]) - 1
        if k in self.reacted:
            return
        self.reacted.add(k)
        script = self.spec["script"]
        if k >= len(script) or script[k] is None:
            return
        kind, pos = script[k]
        now = self.loop.now
        g = st["gap0"]
        tk = st["tx"][k]
        w = st["timer"][k] if k < len(st["timer"]) else tk + g * 2 ** k
        eps = self.spec.get("eps", EPS)
        if pos == "now":
            target = now + 0.005
        elif pos == "mid":
            target = tk + (w - tk) / 2
        elif pos == "pre":
            target = w - eps
        elif pos == "tie":
            target = w
        elif pos == "post":
            target = w + eps
        else:
            target = st["tx"][0] + common.tuning_values(self.spec["tuning"])["MAX_TRANSMIT_WAIT"] + 1.0
        if target < now:
            target = now
        mid = msg["mid"]
        src_addr = self.addr
        typ = rc.ACK
        code = 0
        token = b""
        payload = b""
        if kind.endswith("rst"):
            typ = rc.RST
        if kind.startswith("wrongmid"):
            mid = (mid + 1 + (k % 3)) & 0xFFFF
            self.sim.probe("wrong_mid")
        elif kind.startswith("wrongsrc"):
            src_addr = (common.ADV_IP, self.addr[1])
            self.sim.probe("wrong_src")
        elif kind.startswith("wrongport"):
            src_addr = (self.addr[0], self.addr[1] + 1)
            self.sim.probe("wrong_src")
        elif kind == "piggy":
            code = rc.CONTENT
            token = msg["token"]
            payload = b"piggy"
        elif kind == "piggy_wrongtoken":
            # an ACK for this message ID from this endpoint, carrying a response nobody waits for (any more)
            code = rc.CONTENT
            token = b"\xaa\xbb\xcc\xdd\x01"
            payload = b"stray"
            self.sim.probe("piggyback_with_unknown_token")
        else:
            self.sim.probe({"pre": "ack_pre_eps", "tie": "ack_tie", "post": "ack_post_eps",
                            "late": "late_ack"}.get(pos, "ack_other"))
            if typ == rc.RST:
                self.sim.probe("rst")
        m = {"type": typ, "code": code, "mid": mid, "token": token, "options": [], "payload": payload}
        self.sim.nontrivial = True
        if pos == "tie" and k % 2:
            # the other legal order of a tie: the timer is processed first
            self.loop.at(target, lambda: self.send(src, msg=m, src=src_addr, forged=(src_addr != self.addr),
                                                   fate=["deliver", 0.0]))
        else:
            self.send(src, msg=m, src=src_addr, forged=(src_addr != self.addr), fate=["at", target])


# ------------------------------------------------------------------ execution


def execute(sim, scn):
    import aiocoap
    import aiocoap.resource as resource
    from aiocoap import Message, GET
    from aiocoap import error

    loop = sim.loop
    sim.net.fate_gen = faults.fate_gen(scn.get("net", {}))
    stall = scn.get("stall")
    if stall:
        def stall_hook(now):
            return sim.decider.get_indexed("stall", 0, lambda r: (round(r.uniform(0.01, 30), 3) if r.chance(0.03) else 0))
        loop.stall_hook = stall_hook
    world = {"exch": {}}
    real_addrs = set()
    exch_order = []

    def tap(entry):
        m = entry["msg"]
        if entry["forged"] or m is None or entry["src"] not in real_addrs or m["type"] != rc.CON:
            return
        key = (entry["src"], entry["dst"], m["mid"])
        st = world["exch"].get(key)
        if st is None:
            draws = sim.draws["mm"].log
            ud = [d for d in draws if d[0] == "uniform"]
            idx = len(exch_order)
            d = ud[idx] if idx < len(ud) else None
            st = {"tx": [], "entries": [], "draw": d, "gap0": d[3] if d else None, "timer": [], "key": key,
                  "mtw": None, "spec": None}
            world["exch"][key] = st
            exch_order.append(key)
        st["tx"].append(loop.now)
        st["entries"].append(entry)
        # the timer armed by this transmission (same float arithmetic as call_later)
        if st["gap0"] is not None:
            st["timer"].append(loop.now + st["gap0"] * 2 ** (len(st["tx"]) - 1))

    sim.net.taps.append(tap)

    msgs = scn["msgs"]
    need_server = any(m["kind"] == "sepresp" for m in msgs)
    tracker = common.Tracker(sim)

    class Slow(resource.Resource):
        def __init__(self, spec):
            super().__init__()
            self.spec = spec

        async def render_get(self, request):
            import asyncio
            await asyncio.sleep(0.3)
            return Message(payload=b"late", transport_tuning=common.make_tuning(self.spec["tuning"]))

    async def setup():
        server = None
        if need_server:
            site = resource.Site()
            for m in msgs:
                if m["kind"] == "sepresp":
                    site.add_resource(["s%d" % m["id"]], Slow(m))
            server = await sim.server(site, common.SERVER_IP)
            real_addrs.add((common.SERVER_IP, 5683))
        client = await sim.client(common.CLIENT_IP)
        real_addrs.add(sim.local_addr(client))
        return server, client

    server, client = loop.run_until_complete(setup())
    # fault: the message interface's send() raises for the k-th copy of a message (k >= 1)
    mi = client.request_interfaces[0].token_interface.message_interface
    mi_send = mi.send
    copies_seen = {}
    raise_for = {m["id"]: m["send_raises"] for m in msgs if m.get("send_raises")}

    def faulty_send(message):
        path = message.opt.uri_path
        mid_ = None
        if message.code.is_request() and path and path[0].startswith("x") and path[0][1:].isdigit():
            mid_ = int(path[0][1:])
        if mid_ in raise_for and int(message.mtype) == rc.CON:
            k = copies_seen.get(mid_, 0)
            copies_seen[mid_] = k + 1
            if k == raise_for[mid_]:
                raw = message.encode()
                sa = message.remote.sockaddr
                sim.probe("send_raised_for_a_retransmission")
                sim.net.count("fault.send_raises")
                sim.log("net", "send-raises", mid_, k)
                # what the oracle sees of this copy: attempted at this instant, lost before the wire
                tap({"msg": rc.decode(raw), "forged": False, "src": sim.local_addr(client), "dst": (sa[0], sa[1]), "data": raw,
                     "deliveries": [], "t": loop.now})
                raise RuntimeError("injected: transport send() raised")
        return mi_send(message)
    if raise_for:
        mi.send = faulty_send
    peers = {}
    for m in msgs:
        ip = common.PEER_IPS[m["peer"] % len(common.PEER_IPS)]
        peer = AckPeer(sim, ip, 5683 if m["kind"] == "request" else 40100 + m["id"], m, world)
        peers[m["id"]] = peer
        tv = common.tuning_values(m["tuning"])
        if tv["MAX_RETRANSMIT"] == 0:
            sim.probe("mr0")
        if m["kind"] == "request" and m.get("collide"):
            def collide(m=m, peer=peer):
                # predicted ID of the client's next new message: its counter starts at the recorded draw and advances
                # by one per new message (replies reuse the peer's IDs)
                client_addr = sim.local_addr(client)
                used = {e["msg"]["mid"] for e in sim.net.wire if e["src"] == client_addr and e["msg"] is not None
                        and e["msg"]["type"] in (rc.CON, rc.NON)}
                init = [d for d in sim.draws["mm"].log if d[0] == "randint"][-1][3]
                nxt = init
                while nxt in used:
                    nxt = (nxt + 1) & 0xFFFF
                typ = rc.NON if m["collide"] == "non" else rc.CON
                sim.probe("mid_collision_with_peer_message")
                peer.send(client_addr, msg={"type": typ, "code": rc.CONTENT, "mid": nxt, "token": b"\xee\x01\x02\x03\x04\x05",
                                            "options": [], "payload": b"unrelated"}, fate=["deliver", 0.001])
            loop.at(max(0.0, m["t"] - 0.01), collide)
        if m["kind"] == "request" and m.get("companion") is not None:
            def start_companion(m=m, ip=ip):
                msg = Message(code=GET, uri="coap://[%s]/c%d" % (ip, m["id"]))
                tracker.start("c%d" % m["id"], client, msg, handle_blockwise=False)
            loop.at(max(0.0, m["t"] - 0.02), start_companion)
        if m["kind"] == "request":
            def start(m=m, ip=ip):
                msg = Message(code=GET, uri="coap://[%s]/x%d" % (ip, m["id"]),
                              transport_tuning=common.make_tuning(m["tuning"]))
                if m.get("raiser"):
                    msg.opt.observe = 0
                rec = tracker.start(m["id"], client, msg, handle_blockwise=m["blockwise"] and not m.get("raiser"))
                if m.get("raiser"):
                    def raiser(_):
                        sim.probe("application_callback_raised")
                        raise RuntimeError("application callback fails")
                    rec["req"].observation.register_errback(raiser)
                    rec["req"].observation.register_callback(raiser)
                if m.get("cancel_at") is not None:
                    def cancel(rec=rec):
                        if not rec["req"].response.done():
                            sim.probe("request_cancelled_while_exchange_open")
                            rec["req"].response.cancel()
                    loop.at(loop.now + m["cancel_at"], cancel)
            loop.at(m["t"], start)
        else:
            sim.probe("server_con")
            req = {"type": rc.CON, "code": rc.GET, "mid": 0x100 + m["id"], "token": bytes([0xA0 + m["id"]]),
                   "options": [(rc.URI_PATH, b"s%d" % m["id"])], "payload": b""}
            peer.send_at(m["t"], (common.SERVER_IP, 5683), msg=req, fate=["deliver", 0.005])

    sim.run()

    # ---------------------------------------------------------------- oracle
    exact = not stall
    by_msg = {}
    for key in exch_order:
        st = world["exch"][key]
        src, dst, mid = key
        # which scenario message is this?
        spec = None
        for m in msgs:
            if peers[m["id"]].addr == dst:
                spec = m
        if spec is None:
            continue
        ents = st["entries"]
        if 1 <= ents[0]["msg"]["code"] < 32 and (rc.opt1(ents[0]["msg"], rc.URI_PATH) or b"").startswith(b"c"):
            continue  # the companion request's own (promptly acknowledged) exchange is not under study
        tv = common.tuning_values(spec["tuning"])
        mr = tv["MAX_RETRANSMIT"]
        tx = st["tx"]
        ident = {"msg": spec["id"], "dst": fmt(dst), "mid": mid}
        by_msg.setdefault(spec["id"], []).append(st)
        # identical copies
        if any(e["data"] != ents[0]["data"] for e in ents):
            sim.violation("C03/copies-differ", ident)
        if len(tx) > 1 + mr:
            sim.violation("C03/too-many-transmissions", dict(ident, n=len(tx), max=1 + mr))
        d = st["draw"]
        if d is None:
            sim.violation("C03/no-jitter-draw", ident)
            continue
        lo, hi, g = d[1], d[2], d[3]
        if abs(lo - tv["ACK_TIMEOUT"]) > TOL or abs(hi - tv["ACK_TIMEOUT"] * tv["ACK_RANDOM_FACTOR"]) > TOL:
            sim.violation("C03/initial-timeout-interval", dict(ident, interval=[lo, hi], tuning=tv))
        gaps = [tx[i + 1] - tx[i] for i in range(len(tx) - 1)]
        for i, gp in enumerate(gaps):
            nominal = g * 2 ** i
            if exact:
                if abs(gp - nominal) > TOL * max(1.0, nominal):
                    sim.violation("C03/gap-not-doubled" if i else "C03/first-gap-not-initial-timeout",
                                  dict(ident, i=i, gap=gp, expected=nominal))
                    break
            elif gp < nominal - TOL * max(1.0, nominal):
                sim.violation("C03/gap-too-short", dict(ident, i=i, gap=gp, expected_min=nominal))
                break
        # genuine acknowledgement deliveries
        t_stop = None
        stop_kind = None
        for (t, e, data) in common.deliveries_to(sim.net.wire, src):
            if e["src"] != dst:
                continue
            try:
                am = rc.decode(data)
            except rc.FormatError:
                continue
            if am["type"] in (rc.ACK, rc.RST) and am["mid"] == mid:
                t_stop = t
                stop_kind = "rst" if am["type"] == rc.RST else (
                    ("piggy" if am["token"] == ents[0]["msg"]["token"] else "piggy_wrongtoken") if am["code"] else "ack")
                break
        # timers[i] = instant at which the timer armed by copy i is due (same float arithmetic as
        # call_later: transmission instant + timeout); copies not (yet) sent are extrapolated
        timers = []
        for i in range(mr + 1):
            base = tx[i] if i < len(tx) else timers[-1]
            timers.append(base + g * 2 ** i)
        # timers[mr] is the give-up instant
        if t_stop is not None:
            late = [t for t in tx if t > t_stop + TOL]
            if late:
                sim.violation("C03/transmission-after-ack", dict(ident, t_ack=t_stop, tx=tx, kind=stop_kind))
        if exact:
            lim = t_stop if t_stop is not None else float("inf")
            must = 1 + sum(1 for w in timers[:mr] if w < lim - TOL)
            if len(tx) < must:
                sim.violation("C03/retransmission-missing", dict(ident, n=len(tx), expected_at_least=must,
                                                                t_ack=t_stop))
        elif t_stop is None and len(tx) < 1 + mr:
            sim.violation("C03/retransmission-missing", dict(ident, n=len(tx), expected_at_least=1 + mr, t_ack=None))
        giveup = t_stop is None or t_stop > timers[mr] + TOL
        st["tie_at_giveup"] = t_stop is not None and (abs(t_stop - timers[mr]) <= TOL or
                                                      (not exact and t_stop >= timers[mr] - TOL))
        if giveup and exact:
            sim.probe("giveup")
        st["giveup"] = giveup
        st["t_stop"] = t_stop
        st["stop_kind"] = stop_kind
        st["t_giveup"] = timers[mr]
        st["mtw"] = tv["MAX_TRANSMIT_WAIT"]
        if exact and timers[mr] - tx[0] > tv["MAX_TRANSMIT_WAIT"] + TOL * 10:
            sim.violation("C03/giveup-later-than-max-transmit-wait", dict(ident, span=timers[mr] - tx[0]))

    # request outcomes
    for m in msgs:
        if m["kind"] != "request":
            continue
        rec = tracker.results.get(m["id"])
        sts = by_msg.get(m["id"], [])
        if rec is None:
            continue
        ident = {"msg": m["id"]}
        if rec["done"] > 1:
            sim.violation("C03/request-completed-twice", ident)
        if rec.get("outcome") == "cancelled":
            continue  # the application cancelled it; the retransmission rules above still applied
        if not sts:
            # never transmitted
            if rec["done"] == 0:
                sim.violation("C03/request-never-sent-nor-failed", ident)
            continue
        st = sts[0]
        if st["tie_at_giveup"]:
            continue  # acknowledgement and give-up timer in the same instant: either outcome is legal
        if st["giveup"]:
            if rec["done"] == 0:
                sim.violation("C03/request-hangs-after-giveup", ident)
            elif rec["outcome"] != "error" or not isinstance(rec["exception"], error.ConRetransmitsExceeded):
                sim.violation("C03/giveup-wrong-outcome", dict(ident, outcome=rec["outcome"],
                                                              exc=repr(rec.get("exception"))))
            else:
                exc = rec["exception"]
                if not (isinstance(exc, error.TimeoutError) and isinstance(exc, error.NetworkError)
                        and isinstance(exc, error.Error)):
                    sim.violation("C03/giveup-error-class", dict(ident, exc=repr(exc)))
                if exact and abs(rec["t_done"] - st["t_giveup"]) > TOL * max(1.0, st["t_giveup"]):
                    sim.violation("C03/giveup-time", dict(ident, t_done=rec["t_done"], expected=st["t_giveup"]))
        elif st["stop_kind"] == "rst":
            if rec["done"] == 0:
                sim.violation("C03/request-hangs-after-rst", ident)
            elif rec["outcome"] != "error" or not isinstance(rec["exception"], error.Error):
                sim.violation("C03/rst-wrong-outcome", dict(ident, outcome=rec["outcome"],
                                                           exc=repr(rec.get("exception"))))
            elif exact and abs(rec["t_done"] - st["t_stop"]) > TOL:
                sim.violation("C03/rst-failure-time", dict(ident, t_done=rec["t_done"], t_rst=st["t_stop"]))
        elif st["stop_kind"] == "piggy":
            if rec["done"] == 0 or rec["outcome"] != "response":
                sim.violation("C03/piggyback-not-delivered", dict(ident, outcome=rec.get("outcome")))
        else:
            # empty ACK and nothing else: the library keeps waiting (no time-out promised)
            if rec["done"] and rec["outcome"] == "error":
                sim.violation("C03/acked-request-failed", dict(ident, exc=repr(rec.get("exception"))))
    for (t, m, en, es) in sim.loop_exceptions():
        sim.anomaly("loop-exception", "%s %s %s" % (m, en, es))
