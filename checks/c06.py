"""C06 -- block-wise server: handlers see only complete bodies, blocks are exact slices."""

from simkit import refcodec as rc
from simkit.net import ScriptedEndpoint, fmt
from . import common
from .common import TOL

PROPERTY = "C06"
LEVEL = "exploration"
RUNS = {"quick": 2500, "thorough": 40000}
RULE = ("seeded scenarios: 1-3 scripted clients send 5-40 block-wise request datagrams (Block1 sequences in order, "
        "restarted at 0, repeated, skipped, with wrong payload length, last block first, changing SZX; Block2 requests "
        "with arbitrary NUM/SZX with and without a preceding block-0 request) to a real server with a recording "
        "resource (GET/PUT/POST/FETCH, self-describing renderings), interleaved across endpoints, resources, queries "
        "and methods, with idle gaps chosen relative to MAX_TRANSMIT_WAIT (93 s): < T, between T and 2T, > 2T; every "
        "response is compared with an executable spool/cache reference model. Systematic: all orderings of <= 4 blocks "
        "of one transfer. Non-trivial = at least one irregular step (restart/repeat/skip/wrong size/expiry/interleaving "
        "of two keys); distinct = distinct event-sequence hash.")
COMPONENTS_REAL = ["aiocoap.blockwise (Block1Spool, Block2Cache)", "aiocoap.interfaces.Resource._render_to_pipe",
                   "aiocoap.message (_append_request_block, _extract_block, get_cache_key)",
                   "aiocoap.util.asyncio.timeoutdict", "aiocoap.resource", "aiocoap.messagemanager", "aiocoap.transports.udp6"]
COMPONENTS_STUB = ["UDP socket (SimSocket)", "scripted clients (reference codec)", "event loop clock (virtual)",
                   "reference model of spool and cache (oracle)"]
ASSUMPTIONS = ["state lifetime is an interval: idle < MAX_TRANSMIT_WAIT must still be there, idle > 2 x MAX_TRANSMIT_WAIT must "
               "be gone, in between either answer is accepted (the model follows the observed answer)",
               "a continuation extending an assembly whose final block was already delivered is accepted either way",
               "a non-final block 0 with a payload shorter than its block size is not generated (the statement speaks of continuations)",
               "for NUM>0 the slice may come from the latest block-0 rendering or from the latest rendering that needed "
               "block-wise transfer, when these differ; when the latest rendering went out complete in one response a "
               "later-block request may also be refused with 4.08"]
EXPECTED_PROBES = ["upload_restarted_while_handler_busy", "wrong_payload_length_block0", "continue_231", "final_block_handler", "gap_or_overlap", "unknown_transfer", "expired_transfer",
                   "wrong_payload_length", "block2_slice", "block2_beyond_end", "block2_without_rendering",
                   "interleaved_keys", "lifetime_gray_zone", "restart_at_zero", "concurrent_requests", "assembly_in_front_of_a_site",
                   "representation_changes_between_block0_requests"]

T = 93.0
METHODS = {"GET": rc.GET, "PUT": rc.PUT, "POST": rc.POST, "FETCH": rc.FETCH}


def size_of(szx):
    return 1 << (szx + 4)


def body(seed, n):
    # deterministic, position dependent content
    out = bytearray()
    i = 0
    while len(out) < n:
        out += b"%02x%06d" % (seed & 0xFF, i)
        i += 1
    return bytes(out[:n])


def gen_transfer(r, tid, nclients):
    method = r.choice(["PUT", "POST", "FETCH", "PUT"])
    szx = r.choice([0, 0, 1, 2, 6])
    size = size_of(szx)
    nblocks = r.choice([1, 2, 2, 3, 4, 5])
    if szx == 6:
        nblocks = min(nblocks, 2)
    last_len = r.choice([0, 1, size - 1, size]) if nblocks > 1 else r.choice([1, size - 1, size])
    total = (nblocks - 1) * size + last_len
    if total == (nblocks - 1) * size and nblocks > 1:
        # last block empty: then the previous one is the final one for RFC purposes; keep it simple
        total += 1
    t = {"tid": tid, "c": r.randrange(nclients), "method": method, "path": r.choice(["r0", "r1"]),
         "query": r.choice(["k=0", "k=1", ""]), "szx": szx, "total": total, "seed": tid * 7 + 1,
         "rlen": r.choice([8, 8, 40, 1200]) if method in ("POST", "FETCH") else 8}
    return t


def steps_of(tr):
    """in-order block steps of a transfer"""
    size = size_of(tr["szx"])
    data = body(tr["seed"], tr["total"])
    n = max(1, (tr["total"] + size - 1) // size)
    out = []
    for i in range(n):
        chunk = data[i * size:(i + 1) * size]
        out.append({"tid": tr["tid"], "c": tr["c"], "method": tr["method"], "path": tr["path"], "query": tr["query"],
                    "b1": [i, 1 if i < n - 1 else 0, tr["szx"]], "payload": chunk.hex(), "b2": None,
                    "rlen": tr["rlen"], "rtag": tr.get("rtag")})
    return out


def mutate_steps(r, steps):
    steps = [dict(s) for s in steps]
    k = r.random()
    if len(steps) >= 2 and k < 0.12:  # restart at 0 in the middle
        i = r.randrange(1, len(steps))
        steps = steps[:i] + [dict(s) for s in steps]
    elif len(steps) >= 2 and k < 0.24:  # repeat a block
        i = r.randrange(0, len(steps))
        steps = steps[:i + 1] + [dict(steps[i])] + steps[i + 1:]
    elif len(steps) >= 3 and k < 0.36:  # skip one
        i = r.randrange(1, len(steps) - 1)
        steps = steps[:i] + steps[i + 1:]
    elif len(steps) >= 2 and k < 0.46:  # wrong payload length in a continuation
        cands = [i for i in range(1, len(steps)) if steps[i]["b1"][1]]
        if r.chance(0.3) and not steps[-1]["b1"][1]:
            # the final block carries more than a block of its size can hold
            p = bytes.fromhex(steps[-1]["payload"])
            steps[-1]["payload"] = (p + b"Z" * (size_of(steps[-1]["b1"][2]) - len(p) + r.choice([1, 5, 300]))).hex()
        elif cands:
            i = r.choice(cands)
            p = bytes.fromhex(steps[i]["payload"])
            steps[i]["payload"] = (p[:-1] if r.chance(0.5) else p + b"Z").hex()
    elif len(steps) >= 2 and k < 0.50:  # block 0 itself contradicts its block size
        if steps[0]["b1"] is not None and steps[0]["b1"][1]:
            if len(steps) >= 3 and r.chance(0.6):
                # block 0 carries the bytes of blocks 0 and 1 under one block's size; block 1 is never sent, block 2
                # would "fit" behind what block 0 brought
                steps[0]["payload"] = (bytes.fromhex(steps[0]["payload"]) + bytes.fromhex(steps[1]["payload"])).hex()
                steps = [steps[0]] + steps[2:]
            else:
                p = bytes.fromhex(steps[0]["payload"])
                steps[0]["payload"] = (p[:-1] if r.chance(0.5) else p + b"Z").hex()
    elif len(steps) >= 2 and k < 0.54:  # last block first
        steps = [steps[-1]] + steps[:-1]
    elif len(steps) >= 2 and k < 0.62:  # drop block 0 (unknown transfer)
        steps = steps[1:]
    elif len(steps) >= 2 and k < 0.70:  # continue with smaller blocks: NUM recomputed for the new size
        i = r.randrange(1, len(steps))
        old = steps[i]["b1"][2]
        if old > 0:
            new = r.randrange(0, old)
            off = i * size_of(old)
            tail = b"".join(bytes.fromhex(s["payload"]) for s in steps[i:])
            ns = []
            sz = size_of(new)
            nb = max(1, (len(tail) + sz - 1) // sz)
            for j in range(nb):
                s = dict(steps[i])
                s["b1"] = [off // sz + j, 1 if j < nb - 1 else 0, new]
                s["payload"] = tail[j * sz:(j + 1) * sz].hex()
                ns.append(s)
            steps = steps[:i] + ns
    elif len(steps) >= 2 and k < 0.80:
        # in the middle of the transfer the client sends a request that is complete in its single block 0 (a restart
        # with a short body), and then goes on with the OLD transfer's next block: that continuation has nothing to
        # extend any more
        i = r.randrange(1, len(steps))
        single = dict(steps[0])
        szx = single["b1"][2]
        p = bytes.fromhex(single["payload"])
        single["payload"] = (p if r.chance(0.5) else p[: r.randint(1, max(1, len(p)))] or b"x").hex()
        single["b1"] = [0, 0, szx]
        steps = steps[:i] + [single] + steps[i:]
    return steps


def gen_b2_steps(r, tid, nclients):
    c = r.randrange(nclients)
    method = r.choice(["GET", "GET", "FETCH"])
    rlen = r.choice([16, 17, 32, 48, 100, 1024, 1124, 1125, 1500, 2048, 2500])
    szx = r.choice([0, 2, 4, 5, 6])
    size = size_of(szx)
    base = {"tid": tid, "c": c, "method": method, "path": r.choice(["r0", "r1"]), "query": r.choice(["k=0", "k=1"]),
            "b1": None, "payload": "", "rlen": rlen}
    steps = []
    nblocks = (rlen + size - 1) // size
    if r.chance(0.85):
        first = dict(base)
        first["b2"] = [0, 0, szx] if r.chance(0.7) else None
        steps.append(first)
    nums = list(range(1, min(nblocks, 6)))
    if r.chance(0.4):
        nums.append(nblocks + r.choice([0, 0, 1, 2]))  # beyond the end; nblocks itself starts exactly AT the end when
        # the length is a multiple of the block size
    if r.chance(0.3):
        r.shuffle(nums)
    eff = szx if (steps and steps[0]["b2"] is not None) or not steps else 6
    for n in nums[:5]:
        s = dict(base)
        s["b2"] = [n, 0, eff if r.chance(0.85) else max(0, eff - 1)]
        steps.append(s)
    return steps


def gen_concurrent(r):
    """Requests that are in processing at the same time: a handler that takes a while, and several complete requests
    (one block each) for ONE resource with identical options from one or two endpoints arriving meanwhile -- each with
    a body of its own where the method has one."""
    n = r.randint(2, 5)
    method = r.choice(["FETCH", "FETCH", "POST", "GET", "PUT"])
    d = r.choice([0.05, 0.3, 1.0])
    reqs = []
    t = 0.0
    for i in range(n):
        t += r.choice([0.0, 0.0, 0.001, 0.01, d / 2, d * 2])
        reqs.append({"c": r.randrange(2) if r.chance(0.3) else 0, "t": round(t, 4), "seed": 11 + i,
                     "blen": 0 if method == "GET" else r.choice([1, 7, 16, 100])})
    return {"concurrent": {"method": method, "d": d, "rlen": r.choice([8, 40, 100, 1200, 2500]), "szx": r.choice([None, 6, 4, 2]),
                           "reqs": reqs, "follow": r.chance(0.6)}, "nclients": 2, "ops": []}


def busy_neighbour(step, nb, first="A", path="r0"):
    """An upload A that goes on for long (a block every `step` seconds) and an upload B of another endpoint to the same
    resource that is started next to it and continued only after A is through: B's state has been idle for nb x step."""
    a = steps_of({"tid": 0, "c": 0, "method": "PUT", "path": path, "query": "k=0", "szx": 0, "total": nb * 16 - 3, "seed": 5, "rlen": 8})
    b = steps_of({"tid": 1, "c": 1, "method": "PUT", "path": path, "query": "k=0", "szx": 0, "total": 30, "seed": 9, "rlen": 8})
    ops = []
    for i, st in enumerate(a):
        st["t"] = round(0.1 + i * step, 3)
        ops.append(st)
    b[0]["t"] = 0.05 if first == "B" else 0.2
    b[1]["t"] = round(0.1 + (nb - 1) * step + 1.0, 3)
    ops += b
    ops.sort(key=lambda o: o["t"])
    return {"nclients": 2, "ops": ops}


def gen_stale(r):
    """A resource whose representation depends on the server's state, fetched block-wise; between two block-0 requests
    the state changes (the representation shrinks below one block, grows, or rendering fails).  Later blocks are
    slices of the rendering made for the LATEST block-0 request -- never of one before it."""
    szx = r.choice([0, 2, 4, 6])
    size = 1 << (szx + 4)
    l1 = r.choice([2, 3, 5]) * size + r.choice([0, 1, size - 1])
    second = r.choice(["small", "small", "raise", "grow", "same_size"])
    l2 = {"small": r.choice([0, 1, 8, size]), "raise": 0, "grow": l1 + r.choice([1, size, 3 * size]), "same_size": l1}[second]
    return {"stale": {"szx": szx, "l1": l1, "second": second, "l2": l2, "second_b2": r.choice([None, 0]),
                      "k": r.choice([1, 1, 2]), "gap": r.choice([0.05, 1.0, 30.0]), "method": r.choice(["GET", "FETCH"])},
            "nclients": 1, "ops": []}


def gen_overlap(r):
    """An upload whose handler takes a while; meanwhile the same endpoint starts the next upload to the same resource
    (same method and options, block 0 with more to come) and continues it while the first handler is still busy, or
    after it has finished or failed."""
    d = r.choice([0.3, 1.0, 5.0])
    return {"overlap": {"method": r.choice(["PUT", "POST", "FETCH"]), "d": d, "szx": r.choice([0, 0, 2]),
                        "nblocks_a": r.choice([1, 2, 3]), "nblocks_b": r.choice([2, 3]),
                        "restart_at": r.choice([0.01, d / 2, d - 0.01]), "cont_at": r.choice([d / 2 + 0.02, d - 0.005, d + 0.001, d + 0.5, d + 20.0]),
                        "first_fails": r.chance(0.25), "rlen": r.choice([8, 40])}, "nclients": 1, "ops": []}


def gen(r, tier):
    if r.chance(0.12):
        return gen_concurrent(r)
    if r.chance(0.05):
        return gen_overlap(r)
    if r.chance(0.05):
        return gen_stale(r)
    if r.chance(0.05):
        return busy_neighbour(r.choice([0.3 * T, 0.6 * T, 0.9 * T, T - 0.5]), r.randint(3, 7), r.choice(["A", "B"]), r.choice(["r0", "r1"]))
    nclients = r.choice([1, 2, 3])
    seqs = []
    ntr = r.randint(1, 4)
    prev_tr = None
    for tid in range(ntr):
        if r.chance(0.35):
            seqs.append(gen_b2_steps(r, tid, nclients))
        else:
            tr = gen_transfer(r, tid, nclients)
            if prev_tr is not None and nclients > 1 and r.chance(0.4):
                # a twin: ANOTHER endpoint runs the same transfer (same method, resource, options, sizes) with a body
                # of its own at the same time -- only the endpoint tells the two assemblies apart
                tr = dict(prev_tr, tid=tid, seed=tid * 7 + 1,
                          c=r.choice([c for c in range(nclients) if c != prev_tr["c"]]))
            elif prev_tr is not None and r.chance(0.25):
                # two transfers of ONE endpoint to one resource that differ only in their Request-Tag option (RFC 9175:
                # that is what the option is for -- an ordinary cache-key option as far as the server is concerned)
                prev_tr.setdefault("rtag", "a1")
                tr = dict(prev_tr, tid=tid, seed=tid * 7 + 1, rtag="b2%02x" % tid)
            prev_tr = tr
            seqs.append(mutate_steps(r, steps_of(tr)))
    # interleave
    ops = []
    idx = [0] * len(seqs)
    mode = r.choice(["sequential", "interleave", "interleave"])
    order = list(range(len(seqs)))
    while any(idx[i] < len(seqs[i]) for i in order):
        live = [i for i in order if idx[i] < len(seqs[i])]
        i = live[0] if mode == "sequential" else r.choice(live)
        ops.append(seqs[i][idx[i]])
        idx[i] += 1
    ops = ops[:40]
    t = 0.0
    for op in ops:
        g = r.weighted([(12, "short"), (2, "lt"), (1, "between"), (1, "gt")])
        if g == "short":
            t += r.choice([0.02, 0.1, 1.0, 5.0])
        elif g == "lt":
            t += r.choice([50.0, T - 1.0, T - 0.01])
        elif g == "between":
            t += r.choice([T + 0.01, 120.0, 2 * T - 0.01])
        else:
            t += r.choice([2 * T + 0.01, 200.0, 400.0])
        op["t"] = round(t, 4)
    tcp = []
    if r.chance(0.15):
        # the server also listens on TCP: downloads by a peer that announced block-wise support (BERT where it fits)
        for _ in range(r.randint(1, 2)):
            tcp.append({"t": round(r.uniform(0, 5), 3), "rlen": r.choice([100, 1024, 1025, 2048, 3000, 5000, 8192, 8193, 20000]),
                        "mms": r.choice([1152, 2300, 3400, 8320, 70000]), "szx": r.choice([7, 7, None, 6, 4])})
    return {"nclients": nclients, "ops": ops, "same_host": r.chance(0.3), "tcp": tcp, "front": r.chance(0.25)}


def systematic(tier):
    import itertools
    out = []
    for method in ("FETCH", "GET", "POST"):
        for rlen, szx in ((8, None), (2500, 6), (100, 2)):
            for gaps in ((0.0, 0.0), (0.01, 0.01), (0.01, 0.5)):
                reqs = [{"c": 0, "t": round(sum(gaps[:k]), 4), "seed": 11 + k, "blen": 0 if method == "GET" else 7} for k in range(3)]
                out.append({"concurrent": {"method": method, "d": 0.3, "rlen": rlen, "szx": szx, "reqs": reqs, "follow": True},
                            "nclients": 2, "ops": []})
    for nb in (2, 3, 4):
        tr = {"tid": 0, "c": 0, "method": "PUT", "path": "r0", "query": "k=0", "szx": 0, "total": nb * 16 - 3,
              "seed": 5, "rlen": 8}
        st = steps_of(tr)
        perms = list(itertools.permutations(range(nb)))
        if tier == "quick" and nb == 4:
            perms = perms[::3]
        for perm in perms:
            ops = []
            for j, i in enumerate(perm):
                s = dict(st[i])
                s["t"] = round(0.1 * (j + 1), 3)
                ops.append(s)
            out.append({"nclients": 1, "ops": ops})
            if perm == tuple(range(nb)) or perm == tuple(reversed(range(nb))):
                out.append({"nclients": 1, "ops": [dict(o) for o in ops], "front": True})
    # two clients, same key, interleaved in lock step
    tr0 = {"tid": 0, "c": 0, "method": "POST", "path": "r0", "query": "k=0", "szx": 0, "total": 40, "seed": 3, "rlen": 8}
    tr1 = dict(tr0, tid=1, c=1, seed=9, total=41)
    ops = []
    for a, b in zip(steps_of(tr0), steps_of(tr1)):
        ops += [a, b]
    for j, s in enumerate(ops):
        s["t"] = round(0.1 * (j + 1), 3)
    out.append({"nclients": 2, "ops": ops})
    out.append({"nclients": 2, "ops": [dict(o) for o in ops], "front": True})
    # somebody else's state is kept busy while one's own idles
    for step in (0.5 * T, 0.9 * T):
        for nb in (4, 6):
            for first in ("A", "B"):
                out.append(busy_neighbour(step, nb, first))
    # idle gaps around the lifetime between block 0 and block 1
    for gap in (T - 0.5, T + 0.5, 2 * T - 0.5, 2 * T + 0.5, 3 * T):
        st = steps_of({"tid": 0, "c": 0, "method": "PUT", "path": "r0", "query": "", "szx": 0, "total": 30, "seed": 1, "rlen": 8})
        st[0]["t"] = 0.1
        st[1]["t"] = round(0.1 + gap, 3)
        out.append({"nclients": 1, "ops": st})
        b2 = [{"tid": 0, "c": 0, "method": "GET", "path": "r1", "query": "k=1", "b1": None, "payload": "", "rlen": 100,
               "b2": [0, 0, 1], "t": 0.1},
              {"tid": 0, "c": 0, "method": "GET", "path": "r1", "query": "k=1", "b1": None, "payload": "", "rlen": 100,
               "b2": [1, 0, 1], "t": round(0.1 + gap, 3)}]
        out.append({"nclients": 1, "ops": b2})
    return out


class Client(ScriptedEndpoint):
    def __init__(self, sim, ip, port):
        super().__init__(sim, ip, port)
        self.responses = {}  # token -> msg

    def handle(self, msg, src, data):
        if msg is None:
            return
        if msg["code"] >= 64:
            self.responses.setdefault(msg["token"], []).append((self.loop.now, msg))
        if msg["type"] == rc.CON:
            self.send(src, msg={"type": rc.ACK, "code": 0, "mid": msg["mid"], "token": b"", "options": [], "payload": b""})


def rendering(rid, n):
    out = bytearray()
    off = 0
    while len(out) < n:
        out += b"%05d@%09d;" % (rid, off)
        off += 16
    return bytes(out[:n])


def execute_concurrent(sim, scn):
    import asyncio
    import aiocoap.resource as resource
    from aiocoap import Message

    loop = sim.loop
    cc = scn["concurrent"]
    invocations = {}
    counter = [0]

    class Slow(resource.Resource):
        async def _do(self, request):
            counter[0] += 1
            rid = counter[0]
            sa = request.remote.sockaddr
            invocations[rid] = {"t": loop.now, "client": (sa[0], sa[1]), "body": bytes(request.payload), "method": int(request.code)}
            sim.log("app", "invoke", rid, len(request.payload))
            await asyncio.sleep(cc["d"])
            return Message(payload=rendering(rid, cc["rlen"]))

        render_get = render_put = render_post = render_fetch = _do

    async def setup():
        site = resource.Site()
        site.add_resource(["slow"], Slow())
        return await sim.server(site, common.SERVER_IP)

    loop.run_until_complete(setup())
    srv = (common.SERVER_IP, 5683)
    got = {}  # token -> list of (t, msg)

    class C(ScriptedEndpoint):
        def handle(self, msg, src, data):
            if msg is None or msg["code"] < 64:
                return
            first = msg["token"] not in got
            got.setdefault(msg["token"], []).append((self.loop.now, msg))
            if msg["type"] == rc.CON:
                self.send(src, msg={"type": rc.ACK, "code": 0, "mid": msg["mid"], "token": b"", "options": [], "payload": b""})
            b2 = rc.opt1(msg, rc.BLOCK2)
            if first and cc.get("follow") and b2 is not None and rc.block_value(b2)[1] and len(msg["token"]) == 2:
                # go on with the next block of "my" response
                num, more, szx = rc.block_value(b2)
                i = msg["token"][1]
                tok = bytes([0xF1, i, 1])
                follow_of[tok] = msg["token"]
                self.send(src, msg={"type": rc.CON, "code": METHODS[cc["method"]], "mid": 0x7100 + i, "token": tok,
                                    "options": base_options + [(rc.BLOCK2, rc.block_bytes(num + 1, False, szx))],
                                    "payload": bodies[i] if cc["method"] == "FETCH" else b""})

    follow_of = {}
    clients = [C(sim, common.PEER_IPS[i], 5683) for i in range(2)]
    base_options = [(rc.URI_PATH, b"slow")]
    bodies = {}
    sent = []
    sim.probe("concurrent_requests")
    for i, q in enumerate(cc["reqs"]):
        tok = bytes([0xF0, i])
        bodies[i] = body(q["seed"], q["blen"])
        opts = list(base_options)
        if cc.get("szx") is not None:
            opts.append((rc.BLOCK2, rc.block_bytes(0, False, cc["szx"])))
        clients[q["c"]].send(srv, msg={"type": rc.CON, "code": METHODS[cc["method"]], "mid": 0x7000 + i, "token": tok,
                                       "options": opts, "payload": bodies[i]}, fate=["at", q["t"]])
        sent.append((tok, i, q))
    sim.run()
    sim.nontrivial = True
    for tok, i, q in sent:
        ident = {"request": i, "method": cc["method"], "client": q["c"], "t": q["t"], "handler_takes": cc["d"], "rlen": cc["rlen"]}
        resps = [m for (t, m) in got.get(tok, []) if m["code"] != 0]
        if len({rc.encode(dict(m, mid=0, type=rc.NON)) for m in resps}) != 1:
            sim.violation("C06/concurrent-request-not-answered-once", dict(ident, n=len(resps)))
            continue
        m = resps[0]
        if m["code"] >> 5 != 2:
            sim.violation("C06/concurrent-request-failed", dict(ident, code=rc.code_str(m["code"])))
            continue
        try:
            rid = int(m["payload"][:5])
        except ValueError:
            sim.violation("C06/concurrent-request-wrong-rendering", dict(ident, payload=m["payload"][:32].hex()))
            continue
        inv = invocations.get(rid)
        b2 = rc.opt1(m, rc.BLOCK2)
        size = size_of(rc.block_value(b2)[2]) if b2 is not None else None
        want = rendering(rid, cc["rlen"])
        if inv is None or inv["body"] != bodies[i] or inv["client"] != clients[q["c"]].addr[:2] or \
                m["payload"] != (want[:size] if size else want):
            sim.violation("C06/response-not-rendered-for-this-request",
                          dict(ident, rendering=rid, handler_saw_body=None if inv is None else inv["body"][:16].hex(),
                               request_body=bodies[i][:16].hex()))
            continue
        if cc["method"] in ("FETCH", "GET"):
            # the next block, asked for right after "my" first one: a slice of a rendering made for the latest block-0
            # request of this endpoint -- whichever of the overlapping ones that is, it is one the handler made for a
            # request of this endpoint; a slice of nothing else
            ftok = bytes([0xF1, i, 1])
            for (t, fm) in got.get(ftok, []):
                if fm["code"] >> 5 != 2:
                    continue
                sim.probe("concurrent_followup_block")
                cands = [r_ for r_, v in invocations.items() if v["client"] == clients[q["c"]].addr[:2]]
                fb2 = rc.block_value(rc.opt1(fm, rc.BLOCK2))
                lo = fb2[0] * size_of(fb2[2])
                if not any(rendering(r_, cc["rlen"])[lo:lo + size_of(fb2[2])] == fm["payload"] for r_ in cands):
                    sim.violation("C06/block-not-a-slice-of-own-rendering", dict(ident, num=fb2[0]))
    if len(invocations) != len(sent):
        sim.violation("C06/handler-invocations-differ-from-requests", {"requests": len(sent), "invocations": len(invocations),
                                                                      "method": cc["method"]})
    for (t, m, en, es) in sim.loop_exceptions():
        sim.anomaly("loop-exception:%s" % en, "%s %s" % (m, es))


def execute_overlap(sim, scn):
    import asyncio
    import aiocoap.resource as resource
    from aiocoap import Message

    loop = sim.loop
    ov = scn["overlap"]
    size = size_of(ov["szx"])
    invocations = []

    class Slow(resource.Resource):
        async def _do(self, request):
            rid = len(invocations) + 1
            invocations.append({"rid": rid, "t": loop.now, "body": bytes(request.payload)})
            sim.log("app", "invoke", rid, len(request.payload))
            await asyncio.sleep(ov["d"])
            if rid == 1 and ov.get("first_fails"):
                raise RuntimeError("handler fails")
            return Message(payload=rendering(rid, ov["rlen"]))

        render_put = render_post = render_fetch = _do

    async def setup():
        site = resource.Site()
        site.add_resource(["slow"], Slow())
        return await sim.server(site, common.SERVER_IP)

    loop.run_until_complete(setup())
    srv = (common.SERVER_IP, 5683)
    got = {}  # mid -> list of messages

    class C(ScriptedEndpoint):
        def handle(self, msg, src, data):
            if msg is None:
                return
            if msg["type"] == rc.CON:
                self.send(src, msg={"type": rc.ACK, "code": 0, "mid": msg["mid"], "token": b"", "options": [], "payload": b""})
            if msg["code"] >= 64:
                got.setdefault(bytes(msg["token"]), []).append(msg)

    c = C(sim, common.PEER_IPS[0], 5683)
    sim.probe("upload_restarted_while_handler_busy")
    body_a = body(3, (ov["nblocks_a"] - 1) * size + 5)
    body_b = body(4, (ov["nblocks_b"] - 1) * size + 9)
    mid = [0x7200]

    def send_block(which, data, num, t):
        last = (num + 1) * size >= len(data)
        tok = bytes([0xF2, which, num])
        mid[0] += 1
        c.send(srv, msg={"type": rc.CON, "code": METHODS[ov["method"]], "mid": mid[0], "token": tok,
                         "options": [(rc.URI_PATH, b"slow"), (rc.BLOCK1, rc.block_bytes(num, not last, ov["szx"]))],
                         "payload": data[num * size:(num + 1) * size]}, fate=["at", t])
        return tok, last

    plan = []  # (token, which, num, last)
    for num in range(ov["nblocks_a"]):
        tok, last = send_block(0, body_a, num, 0.1 + 0.01 * num)
        plan.append((tok, 0, num, last))
    t_final_a = 0.1 + 0.01 * (ov["nblocks_a"] - 1)
    tok, last = send_block(1, body_b, 0, t_final_a + ov["restart_at"])
    plan.append((tok, 1, 0, last))
    for num in range(1, ov["nblocks_b"]):
        tok, last = send_block(1, body_b, num, t_final_a + max(ov["cont_at"], ov["restart_at"] + 0.005) + 0.01 * (num - 1))
        plan.append((tok, 1, num, last))
    sim.run()
    sim.nontrivial = True
    for tok, which, num, last in plan:
        ident = {"upload": "AB"[which], "block": num, "final": last, "method": ov["method"], "handler_takes": ov["d"],
                 "restart_at": ov["restart_at"], "continued_at": ov["cont_at"], "first_fails": bool(ov.get("first_fails"))}
        resps = [m for m in got.get(tok, []) if m["code"] != 0]
        if len({rc.encode(dict(m, mid=0, type=rc.NON)) for m in resps}) != 1:
            sim.violation("C06/overlapping-upload-block-not-answered-once", dict(ident, n=len(resps)))
            continue
        m = resps[0]
        if not last:
            b1 = rc.opt1(m, rc.BLOCK1)
            if m["code"] != rc.code(2, 31) or b1 is None or rc.block_value(b1)[0] != num:
                sim.violation("C06/intermediate-block-not-231", dict(ident, code=rc.code_str(m["code"])))
            continue
        if which == 0 and ov.get("first_fails"):
            if m["code"] != rc.code(5, 0):
                sim.violation("C06/failed-handler-not-500", dict(ident, code=rc.code_str(m["code"])))
            continue
        # the final block of an upload whose blocks 0..n all arrived in order, from one endpoint, under one key, with
        # nothing of that endpoint in between but the END of its previous upload's processing: it extends its assembly
        if m["code"] >> 5 != 2:
            sim.violation("C06/continuation-of-fresh-assembly-refused", dict(ident, code=rc.code_str(m["code"])))
            continue
        want_body = body_b if which else body_a
        try:
            rid = int(m["payload"][:5])
        except ValueError:
            rid = None
        inv = [i for i in invocations if i["rid"] == rid]
        if not inv or inv[0]["body"] != want_body:
            sim.violation("C06/handler-saw-wrong-body", dict(ident, rendering=rid, saw=None if not inv else inv[0]["body"][:24].hex(),
                                                            expected=want_body[:24].hex()))
    if [i["body"] for i in invocations] != [body_a, body_b]:
        sim.violation("C06/handler-invocation-count", {"invocations": len(invocations), "expected": 2, "family": "overlap",
                                                       "bodies": [i["body"][:12].hex() for i in invocations]})
    for (t, m, en, es) in sim.loop_exceptions():
        sim.anomaly("loop-exception:%s" % en, "%s %s" % (m, es))


def execute_stale(sim, scn):
    import aiocoap.resource as resource
    from aiocoap import Message

    loop = sim.loop
    st = scn["stale"]
    state = {"len": st["l1"], "fail": False}
    renders = []

    class Stateful(resource.Resource):
        async def _do(self, request):
            rid = len(renders) + 1
            renders.append({"rid": rid, "t": loop.now, "len": state["len"], "failed": state["fail"]})
            sim.log("app", "invoke", rid, state["len"])
            if state["fail"]:
                raise RuntimeError("rendering fails")
            return Message(payload=rendering(rid, state["len"]))

        render_get = render_fetch = _do

    async def setup():
        site = resource.Site()
        site.add_resource(["st"], Stateful())
        return await sim.server(site, common.SERVER_IP)

    loop.run_until_complete(setup())
    srv = (common.SERVER_IP, 5683)
    answers = {}

    class C(ScriptedEndpoint):
        def handle(self, msg, src, data):
            if msg is not None and msg["code"] >= 64:
                answers.setdefault(msg["token"], msg)
                if msg["type"] == rc.CON:
                    self.send(src, msg={"type": rc.ACK, "code": 0, "mid": msg["mid"], "token": b"", "options": [], "payload": b""})

    c = C(sim, common.PEER_IPS[0], 5683)
    code = METHODS[st["method"]]
    body_ = b"q" if st["method"] == "FETCH" else b""

    def ask(j, b2, t):
        opts = [(rc.URI_PATH, b"st")] + ([(rc.BLOCK2, rc.block_bytes(b2, False, st["szx"]))] if b2 is not None else [])
        c.send(srv, msg={"type": rc.CON, "code": code, "mid": 0x7300 + j, "token": bytes([0xE0, j]), "options": opts, "payload": body_},
               fate=["at", t])

    def change():
        state["len"] = st["l2"]
        state["fail"] = st["second"] == "raise"
    ask(0, 0, 0.0)
    loop.at(st["gap"] / 2, change)
    ask(1, st["second_b2"], st["gap"])
    ask(2, st["k"], st["gap"] + 0.05)
    sim.run()
    sim.nontrivial = True
    sim.probe("representation_changes_between_block0_requests")
    size = 1 << (st["szx"] + 4)
    a = answers.get(bytes([0xE0, 2]))
    ident = dict(st, renders=[[x["rid"], x["len"], x["failed"]] for x in renders])
    if a is None:
        sim.violation("C06/request-not-answered", ident)
        return
    lo = st["k"] * size
    latest = renders[-1] if renders else None
    codestr = rc.code_str(a["code"])
    if len(renders) != 2:
        sim.violation("C06/handler-invocations", dict(ident, n=len(renders)))
    elif latest["failed"]:
        # the latest block-0 request produced no rendering at all
        if a["code"] not in (rc.REQUEST_ENTITY_INCOMPLETE, rc.BAD_REQUEST):
            sim.violation("C06/block2-slice-of-superseded-rendering", dict(ident, answered=codestr, payload=a["payload"][:24].hex()))
    elif lo >= latest["len"] and not (lo == 0 and latest["len"] == 0):
        if a["code"] not in (rc.BAD_REQUEST, rc.REQUEST_ENTITY_INCOMPLETE):
            sim.violation("C06/block2-slice-of-superseded-rendering" if a["code"] == rc.CONTENT else "C06/block2-beyond-end-not-400",
                          dict(ident, answered=codestr, payload=a["payload"][:24].hex()))
        else:
            sim.probe("block2_beyond_end")
    else:
        want = rendering(latest["rid"], latest["len"])[lo:lo + size]
        # (a rendering that fits one block is not kept by the server: 4.08 is what the statement allows then)
        kept = latest["len"] > (1124 if st["second_b2"] is None else size)  # (1124: the library's limit for one datagram)
        if a["code"] == rc.CONTENT:
            if a["payload"] != want:
                old = rendering(renders[0]["rid"], renders[0]["len"])[lo:lo + size]
                sim.violation("C06/block2-slice-of-superseded-rendering" if a["payload"] == old else "C06/block2-not-exact-slice",
                              dict(ident, answered=codestr, payload=a["payload"][:24].hex(), expected=want[:24].hex()))
            else:
                sim.probe("block2_slice")
        elif a["code"] == rc.REQUEST_ENTITY_INCOMPLETE and not kept:
            sim.probe("block2_without_rendering")
        else:
            sim.violation("C06/block2-not-exact-slice", dict(ident, answered=codestr))
    for (t, m, en, es) in sim.loop_exceptions():
        sim.anomaly("loop-exception:%s" % en, "%s %s" % (m, es))


def execute(sim, scn):
    if scn.get("concurrent"):
        return execute_concurrent(sim, scn)
    if scn.get("stale"):
        return execute_stale(sim, scn)
    if scn.get("overlap"):
        return execute_overlap(sim, scn)
    import aiocoap.resource as resource
    from aiocoap import Message

    loop = sim.loop
    invocations = []  # dict per invocation
    counter = [0]

    class Rec(resource.Resource):
        def __init__(self, path):
            super().__init__()
            self.path = path

        async def _do(self, request):
            counter[0] += 1
            rid = counter[0]
            q = dict((x.split("=", 1) + [""])[:2] for x in request.opt.uri_query)
            sa = getattr(request.remote, "sockaddr", None) or ("tcp:" + str(request.remote.hostinfo), 0)
            invocations.append({"t": loop.now, "rid": rid, "path": self.path, "method": int(request.code),
                                "client": (sa[0], sa[1]), "body": bytes(request.payload),
                                "query": sorted(request.opt.uri_query), "mid": request.mid})
            sim.log("app", "invoke", rid, self.path, int(request.code), len(request.payload))
            n = int(q.get("len", "8"))
            return Message(payload=rendering(rid, n))

        render_get = render_put = render_post = render_fetch = _do

    class Front(resource.Resource):
        """a resource that owns a Site and serves all its requests through it, doing the block-wise assembly itself (the
        way aiocoap-rd's StandaloneResourceDirectory is arranged)"""

        def __init__(self, inner):
            super().__init__()
            self.inner = inner

        async def needs_blockwise_assembly(self, request):
            return await self.inner.needs_blockwise_assembly(request)

        async def render(self, request):
            return await self.inner.render(request)

    async def setup():
        site = resource.Site()
        site.add_resource(["r0"], Rec("r0"))
        site.add_resource(["r1"], Rec("r1"))
        if scn.get("front"):
            sim.probe("assembly_in_front_of_a_site")
            site = Front(site)
        if scn.get("tcp"):
            import aiocoap
            from simkit.stream import SimStreamNet
            loop.streamnet = SimStreamNet(sim)
            ctx = await aiocoap.Context.create_server_context(site, bind=(common.SERVER_IP, 5683),
                                                              transports=["udp6", "tcpserver"], loggername="coap-server")
            sim.contexts.append(ctx)
            return ctx
        return await sim.server(site, common.SERVER_IP)

    loop.run_until_complete(setup())
    srv = (common.SERVER_IP, 5683)
    tcp_results = []

    async def tcp_download(j, spec):
        """A conforming RFC 8323 client (CSM with Max-Message-Size and Block-Wise-Transfer) downloads a rendering of
        `rlen` bytes; with SZX 7 (BERT) a message carries several KiB and block numbers count KiB."""
        import asyncio
        from simkit.stream import TcpPeer, split_frames
        waiters = {}

        def on_data(p, d):
            frames, _ = split_frames(p.rx)
            for (a, b, m, err) in frames:
                if m is not None and m["token"] in waiters and not waiters[m["token"]].done() and 64 <= m["code"] < 224:
                    waiters[m["token"]].set_result(m)
        peer = TcpPeer(sim, "tcp-dl#%d" % j, on_data=on_data)
        await peer.connect(common.SERVER_IP, 5683)
        peer.send({"code": rc.CSM, "token": b"", "payload": b"", "options": [(2, rc.uint_bytes(spec["mms"])), (4, b"")]})
        got, rids, k, szx = b"", set(), 0, spec["szx"]
        verdict = "never-ends"
        while k < 200:
            k += 1
            tok = bytes([0x7B, j & 0xFF, k])
            opts = [(rc.URI_PATH, b"r0"), (rc.URI_QUERY, b"k=tcp%d" % j), (rc.URI_QUERY, b"len=%d" % spec["rlen"])]
            if got or szx is not None:
                unit = 1024 if szx == 7 else size_of(szx)
                opts.append((rc.BLOCK2, rc.block_bytes(len(got) // unit, False, szx)))
            waiters[tok] = loop.create_future()
            peer.send({"code": rc.GET, "token": tok, "options": opts, "payload": b""})
            try:
                resp = await asyncio.wait_for(waiters[tok], 30)
            except asyncio.TimeoutError:
                verdict = "no-answer"
                break
            if resp["code"] != rc.CONTENT:
                verdict = "error " + rc.code_str(resp["code"])
                break
            b2 = rc.opt1(resp, rc.BLOCK2)
            if b2 is None:
                got += resp["payload"]
                verdict = "complete"
                break
            n, more, s_ = rc.block_value(b2)
            unit = 1024 if s_ == 7 else size_of(s_)
            if n * unit != len(got):
                verdict = "block number %d (unit %d) does not continue at %d" % (n, unit, len(got))
                break
            if s_ == 7:
                sim.probe("bert_block")
            got += resp["payload"]
            szx = s_
            if not more:
                verdict = "complete"
                break
        peer.close()
        tcp_results.append((j, spec, verdict, got))

    for j, spec in enumerate(scn.get("tcp") or []):
        loop.at(spec["t"], lambda j=j, spec=spec: loop.create_task(tcp_download(j, spec)))
    if scn.get("same_host"):
        # several client processes on one host: one IP address, different ports -- different endpoints
        clients = [Client(sim, common.PEER_IPS[0], 5683 + i) for i in range(scn["nclients"])]
        if len(clients) > 1:
            sim.probe("clients_share_a_host")
    else:
        clients = [Client(sim, common.PEER_IPS[i], 5683) for i in range(scn["nclients"])]
    for i, op in enumerate(scn["ops"]):
        cl = clients[op["c"]]
        opts = [(rc.URI_PATH, op["path"].encode())]
        if op["query"]:
            opts.append((rc.URI_QUERY, op["query"].encode()))
        opts.append((rc.URI_QUERY, b"len=%d" % op["rlen"]))
        if op["b2"] is not None:
            opts.append((rc.BLOCK2, rc.block_bytes(op["b2"][0], op["b2"][1], op["b2"][2])))
        if op["b1"] is not None:
            opts.append((rc.BLOCK1, rc.block_bytes(op["b1"][0], op["b1"][1], op["b1"][2])))
        if op.get("rtag"):
            opts.append((292, bytes.fromhex(op["rtag"])))
            sim.probe("request_tag")
        m = {"type": rc.CON, "code": METHODS[op["method"]], "mid": 0x2000 + i, "token": bytes([0xB0, i >> 8, i & 0xFF]),
             "options": opts, "payload": bytes.fromhex(op["payload"])}
        cl.send(srv, msg=m, fate=["at", op["t"]])

    # a horizon instead of quiescence: a state table that never expires must not turn into a hang of the check
    sim.run(horizon=(scn["ops"][-1]["t"] if scn["ops"] else 0) + 400.0)

    # ------------------------------------------------------------------ reference model
    spool = {}  # key -> {"data": bytes, "last": t, "finished": bool}
    cache = {}  # key -> {"latest": rid/len, "chunked": ..., "last": t}
    inv_i = 0
    keys_seen = set()
    prev_key = None

    def exists(entry, now):
        """lifetime rule: returns True / False / None (gray zone)"""
        if entry is None:
            return False
        idle = now - entry["last"]
        if idle < T - 1e-6:
            return True
        if idle > 2 * T + 1e-6:
            return False
        return None

    for i, op in enumerate(scn["ops"]):
        cl = clients[op["c"]]
        token = bytes([0xB0, i >> 8, i & 0xFF])
        now = op["t"]
        ident = {"op": i, "client": fmt(cl.addr), "method": op["method"], "path": op["path"], "query": op["query"],
                 "b1": op["b1"], "b2": op["b2"], "len": len(op["payload"]) // 2, "t": now}
        rs = cl.responses.get(token, [])
        # which handler invocations did this datagram cause?
        mine = [v for v in invocations if v["mid"] == 0x2000 + i and v["client"] == cl.addr]
        if len(rs) != 1:
            sim.violation("C06/not-exactly-one-response", dict(ident, n=len(rs)))
            return
        resp = rs[0][1]
        code = resp["code"]
        if (code >> 5) == 5:
            # classify the known way of producing a 5.xx
            sub = "gap-or-overlap" if (op["b1"] is not None and op["b1"][0] > 0) else "other"
            sim.violation("C06/server-error-%s" % sub, dict(ident, code=rc.code_str(code)))
            return
        key = (op["c"], op["method"], op["path"], op["query"], op["rlen"], op.get("rtag"))
        if prev_key is not None and key != prev_key and key in keys_seen:
            sim.probe("interleaved_keys")
        keys_seen.add(key)
        prev_key = key
        payload = bytes.fromhex(op["payload"])
        request_body = None  # body the handler must see, if it must run
        b1echo = None
        if op["b1"] is not None:
            num, more, szx = op["b1"]
            size = size_of(szx)
            ent = spool.get(key)
            if num == 0 and ((len(payload) != size) if more else (len(payload) > size)):
                # block 0 whose payload contradicts its own block size: refused like any other such block -- what it
                # carries is not "block 0", and nothing may be built on it
                sim.probe("wrong_payload_length_block0")
                if mine:
                    sim.violation("C06/handler-invoked-for-bad-block", ident)
                if code != rc.BAD_REQUEST:
                    sim.violation("C06/wrong-block-length-not-400", dict(ident, code=rc.code_str(code), block=0))
                if ent is not None:
                    ent["uncertain"] = True  # (whether an older assembly under this key survives is left open)
                continue
            if num == 0:
                if ent is not None:
                    sim.probe("restart_at_zero")
                spool[key] = ent = {"data": payload, "last": now, "finished": False}
                appended = True
            else:
                ex = exists(ent, now)
                wrong_len = (len(payload) != size) if more else (len(payload) > size)
                if ent is not None and ent.get("uncertain"):
                    ex = None
                if ex is None:
                    sim.probe("lifetime_gray_zone")
                    would_fit = (num * size == len(ent["data"])) and not wrong_len
                    if code in (rc.REQUEST_ENTITY_INCOMPLETE, rc.BAD_REQUEST) and not would_fit:
                        # the refusal is explained by the block itself: whether the state still exists stays open
                        ent["uncertain"] = True
                        if mine:
                            sim.violation("C06/handler-invoked-for-gap-or-overlap", ident)
                        continue
                    if code == rc.REQUEST_ENTITY_INCOMPLETE:
                        spool.pop(key, None)
                        ex = False
                    else:
                        ent.pop("uncertain", None)
                        ex = True
                if not ex:
                    if ent is not None:
                        sim.probe("expired_transfer")
                        spool.pop(key, None)
                    else:
                        sim.probe("unknown_transfer")
                    if mine:
                        sim.violation("C06/handler-invoked-without-assembly", ident)
                    if code != rc.REQUEST_ENTITY_INCOMPLETE and not (wrong_len and code == rc.BAD_REQUEST):
                        sim.violation("C06/unknown-or-expired-transfer-not-408", dict(ident, code=rc.code_str(code)))
                    continue
                ent["last"] = now
                offset = num * size
                fits = offset == len(ent["data"])
                if wrong_len:
                    sim.probe("wrong_payload_length")
                    if mine:
                        sim.violation("C06/handler-invoked-for-bad-block", ident)
                    ok = (code == rc.BAD_REQUEST) or (not fits and code == rc.REQUEST_ENTITY_INCOMPLETE)
                    if not ok:
                        sim.violation("C06/wrong-block-length-not-400", dict(ident, code=rc.code_str(code)))
                    continue
                if not fits:
                    sim.probe("gap_or_overlap")
                    if mine:
                        sim.violation("C06/handler-invoked-for-gap-or-overlap", ident)
                    if code != rc.REQUEST_ENTITY_INCOMPLETE:
                        sim.violation("C06/gap-or-overlap-not-408", dict(ident, code=rc.code_str(code)))
                    continue
                if ent["finished"]:
                    # extending an already delivered assembly: either refused (4.08) or continued
                    if code == rc.REQUEST_ENTITY_INCOMPLETE:
                        if mine:
                            sim.violation("C06/handler-invoked-without-assembly", ident)
                        continue
                ent["data"] += payload
                appended = True
            if more:
                sim.probe("continue_231")
                if mine:
                    sim.violation("C06/handler-invoked-before-final-block", dict(ident, body=len(mine[0]["body"])))
                if code != rc.CONTINUE:
                    sim.violation("C06/intermediate-block-not-231", dict(ident, code=rc.code_str(code)))
                else:
                    echo = rc.opt1(resp, rc.BLOCK1)
                    if echo is None or rc.block_value(echo) != (num, True, szx):
                        sim.violation("C06/231-does-not-echo-block-option", dict(
                            ident, echoed=list(rc.block_value(echo)) if echo is not None else None))
                continue
            # final block
            sim.probe("final_block_handler")
            ent["finished"] = True
            request_body = ent["data"]
            b1echo = (num, False, szx)
        # ---- a complete request: either a rendering or a Block2 continuation
        b2 = op["b2"]
        ckey = key
        if b2 is not None and b2[0] > 0 and op["b1"] is None:
            num, _, szx = b2
            size = size_of(szx)
            ent = cache.get(ckey)
            ex = exists(ent, now)
            if mine:
                sim.violation("C06/handler-invoked-for-later-block2", ident)
            if ex is None:
                sim.probe("lifetime_gray_zone")
                ex = code != rc.REQUEST_ENTITY_INCOMPLETE
                if not ex:
                    cache.pop(ckey, None)
            if not ex:
                sim.probe("block2_without_rendering")
                cache.pop(ckey, None)
                if code != rc.REQUEST_ENTITY_INCOMPLETE:
                    sim.violation("C06/block2-without-rendering-not-408", dict(ident, code=rc.code_str(code)))
                continue
            ent["last"] = now
            cands = [x for x in (ent.get("latest"), ent.get("chunked")) if x is not None]
            start = num * size
            verdicts = []
            for (rid, n) in cands:
                full = rendering(rid, n)
                if start >= n:
                    verdicts.append(code == rc.BAD_REQUEST)
                    continue
                sl = full[start:start + size]
                more = start + size < n
                o = rc.opt1(resp, rc.BLOCK2)
                verdicts.append(code == rc.CONTENT and resp["payload"] == sl and o is not None
                                and rc.block_value(o) == (num, more, szx))
            if any(start >= n for (rid, n) in cands):
                sim.probe("block2_beyond_end")
            else:
                sim.probe("block2_slice")
            if ent.get("latest") != ent.get("chunked") and code == rc.REQUEST_ENTITY_INCOMPLETE:
                # the latest rendering went out complete in a single response: no block-wise transfer is in
                # progress for it, refusing a later block with 4.08 is as good as slicing it
                verdicts.append(True)
            if not any(verdicts):
                beyond = all(start >= n for (rid, n) in cands)
                sim.violation("C06/block2-beyond-end-not-400" if beyond else "C06/block2-not-exact-slice",
                              dict(ident, code=rc.code_str(code), got=resp["payload"][:48].hex(),
                                   option=list(rc.block_value(rc.opt1(resp, rc.BLOCK2))) if rc.opt1(resp, rc.BLOCK2) else None,
                                   renderings=[list(c) for c in cands]))
            continue
        # handler must run exactly once, with the complete body
        if len(mine) != 1:
            sim.violation("C06/handler-invocation-count", dict(ident, n=len(mine)))
            continue
        inv = mine[0]
        expected_body = request_body if request_body is not None else payload
        if inv["body"] != expected_body:
            sim.violation("C06/handler-saw-wrong-body", dict(ident, got=len(inv["body"]), expected=len(expected_body),
                                                            got_head=inv["body"][:32].hex(), exp_head=expected_body[:32].hex()))
            continue
        rid, n = inv["rid"], op["rlen"]
        full = rendering(rid, n)
        exp_code = {"GET": rc.CONTENT, "FETCH": rc.CONTENT}.get(op["method"], rc.CHANGED)
        szx2 = b2[2] if b2 is not None else 6
        size2 = size_of(szx2)
        chunk = n > 1124 or (b2 is not None and n > size2)
        ent = cache.get(ckey) or {}
        ent["latest"] = (rid, n)
        ent["last"] = now
        if chunk:
            ent["chunked"] = (rid, n)
        cache[ckey] = ent
        o = rc.opt1(resp, rc.BLOCK2)
        if code != exp_code:
            sim.violation("C06/wrong-code-for-complete-request", dict(ident, code=rc.code_str(code)))
            continue
        if chunk:
            if resp["payload"] != full[:size2] or o is None or rc.block_value(o) != (0, n > size2, szx2):
                sim.violation("C06/block2-not-exact-slice", dict(ident, code=rc.code_str(code), got=resp["payload"][:48].hex(),
                                                                option=list(rc.block_value(o)) if o else None))
        else:
            if resp["payload"] != full:
                sim.violation("C06/response-body-mismatch", dict(ident, got=len(resp["payload"]), expected=n))
        if b1echo is not None:
            e1 = rc.opt1(resp, rc.BLOCK1)
            if e1 is None or rc.block_value(e1) != b1echo:
                sim.violation("C06/final-block1-not-echoed", dict(ident, echoed=list(rc.block_value(e1)) if e1 else None))
    # downloads over TCP: the body is one rendering, complete
    for (j, spec, verdict, got) in tcp_results:
        sim.nontrivial = True
        mine_tcp = [inv for inv in invocations if b"k=tcp%d" % j in [q.encode() if isinstance(q, str) else q for q in inv["query"]]]
        ok = verdict == "complete" and any(got == rendering(inv["rid"], spec["rlen"]) for inv in mine_tcp)
        if not ok:
            sim.violation("C06/tcp-download-not-the-rendering", {"download": j, "spec": spec, "verdict": verdict, "got": len(got),
                                                                 "renderings": len(mine_tcp)})
        else:
            sim.probe("tcp_download_ok")
    # any invocation not attributed to an op's datagram?
    for (t, m, en, es) in sim.loop_exceptions():
        sim.anomaly("loop-exception:%s" % en, "%s %s" % (m, es))
    sim.nontrivial = any(sim.probes.get(k) for k in ("gap_or_overlap", "unknown_transfer", "expired_transfer",
                                                     "wrong_payload_length", "interleaved_keys", "restart_at_zero",
                                                     "block2_beyond_end", "block2_without_rendering", "lifetime_gray_zone"))
