"""C20 -- resource directory: look-ups reflect exactly the live registrations.

System: the real `StandaloneResourceDirectory` of aiocoap/cli/rd.py (built the
way `aiocoap-rd`'s Main does, without argparse) behind a real server context on
the simulated UDP net; 1-3 real client contexts issue registrations,
re-registrations, updates (POST/PUT), removals, endpoint/resource look-ups with
filters and pagination and GETs of registration resources, one after the other
in virtual time, with sleeps that cross `lt + grace` boundaries at +-epsilon.

Oracle: an executable registry model that is driven by the *response codes the
server gave* (2.xx: the write counts, 4.xx: nothing may change) and by the
instant the request reached the server (taken from the simulated wire, as is
the server's answer when the network lost it).
"""

from simkit import faults
from . import common
from .appkit import (LINKFORMAT, Driver, LinkFormatError, attrs_key, lf_parse, lf_write, ms_list, ms_sub, multiset,
                     wire_location)

PROPERTY = "C20"
LEVEL = "exploration"
RUNS = {"quick": 3000, "thorough": 60000}
BUDGET = {"quick": 80, "thorough": 3000}
RULE = ("seeded histories of 6-40 sequential operations by 1-3 real clients against the real "
        "StandaloneResourceDirectory: register / re-register (ep from 3 names, d from 3 sectors, lt valid, "
        "invalid, zero, negative, huge; base explicit or inferred; extra, unknown, valueless and forbidden "
        "keys; link-format bodies, broken bodies, wrong content formats; primary path and /rd alias), update by "
        "POST and PUT, DELETE, GET of registration resources (also stale, slash-less and unknown locations), "
        "endpoint and resource look-ups (no filter, ep=, d=, rt=, href=, endpoint attributes, page/count, page "
        "sweeps; richer and malformed filters checked for subset/no-5.xx only), sleeps and 'arrive at expiry "
        "+- 1 us / exactly at expiry' steps; ~55 % of runs fault-free, the rest with light loss / duplication / "
        "delay. Non-trivial = a network fault fired or an expiry boundary was approached within 1 ms or a write "
        "was answered 4.xx while the registration was live; distinct = distinct (event class, link, fate) "
        "sequence hash.")
COMPONENTS_REAL = ["aiocoap.cli.rd (StandaloneResourceDirectory, CommonRD, Registration, look-up interfaces)",
                   "aiocoap.util.linkformat", "aiocoap.util.vendored.link_header", "aiocoap.resource",
                   "aiocoap.protocol", "aiocoap.messagemanager", "aiocoap.tokenmanager", "aiocoap.blockwise",
                   "aiocoap.transports.udp6", "aiocoap.message", "real client contexts"]
COMPONENTS_STUB = ["UDP socket (SimSocket)", "name resolution", "event loop clock (virtual)",
                   "module random of messagemanager/tokenmanager"]
ASSUMPTIONS = ["the grace period is the documented 15 s (Registration.grace_period); lifetime default 90000 s",
               "a request takes effect at the virtual instant its first copy reaches the server socket "
               "(handlers of the RD never wait); message-layer de-duplication absorbs later copies "
               "(injected delays stay far below EXCHANGE_LIFETIME)",
               "an inferred base is the registrant's source address written as coap://[ip]:port",
               "time comparisons use a tolerance of 1e-9 s; at an exact tie both outcomes are accepted",
               "URI reference resolution (urllib.parse.urljoin) is shared with the code under test",
               "simple registration (POST /.well-known/rd) runs as a workload of its own (8 % of the runs) with a "
               "set-level oracle (listed endpoints, distinct answering locations, removal by location); the proxy "
               "extension is not exercised"]
EXPECTED_PROBES = ["reg_created", "rereg", "rereg_4xx_live", "update_ok", "update_4xx_live", "delete_ok",
                   "expired_seen", "boundary_pre_eps", "boundary_post_eps", "boundary_tie", "lookup_strict",
                   "lookup_paged", "sweep", "lookup_rich", "resp_from_wire", "blockwise_lookup", "stale_location_404",
                   "simple_registration", "registration_during_simple_registration_fetch", "wall_clock_step"]

GRACE = 15
MAX_BODY = 900
DEFAULT_LT = 90000
TOL = common.TOL
LAT = faults.LAT
RD_PATH = ("resourcedirectory", "")
ALIAS_PATH = ("rd",)
EP_LOOKUP = ("endpoint-lookup", "")
RES_LOOKUP = ("resource-lookup", "")

EPS_NAMES = ["a", "b", "node-3"]
SECTORS = [None, None, "x", "y"]
VALID_LTS = [None, None, 1, 2, 30, 60, 60, 61, 120, 600, 3600, 0, -20, 4294967295]
BAD_LTS = ["abc", "", "1.5", "60s"]
EXTRAS = ["et=oic.d.sensor", "et=tag:x", "foo=bar", "foo=baz", "v=1", "v=2", "obs", "x-unk=1", "foo=bar baz"]
FORBIDDEN = ["rt=x", "href=/x", "page=1", "count=2", "anchor=/a"]
BASES = ["coap://[2001:db8::1]:99", "coap://h.example", "coap://h.example/pre/", "coaps://h2.example:1234"]
BAD_BASES = ["coap://[", "coap://[::1", "http://[fe80::1%25eth0"]
BAD_REFS = ["//[", "coap://[::1/x", "//[/s"]  # link targets / anchors that are no URI references (nothing resolves them)
HREFS = ["/s/t", "/s/h", "/s/t?x=1", "s/u", "/a", "/a/", ""]
RTS = ["temp", "hum", "temp x", "core.s", "x"]
IFS = ["core.s", "core.a core.s", "sensor"]


# ------------------------------------------------------------------ generation


def gen_links(r, allow_empty=True):
    n = r.choice([0, 1, 1, 2, 2, 3, 4]) if allow_empty else r.choice([1, 2, 3])
    links = []
    for _ in range(n):
        attrs = []
        if r.chance(0.7):
            attrs.append(["rt", r.choice(RTS)])
        if r.chance(0.3):
            attrs.append(["if", r.choice(IFS)])
        if r.chance(0.3):
            attrs.append(["ct", r.choice(["0", "40", "0 41"])])
        if r.chance(0.15):
            attrs.append(["obs", None])
        if r.chance(0.1):
            attrs.append(["title", r.choice(["Room 1", "a,b;c", "x=y"])])
        elif r.chance(0.06):
            attrs.append(["title", "long " + "t" * r.choice([150, 280])])  # makes look-up answers block-wise
        if r.chance(0.12):
            # a link about something else: explicit anchor, possibly a foreign target
            attrs.append(["rel", "alt"])
            attrs.append(["anchor", r.choice(["/s/t", "/a", "coap://[2001:db8::7]/z"])])
            href = r.choice(["http://www.example.org/y", "/s/alt", "coap://[2001:db8::5]/abs"])
        else:
            href = r.choice(HREFS)
        links.append([href, attrs])
    while len(lf_write(links).encode("utf-8")) > MAX_BODY:
        links.pop()  # request bodies stay in one datagram: the write then happens at one known instant
    return links


def gen_reg_query(r, ep, d):
    """Returns (query list, well-formed?)."""
    q = []
    valid = True
    x = r.random()
    if x < 0.04:
        pass  # ep missing
        valid = False
    elif x < 0.07:
        q += ["ep=" + ep, "ep=" + r.choice(EPS_NAMES)]
        valid = False
    else:
        q.append("ep=" + ep)
    if d is not None:
        q.append("d=" + d)
    x = r.random()
    if x < 0.13:
        q.append("lt=" + r.choice(BAD_LTS))
        valid = False
    elif x < 0.16:
        q += ["lt=60", "lt=120"]
        valid = False
    else:
        lt = r.choice(VALID_LTS)
        if lt is not None:
            q.append("lt=%d" % lt)
    x = r.random()
    if x < 0.02:
        # a base that is no URI reference at all: whether the directory refuses it (4.00) or files it, everybody else's
        # look-ups must go on working
        q.append("base=" + r.choice(BAD_BASES))
        valid = False
    elif x < 0.3:
        q.append("base=" + r.choice(BASES))
    elif x < 0.33:
        q += ["base=" + BASES[0], "base=" + BASES[1]]
        valid = False
    for _ in range(r.choice([0, 0, 1, 1, 2])):
        q.append(r.choice(EXTRAS))
    if r.chance(0.06):
        q.append(r.choice(FORBIDDEN))
        valid = False
    if r.chance(0.03):
        q.append("proxy=" + r.choice(["yes", "bogus"]))
        valid = False
    if r.chance(0.015):
        # a parameter that needs a value, without one (the directory answers 5.00: counted as an anomaly, the
        # statement only speaks about 4.xx answers)
        q = [s for s in q if not s.startswith(("lt=", "base="))] + [r.choice(["lt", "base"])]
        valid = False
    if r.chance(0.3):
        r.shuffle(q)
    return q, valid


def gen_loc(r, slots):
    x = r.random()
    ep, d = r.choice(slots)
    if x < 0.86:
        return ["key", ep, d]
    if x < 0.92:
        return ["key-noslash", ep, d]
    return ["path"] + r.choice([["reg", "7", ""], ["reg", "1"], ["reg"], ["reg", "1", "", ""], ["reg", "x", ""]])


def gen_strict_filter(r, slots, nclients):
    q = []
    x = r.random()
    if x < 0.3:
        pass
    elif x < 0.45:
        q.append("ep=" + r.choice(EPS_NAMES + ["zz"]))
    elif x < 0.55:
        q.append("d=" + r.choice(["x", "y", "q"]))
    elif x < 0.62:
        ep, d = r.choice(slots)
        q.append("ep=" + ep)
        if d is not None:
            q.append("d=" + d)
    elif x < 0.75:
        q.append("rt=" + r.choice(["temp", "hum", "x", "core.s", "nope"]))
    elif x < 0.85:
        base = r.choice(["$C%d" % r.randrange(nclients), BASES[0], BASES[1], "coap://h.example/pre"])
        q.append("href=" + base + r.choice(["/s/t", "/s/h", "/a", "/s/u", "/pre/s/u"]))
    elif x < 0.9:
        ep, d = r.choice(slots)
        q.append("href=$L:%s:%s" % (ep, "" if d is None else d))
    else:
        q.append(r.choice(["et=oic.d.sensor", "et=tag:x", "v=1", "v=2", "x-unk=1"]))
    x = r.random()
    if x < 0.15:
        q.append("count=%d" % r.choice([0, 1, 2, 3, 10]))
    elif x < 0.3:
        c = r.choice([1, 1, 2, 3])
        q += ["page=%d" % r.choice([0, 1, 1, 2, 5]), "count=%d" % c]
        if r.chance(0.3):
            q.reverse()
    return q


RICH = [["rt=te*"], ["rt=*"], ["if=core.*"], ["ep=a*"], ["ep=*"], ["href=/reg/*"], ["href=$C0/*"], ["href=coap*"],
        ["anchor=$C0/s/t"], ["anchor=coap*"], ["obs"], ["title=Room*"], ["ep=a", "ep=b"], ["zz=1"], ["rel=alt"],
        ["rt=temp", "if=core.s"], ["ep=a", "rt=temp"], ["d=x", "et=oic*"], ["base=coap*"], ["lt=60"],
        ["rt=core.rd-ep"], ["rt=temp", "count=1"], ["ep=node*", "page=0", "count=2"], ["foo=bar*"], ["v=*"],
        ["obs=x*"], ["obs=*"], ["title=*"], ["ct=4*"], ["rt"], ["ep"], ["foo=bar"], ["foo=baz"], ["ct=40"], ["ct=0"],
        ["if=core.s"], ["if=sensor", "rt=temp"], ["foo=bar baz"]]
MALFORMED = [["page=1"], ["count=abc"], ["page=x", "count=2"], ["page=-1", "count=2"], ["count=-1"],
             ["page=0", "page=1", "count=1"], ["count=1", "count=2"], ["page=1", "count="], ["page", "count=2"],
             ["count"], ["page=1.5", "count=2"]]


def gen(r, tier):
    if r.chance(0.08):
        return gen_simple(r)
    return gen_main(r, tier)


def gen_main(r, tier):
    nclients = r.choice([1, 2, 2, 3])
    nslots = r.choice([1, 2, 3, 4])
    slots = []
    while len(slots) < nslots:
        s = [r.choice(EPS_NAMES), r.choice(SECTORS)]
        if s not in slots:
            slots.append(s)
    nops = r.randint(6, 40)
    ops = []
    short_lts = r.chance(0.5)
    for i in range(nops):
        c = r.randrange(nclients)
        x = r.random()
        if x < 0.24 or i == 0:
            ep, d = r.choice(slots)
            q, valid = gen_reg_query(r, ep, d)
            if short_lts and valid and r.chance(0.6):
                q = [s for s in q if not s.startswith("lt=")] + ["lt=%d" % r.choice([1, 30, 60, 61, 120])]
            op = {"op": "reg", "c": c, "q": q, "links": gen_links(r), "cf": LINKFORMAT, "valid": valid}
            y = r.random()
            if y < 0.04:
                op["cf"] = r.choice([None, 0, 50])
                op["valid"] = False
            elif y < 0.08:
                op["raw"] = r.choice([b"<abc".hex(), b"</a>;rt=\xff\xfe".hex(), b"</a> junk".hex(), b"</a>,,".hex()])
                op["valid"] = False
            if r.chance(0.07):
                op["alias"] = True
            ops.append(op)
        elif x < 0.36:
            q = []
            valid = True
            y = r.random()
            if y < 0.45:
                q.append("lt=%d" % r.choice([v for v in VALID_LTS if v is not None]))
            elif y < 0.55:
                q.append("lt=" + r.choice(BAD_LTS))
                valid = False
            elif y < 0.58:
                q += ["lt=30", "lt=3600"]
                valid = False
            if r.chance(0.2):
                q.append("base=" + r.choice(BASES))
            for _ in range(r.choice([0, 0, 1, 2])):
                q.append(r.choice(EXTRAS))
            if r.chance(0.05):
                q.append(r.choice(["ep=" + r.choice(EPS_NAMES), "d=x"] + FORBIDDEN))
                valid = False
            op = {"op": "upd", "m": "post", "c": c, "loc": gen_loc(r, slots), "q": q, "valid": valid}
            if r.chance(0.22):
                # "update with body": RFC 9176 does not define it, the RD answers 4.00
                op["links"] = gen_links(r)
                op["cf"] = r.choice([LINKFORMAT, LINKFORMAT, None])
                op["valid"] = False
                if op["cf"] is None and not op["links"]:
                    op["cf"] = LINKFORMAT
            ops.append(op)
        elif x < 0.43:
            q = []
            valid = True
            if r.chance(0.4):
                q.append("lt=%d" % r.choice([v for v in VALID_LTS if v is not None]))
            if r.chance(0.1):
                q.append("lt=" + r.choice(BAD_LTS))
                valid = False
            if r.chance(0.15):
                q.append("base=" + r.choice(BASES))
            if r.chance(0.3):
                q.append(r.choice(EXTRAS))
            op = {"op": "upd", "m": "put", "c": c, "loc": gen_loc(r, slots), "q": q, "links": gen_links(r),
                  "cf": LINKFORMAT, "valid": valid}
            y = r.random()
            if y < 0.08:
                op["cf"] = r.choice([None, 0])
                op["valid"] = False
            elif y < 0.14:
                op["raw"] = b"<abc".hex()
                op["valid"] = False
            ops.append(op)
        elif x < 0.5:
            ops.append({"op": "del", "c": c, "loc": gen_loc(r, slots)})
        elif x < 0.55:
            ops.append({"op": "get", "c": c, "loc": gen_loc(r, slots)})
        elif x < 0.73:
            kind = r.choice(["ep", "ep", "res"])
            y = r.random()
            if y < 0.72:
                ops.append({"op": "look", "c": c, "kind": kind, "mode": "strict",
                            "q": gen_strict_filter(r, slots, nclients)})
            elif y < 0.93:
                ops.append({"op": "look", "c": c, "kind": kind, "mode": "rich", "q": list(r.choice(RICH))})
            else:
                ops.append({"op": "look", "c": c, "kind": kind, "mode": "malformed", "q": list(r.choice(MALFORMED))})
        elif x < 0.76:
            q = [s for s in gen_strict_filter(r, slots, nclients) if not s.startswith(("page=", "count="))]
            ops.append({"op": "sweep", "c": c, "kind": r.choice(["ep", "res"]), "q": q, "count": r.choice([1, 2, 3])})
        elif x < 0.87:
            ops.append({"op": "sleep", "dt": r.choice([0.5, 5, 14, 15.5, 16, 31, 45, 60, 76, 100, 140, 700, 4000,
                                                       90016, round(r.uniform(0, 150), 3)])})
        else:
            ep, d = r.choice(slots)
            ops.append({"op": "until", "key": [ep, d], "which": r.choice(["model", "model", "alt"]),
                        "off": r.choice([-1e-6, 1e-6, 0.0, -1e-6, 1e-6, -0.5, 0.5, -14.0, 20.0])})
            # the step only matters if something is observed right afterwards
            kind = r.choice(["ep", "res", "ep", "get"])
            if kind == "get":
                ops.append({"op": "get", "c": c, "loc": ["key", ep, d]})
            else:
                ops.append({"op": "look", "c": c, "kind": kind, "mode": "strict", "q": []})
    if r.chance(0.2):
        # the directory host's wall clock is stepped now and then (NTP, an operator, a resumed VM): lifetimes are about
        # elapsed time
        for _ in range(r.randint(1, 3)):
            ops.insert(r.randint(0, len(ops)), {"op": "jump", "by": r.choice([-86400.0, -3600.0, -100.0, 100.0, 3600.0, 86400.0])})
    if r.chance(0.12):
        # verbose registrants: look-up answers outgrow one datagram and are fetched block-wise
        for op in ops:
            for link in op.get("links") or []:
                if not any(k == "title" for k, _ in link[1]):
                    link[1].append(["title", "long " + "t" * r.choice([150, 280])])
            while op.get("links") and len(lf_write(op["links"]).encode("utf-8")) > MAX_BODY:
                op["links"].pop()
    if r.chance(0.04):
        # a link whose target (or anchor) is no URI reference at all: refused or filed, everybody's look-ups go on working
        cand = [op for op in ops if op.get("links") and op["op"] in ("reg", "upd") and "raw" not in op]
        if cand:
            op = r.choice(cand)
            link = r.choice(op["links"])
            if r.chance(0.7):
                link[0] = r.choice(BAD_REFS)
            else:
                link[1] = [a for a in link[1] if a[0] != "anchor"] + [["anchor", r.choice(BAD_REFS)]]
            op["valid"] = False
    if r.chance(0.05):
        # a registrant with very many resources (an aggregating gateway): hundreds of links in one registration or update
        cand = [op for op in ops if op.get("links") is not None and op["op"] in ("reg", "upd") and "raw" not in op]
        for op in (r.sample(cand, min(len(cand), r.choice([1, 1, 2]))) if cand else []):
            # (at most 450: the body travels in one datagram, of which the library reads at most 4096 bytes)
            op["links"] = [["/k%d" % i, []] for i in range(r.choice([200, 255, 256, 257, 300, 450]))]
    net = faults.swarm(r, kinds=("drop", "dup", "delay"), fault_free=0.55, heavy=0.05)
    if net.get("delay_max", 0) > 3.0:
        net["delay_max"] = 3.0
    return {"clients": nclients, "ops": ops, "net": net}


def _reg(c, q, links=None, **kw):
    d = {"op": "reg", "c": c, "q": q, "links": links if links is not None else [["/s/t", [["rt", "temp"]]]],
         "cf": LINKFORMAT, "valid": True}
    d.update(kw)
    return d


def _look(kind="ep", q=(), c=0, mode="strict"):
    return {"op": "look", "c": c, "kind": kind, "mode": mode, "q": list(q)}


def corpus():
    L2 = [["/s/t", [["rt", "temp"]]], ["/s/h", [["rt", "hum"], ["if", "core.s"]]]]
    out = []
    # a step of the wall clock while a registration is alive changes nothing about when it expires
    for by in (-3600.0, 3600.0):
        out.append({"clients": 1, "net": {}, "ops": [
            _reg(0, ["ep=a", "lt=600"]), {"op": "sleep", "dt": 100}, {"op": "jump", "by": by}, {"op": "sleep", "dt": 100}, _look("ep"),
            {"op": "upd", "m": "post", "c": 0, "loc": ["key", "a", None], "q": [], "valid": True},
            {"op": "until", "key": ["a", None], "which": "model", "off": -1e-6}, _look("ep"),
            {"op": "until", "key": ["a", None], "which": "model", "off": 1e-6}, _look("ep")]})
    # boundaries of lt + grace, and the restart of the lifetime by an update
    for off in (-1e-6, 0.0, 1e-6):
        out.append({"clients": 1, "net": {}, "ops": [
            _reg(0, ["ep=a", "lt=60"]), _look("ep"), {"op": "until", "key": ["a", None], "which": "model", "off": off},
            _look("ep"), {"op": "until", "key": ["a", None], "which": "model", "off": off}, _look("res"),
            {"op": "until", "key": ["a", None], "which": "model", "off": off}, {"op": "get", "c": 0, "loc": ["key", "a", None]}]})
        out.append({"clients": 2, "net": {}, "ops": [
            _reg(0, ["ep=a", "lt=60"]), {"op": "sleep", "dt": 50},
            {"op": "upd", "m": "post", "c": 1, "loc": ["key", "a", None], "q": [], "valid": True},
            {"op": "sleep", "dt": 40}, _look("ep"), _look("res"),
            {"op": "until", "key": ["a", None], "which": "model", "off": off}, _look("ep")]})
        out.append({"clients": 1, "net": {}, "ops": [
            _reg(0, ["ep=a", "lt=3600"]), {"op": "sleep", "dt": 5},
            {"op": "upd", "m": "put", "c": 0, "loc": ["key", "a", None], "q": ["lt=30"], "links": L2,
             "cf": LINKFORMAT, "valid": True},
            {"op": "until", "key": ["a", None], "which": "model", "off": off}, _look("res"), _look("ep")]})
    # re-registration keeps the location, distinct registrations get distinct ones, removal
    out.append({"clients": 2, "net": {}, "ops": [
        _reg(0, ["ep=a", "lt=600", "foo=bar"]), _reg(1, ["ep=b", "d=x", "base=coap://h.example/pre/"], L2),
        _reg(0, ["ep=a", "d=x"]), _look("ep"), _look("res"), _reg(1, ["ep=a", "lt=120", "v=1"], L2), _look("ep"),
        _look("res", ["ep=a"]), _look("res", ["rt=hum"]), _look("ep", ["d=x"]),
        {"op": "del", "c": 1, "loc": ["key", "b", "x"]}, _look("ep"), _look("res"),
        {"op": "get", "c": 0, "loc": ["key", "b", "x"]}, _reg(0, ["ep=b", "d=x"]), _look("ep"),
        {"op": "sweep", "c": 0, "kind": "ep", "q": [], "count": 2},
        {"op": "sweep", "c": 0, "kind": "res", "q": [], "count": 1}]})
    # pagination over five registrations
    ops = [_reg(i % 2, ["ep=%s" % e] + (["d=%s" % d] if d else []), L2)
           for i, (e, d) in enumerate([("a", None), ("b", None), ("node-3", None), ("a", "x"), ("b", "y")])]
    for cnt in (1, 2, 3):
        ops.append({"op": "sweep", "c": 0, "kind": "ep", "q": [], "count": cnt})
        ops.append({"op": "sweep", "c": 0, "kind": "res", "q": [], "count": cnt})
    ops += [_look("ep", ["page=1", "count=2"]), _look("res", ["page=2", "count=3"]), _look("ep", ["count=4"]),
            _look("ep", ["page=1"], mode="malformed"), _look("res", ["obs=x*"], mode="rich")]
    out.append({"clients": 2, "net": {}, "ops": ops})
    # several criteria in one query; criteria together with page/count; valueless attributes
    out.append({"clients": 1, "net": {}, "ops": [
        _reg(0, ["ep=a"], L2), _reg(0, ["ep=a", "d=x"], [["/s/t", [["rt", "temp"], ["obs", None]]]]),
        _reg(0, ["ep=b", "d=x", "obs"], L2),
        _look("ep", ["ep=a", "d=x"]), _look("ep", ["d=x", "ep=a"]), _look("res", ["ep=a", "rt=hum"]),
        _look("res", ["rt=hum", "ep=b"]), _look("ep", ["ep=a", "count=5"]), _look("ep", ["count=5", "ep=a"]),
        _look("res", ["d=x", "page=0", "count=5"]), {"op": "sweep", "c": 0, "kind": "ep", "q": ["d=x"], "count": 1},
        {"op": "sweep", "c": 0, "kind": "res", "q": ["rt=temp"], "count": 2},
        _look("res", ["obs=*"], mode="rich"), _look("ep", ["obs=x*"], mode="rich"), _look("ep", ["rt=te*"], mode="rich"),
        _look("res", ["obs"], mode="rich")]})
    # requests answered 4.xx must not change anything
    for badq in (["ep=a", "lt=abc"], ["ep=a", "lt=60", "lt=61"], ["ep=a", "rt=x"], ["ep=a", "base=coap://x", "base=coap://y"],
                 ["ep=a", "ep=b"], ["ep=a", "proxy=yes"]):
        out.append({"clients": 1, "net": {}, "ops": [
            _reg(0, ["ep=a", "lt=600"]), _reg(0, badq, valid=False), _look("ep"), _look("res"),
            {"op": "get", "c": 0, "loc": ["key", "a", None]}]})
    out.append({"clients": 1, "net": {}, "ops": [
        _reg(0, ["ep=a", "lt=600"]), _reg(0, ["ep=a", "lt=60"], cf=0, valid=False),
        _reg(0, ["ep=a", "lt=60"], raw=b"<abc".hex(), valid=False), _look("ep"), _look("res")]})
    for q in (["lt=3600"], ["lt=1"], []):
        out.append({"clients": 1, "net": {}, "ops": [
            _reg(0, ["ep=a", "lt=60"]), {"op": "sleep", "dt": 30},
            {"op": "upd", "m": "post", "c": 0, "loc": ["key", "a", None], "q": q, "links": L2, "cf": LINKFORMAT,
             "valid": False},
            _look("ep"), {"op": "sleep", "dt": 20}, _look("ep"),
            {"op": "until", "key": ["a", None], "which": "model", "off": 1e-6}, _look("ep"), _look("res")]})
    out.append({"clients": 1, "net": {}, "ops": [
        _reg(0, ["ep=a", "lt=600", "foo=bar"]),
        {"op": "upd", "m": "post", "c": 0, "loc": ["key", "a", None], "q": ["foo=baz", "base=coap://h.example"],
         "links": L2, "cf": LINKFORMAT, "valid": False},
        _look("ep"), _look("res")]})
    for q in (["lt=abc"], ["ep=b"], ["lt=30", "lt=31"], ["page=1"]):
        out.append({"clients": 1, "net": {}, "ops": [
            _reg(0, ["ep=a", "lt=60", "foo=bar"]), {"op": "sleep", "dt": 30},
            {"op": "upd", "m": "post", "c": 0, "loc": ["key", "a", None], "q": q + ["foo=baz"], "valid": False},
            {"op": "upd", "m": "put", "c": 0, "loc": ["key", "a", None], "q": q, "links": L2, "cf": LINKFORMAT,
             "valid": False},
            {"op": "upd", "m": "put", "c": 0, "loc": ["key", "a", None], "q": ["lt=3600"], "links": L2, "cf": None,
             "valid": False},
            _look("ep"), {"op": "until", "key": ["a", None], "which": "model", "off": 1e-6}, _look("ep")]})
    return out


def shrink(scn):
    if any((scn.get("net") or {}).get(k) for k in ("p_drop", "p_dup", "p_delay")):
        c = dict(scn)
        c["net"] = {}
        yield c
    if scn.get("clients", 1) > 1:
        c = dict(scn)
        c["clients"] = 1
        c["ops"] = [dict(o, c=0) if "c" in o else o for o in scn["ops"]]
        yield c
    for i, o in enumerate(scn["ops"]):
        if o.get("links"):
            c = dict(scn)
            c["ops"] = scn["ops"][:i] + [dict(o, links=o["links"][:-1])] + scn["ops"][i + 1:]
            yield c
        q = o.get("q") or []
        for j in range(len(q)):
            if o["op"] == "reg" and q[j].startswith("ep=") and sum(1 for s in q if s.startswith("ep=")) == 1:
                continue
            c = dict(scn)
            c["ops"] = scn["ops"][:i] + [dict(o, q=q[:j] + q[j + 1:])] + scn["ops"][i + 1:]
            yield c
        if o.get("alias"):
            c = dict(scn)
            c["ops"] = scn["ops"][:i] + [dict(o, alias=False)] + scn["ops"][i + 1:]
            yield c


# ------------------------------------------------------------------ model


def split_q(q):
    out = []
    for s in q:
        k, sep, v = s.partition("=")
        out.append((k, v if sep else None))
    return out


def plain_int(s):
    if s is None:
        return None
    t = s[1:] if s[:1] == "-" else s
    if not t or not t.isdigit() or not t.isascii():
        return None
    return int(s)


class Reg:
    def __init__(self, key, loc):
        self.key = key
        self.loc = loc
        self.links = []
        self.params = {}
        self.base = None
        self.base_explicit = False
        self.lt = DEFAULT_LT
        self.t_write = 0.0
        self.deleted = False
        self.alts = []  # states that updates answered 4.xx would have left behind, had (some of) them been applied
        self.alt_deleted = None  # index of a failed re-registration after which the entry may be gone

    @property
    def href(self):
        return "/" + "/".join(self.loc)

    def expiry(self):
        return self.t_write + (self.lt + GRACE)

    def status(self, t, alt=None):
        if self.deleted:
            return "dead"
        e = (alt["t_write"] + (alt["lt"] + GRACE)) if alt else self.expiry()
        if abs(t - e) <= TOL:
            return "tie"
        return "live" if t < e else "dead"

    def ep_attrs(self, alt=None):
        src = alt if alt else {"params": self.params, "base": self.base}
        a = [("ep", self.key[0])]
        if self.key[1] is not None:
            a.append(("d", self.key[1]))
        for k, vs in src["params"].items():
            for v in vs:
                a.append((k, v))
        a.append(("base", src["base"]))
        return a

    def snapshot(self):
        return {"lt": self.lt, "t_write": self.t_write, "params": {k: list(v) for k, v in self.params.items()},
                "base": self.base, "base_explicit": self.base_explicit}

    def describe(self):
        return {"ep": self.key[0], "d": self.key[1], "location": self.href, "lt": self.lt, "t_write": self.t_write,
                "expiry": None if self.deleted else self.expiry(), "deleted": self.deleted}


def apply_update(state, pairs, source_base, t):
    """RFC 9176 section 5.3.1 on a dict with lt/t_write/params/base/base_explicit."""
    lts = [v for k, v in pairs if k == "lt"]
    bases = [v for k, v in pairs if k == "base"]
    if len(lts) == 1 and plain_int(lts[0]) is not None:
        state["lt"] = plain_int(lts[0])
    if len(bases) == 1 and bases[0] is not None:
        state["base"] = bases[0]
        state["base_explicit"] = True
    elif not state["base_explicit"]:
        state["base"] = source_base
    extra = {}
    for k, v in pairs:
        if k not in ("lt", "base", "ep", "d"):
            extra.setdefault(k, []).append(v)
    state["params"].update(extra)
    state["t_write"] = t


# ------------------------------------------------------------------ execution


class Stop(Exception):
    pass


def execute_simple(sim, scn):
    """Simple registration (RFC 9176 section 5.1): the registrant POSTs to /.well-known/rd, the directory fetches the
    registrant's /.well-known/core (here: slowly) and registers what it finds.  While that fetch is under way the
    directory goes on serving others.  Afterwards: the look-up lists exactly the live endpoints, every one at a
    location of its own that answers, and removing one location removes exactly that endpoint."""
    import asyncio
    import aiocoap
    import aiocoap.resource as resource
    from aiocoap import GET, POST, DELETE, Message
    from aiocoap.cli.rd import StandaloneResourceDirectory

    loop = sim.loop
    sim.nontrivial = True
    delays = {}

    class SlowWKC(resource.Resource):
        def __init__(self, name):
            super().__init__()
            self.name = name

        async def render_get(self, request):
            sim.log("app", "wkc-fetch", self.name)
            await asyncio.sleep(delays.get(self.name, 0.0))
            return Message(payload=("</s/%s>;rt=\"simple\"" % self.name).encode(), content_format=40)

    async def setup():
        ctx = await sim.server(None, common.SERVER_IP)
        ctx.serversite = StandaloneResourceDirectory(context=ctx)
        regs_ = []
        for i in range(3):
            site = resource.Site()
            site.add_resource([".well-known", "core"], SlowWKC("n%d" % i))
            regs_.append(await sim.server(site, "fd00::%x" % (0x30 + i), loggername="coap"))
        return ctx, regs_

    rd, nodes = loop.run_until_complete(setup())
    viol = []

    async def req(node, code, path, query=()):
        msg = Message(code=code, uri="coap://[%s]/" % common.SERVER_IP)
        msg.opt.uri_path = tuple(path)
        msg.opt.uri_query = tuple(query)
        try:
            return await asyncio.wait_for(nodes[node].request(msg).response, 300)
        except Exception as e:
            return e

    def code_of(r):
        return None if isinstance(r, Exception) else (int(r.code) >> 5, int(r.code) & 31)

    async def lookup():
        r = await req(2, GET, ("endpoint-lookup", ""))
        if code_of(r) != (2, 5):
            return None
        try:
            return lf_parse(r.payload.decode("utf-8"))
        except (LinkFormatError, UnicodeDecodeError):
            return None

    live = {}  # ep -> True

    async def main():
        for st in scn["steps"]:
            k = st["k"]
            sim.log("app", "simple-step", k)
            if k == "reg":
                r = await req(st["n"], POST, ("resourcedirectory", ""), ["ep=" + st["ep"]])
                if code_of(r) == (2, 1):
                    live[st["ep"]] = True
            elif k == "simple":
                delays["n%d" % st["n"]] = st["d"]
                sim.probe("simple_registration")
                t = loop.create_task(req(st["n"], POST, (".well-known", "rd"), ["ep=" + st["ep"]]))
                # what happens while the directory is fetching
                await asyncio.sleep(st["d"] / 2 if st["d"] else 0)
                for inner in st.get("meanwhile", []):
                    if inner["k"] == "reg":
                        sim.probe("registration_during_simple_registration_fetch")
                        r = await req(inner["n"], POST, ("resourcedirectory", ""), ["ep=" + inner["ep"]])
                        if code_of(r) == (2, 1):
                            live[inner["ep"]] = True
                    elif inner["k"] == "del":
                        links = await lookup() or []
                        hrefs = [h for h, a in links if ("ep", inner["ep"]) in a]
                        if hrefs:
                            r = await req(2, DELETE, tuple(hrefs[0].strip("/").split("/")) + ("",))
                            if code_of(r) == (2, 2):
                                live.pop(inner["ep"], None)
                r = await t
                if code_of(r) == (2, 4):
                    live[st["ep"]] = True
                elif code_of(r) is not None and code_of(r)[0] == 5:
                    viol.append(("C20/simple-registration-5xx", {"step": st, "code": "%d.%02d" % code_of(r)}))
            # ---- after every step: the directory as the look-up shows it
            links = await lookup()
            if links is None:
                viol.append(("C20/lookup-failed", {"after": st}))
                return
            eps = sorted(v for h, a in links for kk, v in a if kk == "ep")
            hrefs = [h for h, a in links]
            if eps != sorted(live):
                viol.append(("C20/lookup-misses-live-registration" if set(live) - set(eps) else "C20/lookup-lists-dead-registration",
                             {"after": st, "listed": eps, "live": sorted(live)}))
                return
            if len(set(hrefs)) != len(hrefs):
                viol.append(("C20/location-shared", {"after": st, "locations": hrefs, "endpoints": eps}))
                return
            for h in hrefs:
                r = await req(2, GET, tuple(h.strip("/").split("/")) + ("",))
                if code_of(r) != (2, 5):
                    viol.append(("C20/live-registration-not-found", {"after": st, "location": h,
                                                                     "answer": None if code_of(r) is None else "%d.%02d" % code_of(r)}))
                    return
        # finally: removing one location removes exactly that endpoint
        links = await lookup() or []
        if links:
            h, a = links[0]
            gone = [v for kk, v in a if kk == "ep"][0]
            r = await req(2, DELETE, tuple(h.strip("/").split("/")) + ("",))
            after = await lookup() or []
            eps = sorted(v for _, aa in after for kk, v in aa if kk == "ep")
            want = sorted(e for e in live if e != gone)
            if code_of(r) == (2, 2) and eps != want:
                viol.append(("C20/delete-removed-other-registration", {"deleted": h, "listed": eps, "expected": want}))

    task = loop.create_task(main())
    sim.run(stop=task.done, horizon=3000)
    if not task.done():
        task.cancel()
        raise RuntimeError("simple-registration driver did not finish")
    task.result()
    for kind, detail in viol[:1]:
        sim.violation(kind, detail)
    for (t, m, en, es) in sim.loop_exceptions():
        sim.anomaly("loop-exception", "%s %s %s" % (m, en, es))


def gen_simple(r):
    steps = []
    names = ["a", "b", "c", "d"]
    for _ in range(r.randint(1, 4)):
        if r.chance(0.5):
            steps.append({"k": "reg", "n": r.randrange(3), "ep": r.choice(names)})
        else:
            st = {"k": "simple", "n": r.randrange(2), "ep": r.choice(names), "d": r.choice([0.0, 1.0, 1.0, 3.0]), "meanwhile": []}
            # (what happens meanwhile is placed in the middle of a fetch that takes at least a second, so that its
            # order relative to the start and the end of the simple registration is not in doubt)
            for _ in range(r.choice([0, 1, 1, 2]) if st["d"] >= 1.0 else 0):
                if r.chance(0.7):
                    st["meanwhile"].append({"k": "reg", "n": 2, "ep": r.choice(names)})
                else:
                    st["meanwhile"].append({"k": "del", "ep": r.choice(names)})
            steps.append(st)
    return {"workload": "simple", "steps": steps, "ops": [], "net": {}}


def execute(sim, scn):
    if scn.get("workload") == "simple":
        return execute_simple(sim, scn)
    import asyncio
    from urllib.parse import urljoin

    import aiocoap  # noqa: F401  (registers the coap schemes with urllib.parse)
    from aiocoap import GET, POST, PUT, DELETE
    from aiocoap.cli.rd import StandaloneResourceDirectory

    loop = sim.loop
    sim.net.fate_gen = faults.fate_gen(scn.get("net", {}))
    nclients = max(1, min(3, int(scn.get("clients", 1))))
    ops = scn["ops"]
    drv = Driver(sim, (common.SERVER_IP, 5683))
    regs = {}  # key -> Reg (latest incarnation)
    graveyard = []  # earlier incarnations (replaced, deleted or expired), for attribution only
    state = {"i": -1}

    def violation(kind, **detail):
        detail["op_index"] = state["i"]
        detail["op"] = ops[state["i"]] if 0 <= state["i"] < len(ops) else None
        sim.violation(kind, detail)
        raise Stop()

    async def setup():
        ctx = await sim.server(None, common.SERVER_IP)
        site = StandaloneResourceDirectory(context=ctx)
        ctx.serversite = site
        clients = []
        for i in range(nclients):
            c = await sim.client("fd00::%x" % (2 + i))
            clients.append((c, drv.add_client(c)))
        return ctx, site, clients

    server, site, clients = loop.run_until_complete(setup())
    cbase = ["coap://[%s]:%d" % a if a[1] != 5683 else "coap://[%s]" % a[0] for (_, a) in clients]

    def subst(s):
        for i in range(3):
            s = s.replace("$C%d" % i, cbase[min(i, nclients - 1)])
        if "$L:" in s:
            head, _, tail = s.partition("$L:")
            ep, _, d = tail.partition(":")
            reg = regs.get((ep, d or None))
            s = head + (reg.href if reg is not None else "/reg/1/")
        return s

    def resolve_loc(spec):
        if spec[0] == "path":
            return tuple(spec[1:])
        reg = regs.get((spec[1], spec[2]))
        loc = reg.loc if reg is not None else ("reg", "1", "")
        if spec[0] == "key-noslash" and loc and loc[-1] == "":
            loc = loc[:-1]
        return loc

    def reg_at(loc, t):
        """The registration the model has at this location: live before tie before dead."""
        best = None
        rank = {"live": 0, "tie": 1, "dead": 2}
        for reg in list(regs.values()) + graveyard[::-1]:
            if reg.loc != loc:
                continue
            st = reg.status(t)
            if best is None or rank[st] < rank[best[1]]:
                best = (reg, st)
        return best if best is not None else (None, "none")

    def classify(reg, present, t, generic, attrs=None):
        """Give the violation its specific kind when one of the request-answered-4.xx hypotheses explains
        what was observed for this registration."""
        if reg is not None:
            if reg.alt_deleted is not None and not present:
                return "C20/failed-reregistration-deletes"
            if not reg.deleted:
                for alt in reg.alts:
                    alt_st = reg.status(t, alt=alt)
                    if attrs is None and (alt_st == "tie" or present == (alt_st == "live")) and \
                            reg.status(t) != alt_st:
                        return "C20/failed-update-applies-lt"
                    if attrs is not None and attrs_key(attrs, drop=("rt", "lt")) == attrs_key(reg.ep_attrs(alt=alt)):
                        return "C20/failed-update-applies-params"
        return generic

    def payload_text(resp):
        try:
            return resp.payload.decode("utf-8")
        except UnicodeDecodeError:
            violation("C20/lookup-unparsable", why="payload is not UTF-8", payload=resp.payload.hex())

    def parse_payload(resp, what):
        try:
            return lf_parse(payload_text(resp))
        except LinkFormatError as e:
            violation("C20/%s-unparsable" % what, why=str(e), payload=resp.payload.decode("utf-8", "replace"))

    # ---- expected look-up content ------------------------------------------------

    def res_entries(reg, alt=None):
        base = (alt if alt else {"base": reg.base})["base"]
        out = []
        for href, attrs in reg.links:
            ah = urljoin(base, href)
            anchors = [v for k, v in attrs if k == "anchor"]
            anchor = urljoin(base, anchors[0]) if anchors else urljoin(ah, "/")
            out.append((ah, attrs_key(attrs, drop=("anchor",)), anchor, tuple(attrs)))
        return out

    def obs_res_key(href, attrs):
        anchors = [v for k, v in attrs if k == "anchor"]
        anchor = anchors[0] if anchors else urljoin(href, "/")
        return (href, attrs_key(attrs, drop=("anchor",)), anchor)

    def f_reg(reg, k, v):
        if k == "ep":
            return reg.key[0] == v
        if k == "d":
            return reg.key[1] == v
        if k == "href":
            return reg.href == v
        return k in reg.params and v in reg.params[k]

    def f_link(entry, k, v):
        ah, _, _, attrs = entry
        if k == "href":
            return ah == v
        if k in ("rt", "if"):
            return any(kk == k and vv is not None and v in vv.split() for kk, vv in attrs)
        return any(kk == k and vv == v for kk, vv in attrs)

    def select(kind, filters, t):
        """-> list of (reg, status, entries) for registrations that are live or at an exact tie."""
        out = []
        for reg in regs.values():
            st = reg.status(t)
            if st == "dead":
                continue
            ents = res_entries(reg)
            if kind == "ep":
                if all(f_reg(reg, k, v) or any(f_link(e, k, v) for e in ents) for k, v in filters):
                    out.append((reg, st, ents))
            else:
                sel = [e for e in ents if all(f_link(e, k, v) or f_reg(reg, k, v) for k, v in filters)]
                out.append((reg, st, sel))
        return out

    def page_window(n, page, count):
        if count is None:
            return n
        if page is None:
            return min(count, n)
        return max(0, min(count, n - page * count))

    def check_lookup(kind, q, t, entries, partial=False):
        """Strict comparison of one look-up answer.  partial=True: the answer is one page -- only
        membership, duplicates and (by the caller) the size are checked."""
        pairs = split_q(q)
        filters = [(k, v) for k, v in pairs if k not in ("page", "count")]
        sel = select(kind, filters, t)
        absent[:] = []
        dead = [r for r in list(regs.values()) + graveyard if r.status(t) == "dead"]
        if kind == "ep":
            by_href = {}
            for href, attrs in entries:
                if href in by_href:
                    violation("C20/lookup-duplicate-entry", lookup=kind, href=href, t=t)
                by_href[href] = attrs
            sel_by_href = {reg.href: (reg, st) for reg, st, _ in sel}
            if len(sel_by_href) != len(sel):
                pass  # two live model registrations share a location: reported where it arose
            for href, attrs in by_href.items():
                if href in sel_by_href:
                    reg, st = sel_by_href[href]
                    if attrs_key(attrs, drop=("rt", "lt")) != attrs_key(reg.ep_attrs()):
                        violation(classify(reg, True, t, "C20/lookup-wrong-parameters", attrs=attrs), lookup=kind, t=t,
                                  href=href, got=[list(a) for a in attrs], expected=[list(a) for a in reg.ep_attrs()],
                                  registration=reg.describe())
                    continue
                # not expected: why is it there?
                other = [r for r in regs.values() if r.href == href and r.status(t) != "dead"]
                if other and filters:
                    violation("C20/lookup-filter-mismatch", lookup=kind, t=t, href=href, query=q,
                              registration=other[0].describe(), got=[list(a) for a in attrs])
                cands = [r for r in dead if r.href == href and
                         any(a == ("ep", r.key[0]) for a in attrs)]
                if cands:
                    reg = cands[0]
                    violation(classify(reg, True, t, "C20/lookup-lists-dead-registration"), lookup=kind, t=t, href=href,
                              registration=reg.describe(), got=[list(a) for a in attrs])
                violation("C20/lookup-lists-unknown-entry", lookup=kind, t=t, href=href, got=[list(a) for a in attrs])
            if not partial:
                for reg, st, _ in sel:
                    if st == "live" and reg.href not in by_href:
                        violation(classify(reg, False, t, "C20/lookup-misses-live-registration"), lookup=kind, t=t,
                                  query=q, registration=reg.describe(), listed=sorted(by_href))
            n_sure = sum(1 for _, st, _ in sel if st == "live")
            n_max = len(sel)
            absent[:] = [reg for reg, st, _ in sel if st == "live" and reg.href not in by_href]
        else:
            got = multiset(obs_res_key(h, a) for h, a in entries)
            remaining = dict(got)
            for reg, st, ents in [x for x in sel if x[1] == "live"] + [x for x in sel if x[1] != "live"]:
                want = multiset(e[:3] for e in ents)
                missing = ms_sub(want, remaining)
                if not missing:
                    remaining = ms_sub(remaining, want)
                elif st == "live" and not partial:
                    present = len(ms_list(missing)) < len(ents)
                    kindv = "C20/lookup-misses-live-registration"
                    if any(alt["base"] != reg.base and
                           not ms_sub(multiset(e[:3] for e in res_entries(reg, alt=alt)), remaining)
                           for alt in reg.alts):
                        kindv = "C20/failed-update-applies-params"
                    elif not present:
                        kindv = classify(reg, False, t, kindv)
                    else:
                        kindv = "C20/lookup-wrong-links"
                    violation(kindv, lookup=kind, t=t, query=q, registration=reg.describe(),
                              missing=[list(x[:1]) + [list(x[1])] + [x[2]] for x in ms_list(missing)],
                              got=[[h, [list(p) for p in a]] for h, a in entries])
                elif partial:
                    # a page may hold some of a registration's links
                    remaining = ms_sub(remaining, want)
                    if st == "live" and len(ms_list(missing)) == len(ents):
                        absent.append(reg)
            if remaining:
                extra = ms_list(remaining)[0]
                unf = multiset(e[:3] for reg, st, ents in select(kind, [], t) for e in ents)
                if extra in unf and filters:
                    violation("C20/lookup-filter-mismatch", lookup=kind, t=t, query=q,
                              extra=[extra[0], list(extra[1]), extra[2]])
                for reg, st, _ in select(kind, [], t):
                    if any(extra in [e[:3] for e in res_entries(reg, alt=alt)] for alt in reg.alts):
                        violation("C20/failed-update-applies-params", lookup=kind, t=t, query=q,
                                  registration=reg.describe(), extra=[extra[0], list(extra[1]), extra[2]])
                for reg in dead:
                    if not reg.deleted and any(reg.status(t, alt=alt) != "dead" and
                                               extra in [e[:3] for e in res_entries(reg, alt=alt)] for alt in reg.alts):
                        violation("C20/failed-update-applies-lt", lookup=kind, t=t, query=q,
                                  registration=reg.describe(), extra=[extra[0], list(extra[1]), extra[2]])
                    if extra in [e[:3] for e in res_entries(reg)]:
                        violation(classify(reg, True, t, "C20/lookup-lists-dead-registration"), lookup=kind, t=t,
                                  query=q, registration=reg.describe(), extra=[extra[0], list(extra[1]), extra[2]])
                if extra in unf:
                    violation("C20/lookup-duplicate-entry", lookup=kind, t=t, query=q,
                              extra=[extra[0], list(extra[1]), extra[2]])
                violation("C20/lookup-lists-unknown-entry", lookup=kind, t=t, query=q,
                          extra=[extra[0], list(extra[1]), extra[2]],
                          got=[[h, [list(p) for p in a]] for h, a in entries])
            n_sure = sum(len(ents) for _, st, ents in sel if st == "live")
            n_max = sum(len(ents) for _, _, ents in sel)
        return n_sure, n_max

    absent = []  # live registrations the last checked (partial) answer did not show at all

    def size_kind(pairs, t, short):
        if short:
            for reg in absent:
                k = classify(reg, False, t, None)
                if k is not None:
                    return k
        if any(k not in ("page", "count") for k, _ in pairs):
            return "C20/filtered-pagination-wrong-size"
        return "C20/pagination-wrong-size"

    def pagination(pairs):
        pages = [v for k, v in pairs if k == "page"]
        counts = [v for k, v in pairs if k == "count"]
        page = plain_int(pages[0]) if pages else None
        count = plain_int(counts[0]) if counts else None
        return page, count

    # ---- operations ------------------------------------------------------------------

    async def do_request(c, code, path, q=(), payload=b"", cf=None):
        ctx, addr = clients[min(c, nclients - 1)]
        # (a body beyond one block still travels in ONE datagram -- the network here has no size limit --, so that the
        # write keeps happening at one known instant)
        tr, resp, err = await drv.request(ctx, code, path, [subst(s) for s in q], payload, cf,
                                          handle_blockwise=len(payload) <= 1000)
        if err is not None:
            # let stragglers (delayed copies) reach the server before anything else is sent
            await asyncio.sleep(20.0)
        rcode = None
        loc = None
        if resp is not None:
            rcode = (int(resp.code) >> 5, int(resp.code) & 31)
            loc = tuple(resp.opt.location_path or ())
        elif tr.wire_resp is not None:
            rcode = (tr.wire_resp["code"] >> 5, tr.wire_resp["code"] & 31)
            loc = wire_location(tr.wire_resp)
            sim.probe("resp_from_wire")
        sim.log("app", "op", state["i"], ops[state["i"]]["op"], "%d.%02d" % rcode if rcode else None,
                "/".join(loc) if loc else None, type(err).__name__ if err else None,
                resp.payload.hex() if resp is not None else None)
        return tr, resp, rcode, loc, cbase[min(c, nclients - 1)]

    def bad_refs(op):
        return [h for h, a in (op.get("links") or []) if h in BAD_REFS] + \
               [v for h, a in (op.get("links") or []) for k, v in a if k == "anchor" and v in BAD_REFS]

    def body_of(op):
        if "raw" in op:
            return bytes.fromhex(op["raw"])
        if op.get("links") is None:
            return b""
        return lf_write(op["links"]).encode("utf-8")

    async def op_reg(op):
        path = ALIAS_PATH if op.get("alias") else RD_PATH
        tr, resp, rcode, loc, src_base = await do_request(op["c"], POST, path, op["q"], body_of(op), op.get("cf"))
        if tr.t_srv is None or rcode is None:
            return  # never reached the server (or: reached it but no answer was ever produced)
        t = tr.t_srv
        pairs = split_q([subst(s) for s in op["q"]])
        eps = [v for k, v in pairs if k == "ep"]
        ds = [v for k, v in pairs if k == "d"]
        key = (eps[0], ds[0] if ds else None) if len(eps) == 1 and len(ds) <= 1 else None
        old = regs.get(key) if key is not None else None
        old_st = old.status(t) if old is not None else "none"
        if rcode[0] == 4:
            if op.get("valid"):
                sim.anomaly("C20/valid-registration-rejected", "%s %s" % (op["q"], rcode))
            if old_st == "live":
                sim.probe("rereg_4xx_live")
                sim.nontrivial = True
                old.alt_deleted = state["i"]
            return
        if rcode[0] != 2:
            sim.anomaly("C20/registration-%d.%02d" % rcode, str(op["q"]))
            raise Stop()  # 5.xx: nothing is promised about the state afterwards
        lts = [v for k, v in pairs if k == "lt"]
        bases = [v for k, v in pairs if k == "base"]
        if any(b in BAD_BASES for b in bases):
            # filed although it is no URI reference: from now on the directory cannot compose the targets of ANY
            # look-up that would include this registration -- everybody's look-ups fail
            violation("C20/registration-with-unusable-base-accepted", query=op["q"], answered="%d.%02d" % rcode)
            raise Stop()
        if bad_refs(op):
            violation("C20/registration-with-unusable-link-accepted", query=op["q"], links=bad_refs(op), answered="%d.%02d" % rcode)
            raise Stop()
        if key is None or len(lts) > 1 or len(bases) > 1 or (lts and plain_int(lts[0]) is None) or \
                (bases and bases[0] is None) or "raw" in op or op.get("cf") != LINKFORMAT:
            sim.anomaly("C20/unmodelled-registration-accepted", str(op["q"]))
            raise Stop()
        if not loc:
            violation("C20/created-without-location", query=op["q"])
        sim.probe("reg_created")
        for other in regs.values():
            if other.key != key and other.loc == loc and other.status(t) == "live":
                violation(classify(other, False, t, "C20/location-shared"), location="/" + "/".join(loc), new=list(key),
                          holder=other.describe(), t=t)
        if old_st == "live":
            sim.probe("rereg")
            if old.loc != loc:
                violation(classify(old, False, t, "C20/reregistration-changed-location"), t=t,
                          old=old.describe(), new_location="/" + "/".join(loc))
        if old is not None:
            graveyard.append(old)
        reg = Reg(key, loc)
        reg.links = [(h, [(k, v) for k, v in a]) for h, a in (op.get("links") or [])]
        st = reg.snapshot()
        apply_update(st, [(k, v) for k, v in pairs if k != "proxy"], src_base, t)
        reg.lt, reg.t_write, reg.params, reg.base, reg.base_explicit = (st["lt"], st["t_write"], st["params"],
                                                                        st["base"], st["base_explicit"])
        regs[key] = reg
        if old is not None and old_st != "dead":
            old.deleted = True  # replaced by the new registration

    async def op_upd(op):
        loc = resolve_loc(op["loc"])
        code = POST if op["m"] == "post" else PUT
        has_body = op.get("links") is not None or "raw" in op
        tr, resp, rcode, _, src_base = await do_request(op["c"], code, loc, op["q"], body_of(op) if has_body else b"",
                                                        op.get("cf") if has_body else None)
        if tr.t_srv is None or rcode is None:
            return
        t = tr.t_srv
        reg, st = reg_at(loc, t)
        pairs = split_q([subst(s) for s in op["q"]])
        if rcode[0] == 5:
            # the update failed inside the directory: it is no successful write, so the registration stays as its
            # latest successful write left it (an update the model would have accepted at that)
            sim.anomaly("C20/update-%d.%02d" % rcode, str(op["q"]))
            sim.probe("update_5xx")
        if rcode[0] in (4, 5):
            if st == "live":
                if op.get("valid") and rcode != (4, 4):
                    sim.anomaly("C20/valid-update-rejected", "%s %s" % (op["q"], rcode))
                if rcode == (4, 4):
                    violation(classify(reg, False, t, "C20/live-registration-not-found"), t=t,
                              registration=reg.describe())
                sim.probe("update_4xx_live")
                sim.nontrivial = True
                new = []
                for s0 in [reg.snapshot()] + reg.alts:
                    s1 = {"lt": s0["lt"], "t_write": s0["t_write"], "base": s0["base"],
                          "base_explicit": s0["base_explicit"], "params": {k: list(v) for k, v in s0["params"].items()}}
                    apply_update(s1, pairs, src_base, t)
                    if s1 not in reg.alts and s1 not in new:
                        new.append(s1)
                reg.alts = (reg.alts + new)[-12:]
            elif st in ("dead", "none") and rcode == (4, 4):
                sim.probe("stale_location_404")
            return
        if rcode[0] != 2:
            sim.anomaly("C20/update-%d.%02d" % rcode, str(op["q"]))
            raise Stop()
        if st == "tie":
            raise Stop()  # accepted exactly at the expiry instant: either order is legal, the model ends here
        if st != "live":
            if reg is not None and classify(reg, True, t, "") != "":
                violation(classify(reg, True, t, ""), t=t, registration=reg.describe(), answered="%d.%02d" % rcode)
            sim.anomaly("C20/update-accepted-for-dead-location", "/".join(loc))
            raise Stop()
        lts = [v for k, v in pairs if k == "lt"]
        bases = [v for k, v in pairs if k == "base"]
        if any(b in BAD_BASES for b in bases):
            violation("C20/registration-with-unusable-base-accepted", query=op["q"], answered="%d.%02d" % rcode)
            raise Stop()
        if code == PUT and bad_refs(op):
            violation("C20/registration-with-unusable-link-accepted", query=op["q"], links=bad_refs(op), answered="%d.%02d" % rcode)
            raise Stop()
        if len(lts) > 1 or len(bases) > 1 or (lts and plain_int(lts[0]) is None) or (bases and bases[0] is None) or \
                any(k in ("ep", "d") for k, _ in pairs) or "raw" in op or (code == PUT and op.get("cf") != LINKFORMAT) \
                or (code == POST and has_body):
            sim.anomaly("C20/unmodelled-update-accepted", str(op["q"]))
            raise Stop()
        sim.probe("update_ok")
        s = reg.snapshot()
        apply_update(s, pairs, src_base, t)
        reg.lt, reg.t_write, reg.params, reg.base, reg.base_explicit = (s["lt"], s["t_write"], s["params"], s["base"],
                                                                        s["base_explicit"])
        for alt in reg.alts:
            apply_update(alt, pairs, src_base, t)
        if code == PUT:
            reg.links = [(h, [(k, v) for k, v in a]) for h, a in (op.get("links") or [])]

    async def op_del(op):
        loc = resolve_loc(op["loc"])
        tr, resp, rcode, _, _ = await do_request(op["c"], DELETE, loc)
        if tr.t_srv is None or rcode is None:
            return
        t = tr.t_srv
        reg, st = reg_at(loc, t)
        if rcode[0] == 2:
            if st in ("live", "tie"):
                sim.probe("delete_ok")
                reg.deleted = True
            else:
                if reg is not None and classify(reg, True, t, "") != "":
                    violation(classify(reg, True, t, ""), t=t, registration=reg.describe(), answered="%d.%02d" % rcode)
                sim.anomaly("C20/delete-accepted-for-dead-location", "/".join(loc))
                raise Stop()
        elif rcode[0] == 4:
            if st == "live" and rcode == (4, 4):
                violation(classify(reg, False, t, "C20/live-registration-not-found"), t=t, registration=reg.describe())
            if st in ("dead", "none") and rcode == (4, 4):
                sim.probe("stale_location_404")
        else:
            sim.anomaly("C20/delete-%d.%02d" % rcode, "/".join(loc))
            raise Stop()

    async def op_get(op):
        loc = resolve_loc(op["loc"])
        tr, resp, rcode, _, _ = await do_request(op["c"], GET, loc)
        if tr.t_srv is None or resp is None:
            return
        t = tr.t_srv
        reg, st = reg_at(loc, t)
        note_boundary(t)
        if rcode == (2, 5):
            if st == "tie":
                return
            if st != "live":
                if reg is not None and classify(reg, True, t, "") != "":
                    violation(classify(reg, True, t, ""), t=t, registration=reg.describe(), answered="2.05")
                sim.anomaly("C20/get-answered-for-dead-location", "/".join(loc))
                return
            got = multiset((h, attrs_key(a)) for h, a in parse_payload(resp, "registration-resource"))
            want = multiset((h, attrs_key(a)) for h, a in reg.links)
            if got != want:
                violation("C20/registration-resource-wrong-links", t=t, registration=reg.describe(),
                          got=resp.payload.decode("utf-8", "replace"), expected=lf_write(reg.links))
        elif rcode[0] == 4:
            if st == "live":
                violation(classify(reg, False, t, "C20/live-registration-not-found"), t=t, registration=reg.describe(),
                          answered="%d.%02d" % rcode)
            if st in ("dead", "none") and rcode == (4, 4):
                sim.probe("stale_location_404")
                if reg is not None and not reg.deleted:
                    sim.probe("expired_seen")
        else:
            violation("C20/registration-resource-server-error", t=t, answered="%d.%02d" % rcode)

    def note_boundary(t):
        for reg in regs.values():
            if reg.deleted:
                continue
            dlt = t - reg.expiry()
            if abs(dlt) <= TOL:
                sim.probe("boundary_tie")
                sim.nontrivial = True
            elif abs(dlt) < 1e-3:
                sim.probe("boundary_pre_eps" if dlt < 0 else "boundary_post_eps")
                sim.nontrivial = True
            elif dlt > 0:
                sim.probe("expired_seen")

    async def lookup_once(op, q):
        path = EP_LOOKUP if op["kind"] == "ep" else RES_LOOKUP
        tr, resp, rcode, _, _ = await do_request(op["c"], GET, path, q)
        if tr.t_srv is None or resp is None:
            return None
        if len(resp.payload) > 1024:
            sim.probe("blockwise_lookup")
            if loop.now - tr.t_srv > 60.0:
                return None  # blocks fetched so slowly that the server may have rendered the tail anew
        note_boundary(tr.t_srv)
        return tr.t_srv, resp, rcode

    async def op_look(op):
        q = [subst(s) for s in op["q"]]
        r = await lookup_once(op, op["q"])
        if r is None:
            return
        t, resp, rcode = r
        mode = op.get("mode", "strict")
        if rcode[0] == 5:
            if mode == "malformed":
                sim.anomaly("C20/malformed-lookup-5xx", str(op["q"]))
                return
            violation("C20/lookup-server-error", lookup=op["kind"], query=q, answered="%d.%02d" % rcode, t=t,
                      registrations=[g.describe() for g in regs.values()])
        if rcode != (2, 5):
            if mode == "strict":
                violation("C20/lookup-rejected", lookup=op["kind"], query=q, answered="%d.%02d" % rcode)
            return
        entries = parse_payload(resp, "lookup")
        if mode == "strict":
            sim.probe("lookup_strict")
            pairs = split_q(q)
            page, count = pagination(pairs)
            n_sure, n_max = check_lookup(op["kind"], q, t, entries, partial=count is not None)
            if count is not None:
                sim.probe("lookup_paged")
                lo, hi = page_window(n_sure, page, count), page_window(n_max, page, count)
                if not (min(lo, hi) <= len(entries) <= max(lo, hi)):
                    violation(size_kind(pairs, t, len(entries) < min(lo, hi)), lookup=op["kind"], query=q, t=t,
                              got=len(entries),
                              expected=[lo, hi], matching=[n_sure, n_max])
        else:
            sim.probe("lookup_rich")
            # subset of what an unfiltered look-up may list at that instant
            check_lookup(op["kind"], [], t, entries, partial=True)

    async def op_sweep(op):
        count = int(op["count"])
        pages = []
        p = 0
        while True:
            r = await lookup_once(op, list(op["q"]) + ["page=%d" % p, "count=%d" % count])
            if r is None:
                return
            t, resp, rcode = r
            q = [subst(s) for s in op["q"]]
            if rcode[0] == 5:
                violation("C20/lookup-server-error", lookup=op["kind"], query=q + ["page=%d" % p, "count=%d" % count],
                          answered="%d.%02d" % rcode, t=t)
            if rcode != (2, 5):
                violation("C20/lookup-rejected", lookup=op["kind"], query=q, answered="%d.%02d" % rcode)
            entries = parse_payload(resp, "lookup")
            n_sure, n_max = check_lookup(op["kind"], q, t, entries, partial=True)
            lo, hi = page_window(n_sure, p, count), page_window(n_max, p, count)
            if not (min(lo, hi) <= len(entries) <= max(lo, hi)):
                violation(size_kind(split_q(q), t, len(entries) < min(lo, hi)), lookup=op["kind"], query=q, page=p,
                          count=count, t=t,
                          got=len(entries), expected=[lo, hi])
            pages.append((t, entries))
            if not entries or p > n_max // count + 2:
                break
            p += 1
        sim.probe("sweep")
        t0, t1 = pages[0][0], pages[-1][0]
        stable = all(reg.status(t0) == reg.status(t1) and reg.status(t0) != "tie" and
                     not (t0 - TOL <= reg.expiry() <= t1 + TOL) for reg in regs.values())
        if stable:
            # the pages together are the complete answer: nothing lost, nothing twice
            allent = [e for _, es in pages for e in es]
            n_sure, _ = check_lookup(op["kind"], [subst(s) for s in op["q"]], t1, allent, partial=False)
            if len(allent) != n_sure:
                violation(size_kind(split_q(op["q"]), t1, len(allent) < n_sure), lookup=op["kind"], query=op["q"], count=count, t=t1,
                          got=len(allent), expected=[n_sure, n_sure], pages=len(pages))

    async def op_until(op):
        reg = regs.get((op["key"][0], op["key"][1]))
        if reg is None or reg.deleted:
            await asyncio.sleep(1.0)
            return
        e = reg.expiry()
        if op.get("which") == "alt" and reg.alts:
            e = reg.alts[-1]["t_write"] + (reg.alts[-1]["lt"] + GRACE)
        target = e + op["off"] - LAT
        if target - loop.now > 400000 or target <= loop.now:
            await asyncio.sleep(1.0)
            return
        await asyncio.sleep(target - loop.now)

    async def main():
        for i, op in enumerate(ops):
            state["i"] = i
            kind = op["op"]
            if kind == "reg":
                await op_reg(op)
            elif kind == "upd":
                await op_upd(op)
            elif kind == "del":
                await op_del(op)
            elif kind == "get":
                await op_get(op)
            elif kind == "look":
                await op_look(op)
            elif kind == "sweep":
                await op_sweep(op)
            elif kind == "sleep":
                await asyncio.sleep(float(op["dt"]))
            elif kind == "jump":
                sim.probe("wall_clock_step")
                sim.net.count("fault.clock_step")
                sim.log("app", "wall-clock-step", op["by"])
                sim.timeshim.offset += float(op["by"])
            elif kind == "until":
                await op_until(op)

    async def guarded():
        try:
            await main()
        except Stop:
            pass

    loop.run_until_complete(guarded())
    for (t, m, en, es) in sim.loop_exceptions():
        sim.anomaly("loop-exception", "%s %s %s" % (m, en, es))
    for (t, lvl, name, msg) in sim.loglines:
        if lvl in ("ERROR", "CRITICAL"):
            sim.anomaly("server-log-error", msg)
