"""C09 -- every request gets exactly one final response reflecting the handler outcome."""

from simkit import refcodec as rc
from simkit import faults
from simkit.net import ScriptedEndpoint, fmt
from . import common
from .common import TOL

PROPERTY = "C09"
LEVEL = "exploration"
SUPPORTS_V4 = True  # scenarios with "v4": true run over IPv4-mapped addresses (see common.set_family)
RUNS = {"quick": 2500, "thorough": 40000}
RULE = ("seeded scenarios: 1-2 scripted clients send 2-12 requests (7 methods x CON/NON, partly concurrent) to a real "
        "server hosting a zoo of handlers generated per run: return with / without code, raise every "
        "ConstructionRenderableError subclass with and without custom text, raise arbitrary exceptions carrying a secret "
        "marker (also ones that have a to_message method without being RenderableError: ResponseWrappingError), return None/str/int/tuple, RenderableError whose to_message raises or returns None, each completing "
        "before or after EMPTY_ACK_DELAY; unknown paths, unimplemented methods, a context without a site; "
        "a handler that waits on a future nothing else references strongly while the garbage collector (off "
        "otherwise) runs at scenario-chosen instants; server->client loss/dup/delay so separate responses get retransmitted, client-side repeats of CON requests. "
        "Systematic: zoo x method x CON/NON one at a time. Non-trivial = a failing handler kind or a fault occurred; "
        "distinct = distinct event-sequence hash.")
COMPONENTS_REAL = ["aiocoap.pipe (error_to_message, run_driving_pipe)", "aiocoap.protocol.Context.render_to_pipe",
                   "aiocoap.resource (Resource.render, Site)", "aiocoap.interfaces.Resource", "aiocoap.error",
                   "aiocoap.tokenmanager", "aiocoap.messagemanager", "aiocoap.transports.udp6"]
COMPONENTS_STUB = ["UDP socket (SimSocket)", "scripted clients (reference codec)", "event loop clock (virtual)"]
ASSUMPTIONS = ["a renderable error's own code and message are its class/instance attributes `code` and `message`",
               "'bare 5.00' is taken to mean code 5.00 with an empty payload"]
EXPECTED_PROBES = ["renderable_error", "generic_exception", "wrong_return_type", "failing_renderer", "slow_failure",
                   "default_code", "not_found", "method_not_allowed", "not_a_server", "concurrent_neighbours", "gc_while_handler_waits", "non_renderable_with_to_message", "request_over_tcp",
                   "observation_declined", "crowd_of_pending_requests", "crowd_above_64", "handler_on_instance", "response_declined_by_client", "other_class_declined_response_due", "modifying_request_with_observe"]

SECRET = "SECRET-9f3a-MARKER"
METHODS = {"GET": 1, "POST": 2, "PUT": 3, "DELETE": 4, "FETCH": 5, "PATCH": 6, "IPATCH": 7}
RENDERABLE = ['BadGateway', 'BadOption', 'BadRequest', 'Conflict', 'ConstructionRenderableError', 'Forbidden',
              'GatewayTimeout', 'HopLimitReached', 'InternalServerError', 'MethodNotAllowed', 'NoRequestInterface',
              'NoResource', 'NotAcceptable', 'NotFound', 'NotImplemented', 'PreconditionFailed', 'ProxyingNotSupported',
              'RequestEntityIncomplete', 'RequestEntityTooLarge', 'ServiceUnavailable', 'TooManyRequests',
              'UnallowedMethod', 'Unauthorized', 'UnprocessableEntity', 'UnsupportedContentFormat', 'UnsupportedMethod']
RET_CODES = [rc.CONTENT, rc.CREATED, rc.CHANGED, rc.DELETED, rc.VALID, rc.BAD_REQUEST, rc.code(5, 3), rc.code(4, 29)]
KINDS = ["ret_code", "ret_nocode", "raise_renderable", "raise_renderable_text", "raise_generic", "ret_none", "ret_str",
         "ret_int", "ret_tuple", "renderer_raises", "renderer_none", "missing", "get_only", "ret_unserializable",
         "raw_render_nonmessage", "wait_weak", "raise_wrapping", "raise_ducky", "obs_decline_ret", "obs_decline_raise",
         "inst_put_w", "inst_put_r", "removed_post", "getattr_any", "obs_modifying"]


FIXED_METHOD = {"inst_put_w": "PUT", "inst_put_r": "PUT", "removed_post": "POST", "obs_modifying": "POST"}


def gen_req(r, i):
    kind = r.weighted([(3, "ret_code"), (3, "ret_nocode"), (3, "raise_renderable"), (2, "raise_renderable_text"),
                       (3, "raise_generic"), (1, "ret_none"), (1, "ret_str"), (1, "ret_int"), (1, "ret_tuple"),
                       (2, "renderer_raises"), (1, "renderer_none"), (2, "missing"), (2, "get_only"),
                       (2, "ret_unserializable"), (1, "raw_render_nonmessage"), (2, "wait_weak"),
                       (2, "raise_wrapping"), (1, "raise_ducky"), (1, "obs_decline_ret"), (2, "obs_decline_raise"),
                       (1, "inst_put_w"), (1, "inst_put_r"), (1, "removed_post"), (1, "getattr_any"), (1, "obs_modifying")])
    q = {"id": i, "kind": kind, "method": r.choice(list(METHODS)), "con": r.chance(0.7), "slow": r.chance(0.35),
         "client": 0}
    if kind in ("inst_put_w", "inst_put_r"):
        # handlers that differ between two instances of one class: the writable instance got a PUT handler attached
        q["method"] = "PUT"
    if kind == "removed_post":
        q["method"] = "POST"  # the class has a POST handler, this instance switched it off (render_post = None)
    if kind == "obs_modifying":
        # a modifying request that carries Observe: 0 (a client library that sets the option on whatever it sends) to a
        # resource that accepts observations and changes its state later: observing is defined for GET and FETCH, this
        # request is carried out and answered once like any other
        q["method"] = r.choice(["POST", "PUT", "DELETE", "PATCH", "IPATCH"])
    if kind.startswith("obs_decline"):
        # a request asking to observe (Observe: 0) a resource that can be observed in principle but turns this
        # particular request down (does not accept the observation) and answers / fails like any other handler
        q["method"] = r.choice(["GET", "FETCH"])
        if kind == "obs_decline_raise":
            q["cls"] = r.choice(RENDERABLE)
    if kind == "ret_code":
        q["code"] = r.choice(RET_CODES)
    if kind.startswith("raise_renderable"):
        q["cls"] = r.choice(RENDERABLE)
    if kind in ("ret_code", "ret_nocode") and r.chance(0.4):
        # the client declines some response classes (RFC 7967): a response of another class is as due as ever
        q["nr"] = r.choice([0, 2, 8, 16, 10, 18, 24, 26])
    if kind == "wait_weak":
        q["wake"] = r.choice([0.01, 0.2, 0.5, 2.0, 5.0])
    if kind == "raise_generic":
        q["exc"] = r.choice(["RuntimeError", "KeyError", "IndexError", "ValueError", "LookupError", "AttributeError", "TypeError",
                             "OSError", "TimeoutError", "AssertionError", "ZeroDivisionError", "UnicodeDecodeError",
                             "NotImplementedError", "StopAsyncIteration"])
        q["in_cleanup"] = r.chance(0.2)
    return q


def gen(r, tier):
    if r.chance(0.04):
        # the server context is a forward proxy (the handler is the library's own): see C10's proxy family
        from . import c10
        return dict(c10.gen_proxy(r), reqs=[])
    n = r.randint(2, 12)
    reqs = []
    t = 0.0
    for i in range(n):
        t += r.choice([0.0, 0.0, 0.05, 0.2, 1.0])
        q = gen_req(r, i)
        q["t"] = round(t, 4)
        q["client"] = r.randrange(2)
        q["repeat"] = round(r.choice([0.05, 0.15, 0.5]), 3) if (q["con"] and r.chance(0.15)) else None
        if r.chance(0.2):
            # the same request over CoAP-over-TCP (the server listens on both): the handler outcome must be reflected
            # all the same; message types and retransmission do not exist there
            q["tcp"] = True
            q["repeat"] = None
        reqs.append(q)
    # the garbage collector is part of the schedule: it is off while a run proceeds and runs exactly at these times
    gc_at = sorted(round(r.uniform(0, t + 3), 3) for _ in range(r.choice([0, 1, 2, 4])))
    crowd = None
    if r.chance(0.08):
        # many long-lived requests are in processing (parked handlers or established observations, each from another
        # endpoint) while the requests above come in: nothing about them may depend on how many others are pending
        crowd = {"kind": r.choice(["park", "observe"]), "n": r.choice([20, 70, 130, 300]), "release": round(t + 5.0, 3)}
    return {"reqs": reqs, "nosite": r.chance(0.05), "net": faults.swarm(r, kinds=("drop", "dup", "delay")),
            "stall": r.chance(0.1), "gc_at": gc_at, "same_host": r.chance(0.3), "v4": r.chance(0.15), "crowd": crowd}


def systematic(tier):
    out = []
    for org in ("piggy", "sep_con"):
        for d in (0.0, 0.15, 0.5):
            out.append({"proxy": {"reqs": [{"t": 0.0, "con": True, "d": d, "origin": org}, {"t": 1.5, "con": False, "d": d, "origin": org}]},
                        "ops": [], "reqs": []})
    i = 0
    for kind in KINDS:
        variants = [None]
        if kind == "ret_code":
            variants = RET_CODES
        if kind == "raise_generic":
            variants = ["RuntimeError", "KeyError", "LookupError", "AttributeError", "TimeoutError", "OSError", "UnicodeDecodeError"]
        if kind.startswith("raise_renderable"):
            variants = RENDERABLE if (tier == "thorough" or kind == "raise_renderable") else RENDERABLE[::5]
        if kind == "obs_decline_raise":
            variants = RENDERABLE[::5]
        for v in variants:
            for method in (METHODS if tier == "thorough" else ("GET", "POST", "DELETE", "IPATCH")):
                if kind.startswith("obs_decline") and method not in ("GET", "FETCH"):
                    continue
                if kind in FIXED_METHOD:
                    if method != "GET":
                        continue
                    method = FIXED_METHOD[kind]
                for con in (True, False):
                    for slow in (False, True):
                        if tier == "quick" and slow and (i % 3):
                            i += 1
                            continue
                        i += 1
                        q = {"id": 0, "kind": kind, "method": method, "con": con, "slow": slow, "client": 0, "t": 0.0,
                             "repeat": None}
                        if kind == "ret_code":
                            q["code"] = v
                        if kind.startswith("raise_renderable") or kind == "obs_decline_raise":
                            q["cls"] = v
                        if kind == "raise_generic":
                            q["exc"] = v
                            q["in_cleanup"] = (method == "DELETE")
                        if kind == "wait_weak":
                            q["wake"] = 1.0
                        # a well-behaved neighbour before, during and after
                        nb = [{"id": k, "kind": "ret_nocode", "method": "GET", "con": True, "slow": k == 2, "client": 1,
                               "t": tt, "repeat": None} for k, tt in ((1, 0.0), (2, 0.0), (3, 2.0))]
                        out.append({"reqs": [q] + nb, "nosite": False, "net": {}, "stall": False,
                                    "gc_at": [0.5] if kind == "wait_weak" else []})
                        if con and method == "GET":
                            out.append({"reqs": [dict(q, tcp=True)] + nb, "nosite": False, "net": {}, "stall": False,
                                        "gc_at": [0.5] if kind == "wait_weak" else []})
    for con in (True, False):
        out.append({"reqs": [{"id": 0, "kind": "ret_nocode", "method": "GET", "con": con, "slow": False, "client": 0,
                              "t": 0.0, "repeat": None}], "nosite": True, "net": {}, "stall": False})
    for ck in ("park", "observe"):
        for n in ((20, 100) if tier == "quick" else (20, 64, 65, 100, 500)):
            out.append({"reqs": [{"id": k, "kind": kd, "method": "GET", "con": k % 2 == 0, "slow": k == 1, "client": k % 2, "t": 0.5 + k,
                                  "repeat": None, "cls": "NotFound"} for k, kd in enumerate(("ret_nocode", "raise_renderable", "missing"))],
                        "nosite": False, "net": {}, "stall": False, "crowd": {"kind": ck, "n": n, "release": 10.0}})
    return out


def shrink(scn):
    if scn.get("proxy"):
        return
    reqs = scn["reqs"]
    if len(reqs) > 1:
        for i in range(len(reqs)):
            c = dict(scn)
            c["reqs"] = reqs[:i] + reqs[i + 1:]
            yield c
    if any(scn.get("net", {}).values()):
        c = dict(scn)
        c["net"] = {}
        yield c
    if scn.get("crowd"):
        c = dict(scn)
        c["crowd"] = None
        yield c
        if scn["crowd"]["n"] > 2:
            c = dict(scn)
            c["crowd"] = dict(scn["crowd"], n=scn["crowd"]["n"] // 2)
            yield c
    for i, q in enumerate(reqs):
        for key, val in (("slow", False), ("repeat", None)):
            if q.get(key):
                c = dict(scn)
                qq = dict(q)
                qq[key] = val
                c["reqs"] = reqs[:i] + [qq] + reqs[i + 1:]
                yield c


class Client(ScriptedEndpoint):
    def handle(self, msg, src, data):
        if msg is not None and msg["type"] == rc.CON and msg["code"] >= 64:
            self.send(src, msg={"type": rc.ACK, "code": 0, "mid": msg["mid"], "token": b"", "options": [],
                                "payload": b""})


def execute(sim, scn):
    if scn.get("proxy"):
        # one final response a client can use: a response relayed as an ACK under a message ID the client never used is
        # none (a client following RFC 7252 ignores it, and nobody retransmits it)
        from . import c10
        c10.execute_proxy(sim, scn)
        for v in sim.violations:
            if v["kind"].startswith("C10/"):
                v["detail"] = dict(v["detail"], seen_as=v["kind"])
                v["kind"] = "C09/no-usable-final-response"
        return
    import asyncio
    import aiocoap
    import aiocoap.resource as resource
    from aiocoap import Message, error
    from aiocoap.numbers.codes import Code

    loop = sim.loop
    if scn.get("stall"):
        loop.stall_hook = lambda now: sim.decider.get_indexed(
            "stall", 0, lambda r: (round(r.uniform(0.01, 3), 3) if r.chance(0.02) else 0))
    for name in RENDERABLE:
        if not hasattr(error, name):
            raise RuntimeError("aiocoap.error.%s vanished; update the check's class list" % name)
    specs = {q["id"]: q for q in scn["reqs"]}

    class BadRenderer(error.RenderableError):
        def __init__(self, mode):
            self.mode = mode

        def to_message(self):
            if self.mode == "raise":
                raise ValueError(SECRET + " renderer")
            return None

    class Ducky(Exception):
        """no RenderableError, although it quacks like one"""

        def to_message(self):
            return Message(code=Code(rc.CONTENT), payload=(SECRET + " ducky").encode())

    invocations = []
    import gc
    import weakref
    waiters = {}  # request id -> weak reference to the future its handler waits for

    def wake(rid):
        ref = waiters.get(rid)
        fut = ref() if ref is not None else None
        if fut is not None and not fut.done():
            fut.set_result(None)
        else:
            # the handler has not started yet (its request is still on its way): do not wait at all then
            waiters[rid] = None

    def collect():
        sim.probe("gc_ran")
        if any(r is not None and r() is not None for r in waiters.values()):
            sim.probe("gc_while_handler_waits")
        gc.collect()

    def make_exc(q):
        cls = getattr(error, q["cls"])
        if q["kind"].endswith("text"):
            try:
                return cls("custom text %d" % q["id"])
            except TypeError:  # a subclass whose constructor takes no text
                return cls()
        return cls()

    returned_at = {}  # request id -> instant at which its handler returned (kind ret_unserializable)

    class Zoo(resource.Resource):
        async def _do(self, request):
            rid = int(request.opt.uri_query[0][2:])
            q = specs[rid]
            invocations.append((loop.now, rid))
            sim.log("app", "invoke", rid, q["kind"])
            if q["slow"]:
                await asyncio.sleep(0.3)
            k = q["kind"]
            if k == "ret_code":
                return Message(code=Code(q["code"]), payload=b"P%d" % rid)
            if k == "ret_nocode":
                return Message(payload=b"P%d" % rid)
            if k == "raise_renderable":
                raise getattr(error, q["cls"])()
            if k == "raise_renderable_text":
                raise make_exc(q)
            if k == "raise_generic":
                # any exception type the application may let escape; several of them are caught somewhere inside the
                # library for its own purposes (KeyError, LookupError, AttributeError, TimeoutError, OSError ...)
                exc_cls = {"KeyError": KeyError, "IndexError": IndexError, "ValueError": ValueError, "LookupError": LookupError,
                           "AttributeError": AttributeError, "TypeError": TypeError, "OSError": OSError,
                           "TimeoutError": TimeoutError, "AssertionError": AssertionError, "ZeroDivisionError": ZeroDivisionError,
                           "UnicodeDecodeError": None, "NotImplementedError": NotImplementedError,
                           "StopAsyncIteration": StopAsyncIteration}.get(q.get("exc"), RuntimeError)
                if q.get("exc") == "UnicodeDecodeError":
                    raise UnicodeDecodeError("utf-8", (SECRET + " bytes").encode(), 0, 1, SECRET)
                if q.get("in_cleanup"):
                    # an error path of an error path: the handler fails renderably, and its clean-up fails again
                    try:
                        raise error.BadRequest("first failure %d" % rid)
                    finally:
                        raise exc_cls(SECRET + " in clean-up of request %d" % rid)
                raise exc_cls(SECRET + " in request %d" % rid)
            if k == "ret_none":
                return None
            if k == "ret_str":
                return SECRET + " string"
            if k == "ret_int":
                return 42
            if k == "ret_tuple":
                return (Message(payload=b"x"), 1)
            if k == "ret_unserializable":
                # a Message object all right, but one that cannot be put on the wire (text payload)
                returned_at[rid] = loop.now
                return Message(payload=SECRET + " text payload")
            if k == "wait_weak":
                # waits for something that nothing but this very coroutine holds on to strongly (an event source
                # that references its listeners weakly): the request is alive only through the library's own books
                if rid in waiters and waiters[rid] is None:
                    return Message(payload=b"P%d" % rid)
                fut = loop.create_future()
                waiters[rid] = weakref.ref(fut)
                await fut
                return Message(payload=b"P%d" % rid)
            if k == "raise_wrapping":
                # what a handler gets from `await ctx.request(...).response_raising` when ITS backend answered with an
                # error: an exception of the library that can produce a message but is, on purpose, not renderable
                raise error.ResponseWrappingError(Message(code=Code(rc.FORBIDDEN), payload=(SECRET + " backend").encode()))
            if k == "raise_ducky":
                raise Ducky()
            if k == "renderer_raises":
                raise BadRenderer("raise")
            if k == "renderer_none":
                raise BadRenderer("none")
            raise AssertionError("unknown kind")

        render_get = render_post = render_put = render_delete = render_fetch = render_patch = render_ipatch = _do

    class RawRender(resource.Resource):
        """does its own rendering without block-wise assembly and returns something that is no message"""

        async def needs_blockwise_assembly(self, request):
            return False

        async def render(self, request):
            rid = int(request.opt.uri_query[0][2:])
            invocations.append((loop.now, rid))
            if specs[rid]["slow"]:
                await asyncio.sleep(0.3)
            return SECRET + " not a message"

    class Declining(resource.ObservableResource):
        """observable in principle; turns every observation request down (never accepts) and then answers or fails"""

        async def add_observation(self, request, serverobservation):
            sim.probe("observation_declined")

        async def render_get(self, request):
            rid = int(request.opt.uri_query[0][2:])
            q = specs[rid]
            invocations.append((loop.now, rid))
            if q["slow"]:
                await asyncio.sleep(0.3)
            if q["kind"] == "obs_decline_raise":
                raise getattr(error, q["cls"])()
            return Message(payload=b"P%d" % rid)

        render_fetch = render_get

    class Journal(resource.ObservableResource):
        """accepts every observation it is offered; its state changes later on"""

        async def _do(self, request):
            rid = int(request.opt.uri_query[0][2:])
            invocations.append((loop.now, rid))
            if specs[rid]["slow"]:
                await asyncio.sleep(0.3)
            return Message(payload=b"P%d" % rid)

        render_get = render_fetch = render_post = render_put = render_delete = render_patch = render_ipatch = _do

    journal = Journal()
    park_release = []

    class Park(resource.ObservableResource):
        """long-lived requests: handlers parked until released, and regular observations"""

        async def render_get(self, request):
            if request.opt.observe is None:
                fut = loop.create_future()
                park_release.append(fut)
                await fut
            return Message(payload=b"parked")

    class PerInstance(resource.Resource):
        def __init__(self, writable):
            super().__init__()
            if writable:
                self.render_put = self._put

        async def render_get(self, request):
            return Message(payload=b"state")

        async def _put(self, request):
            rid = int(request.opt.uri_query[0][2:])
            invocations.append((loop.now, rid))
            if specs[rid]["slow"]:
                await asyncio.sleep(0.3)
            return Message(payload=b"P%d" % rid)

    class Removed(resource.Resource):
        def __init__(self):
            super().__init__()
            self.render_post = None

        async def render_get(self, request):
            return Message(payload=b"state")

        async def render_post(self, request):
            return Message(payload=b"must not run")

    class Forwarding(resource.Resource):
        """supplies its handlers dynamically"""

        def __getattr__(self, name):
            if name.startswith("render_"):
                return self._any
            raise AttributeError(name)

        async def _any(self, request):
            rid = int(request.opt.uri_query[0][2:])
            invocations.append((loop.now, rid))
            if specs[rid]["slow"]:
                await asyncio.sleep(0.3)
            return Message(payload=b"P%d" % rid)

    class GetOnly(resource.Resource):
        async def render_get(self, request):
            rid = int(request.opt.uri_query[0][2:])
            invocations.append((loop.now, rid))
            if specs[rid]["slow"]:
                await asyncio.sleep(0.3)
            return Message(payload=b"P%d" % rid)

    async def setup():
        site = resource.Site()
        site.add_resource(["zoo"], Zoo())
        site.add_resource(["getonly"], GetOnly())
        site.add_resource(["raw"], RawRender())
        site.add_resource(["declining"], Declining())
        site.add_resource(["inst_w"], PerInstance(True))
        site.add_resource(["inst_r"], PerInstance(False))
        site.add_resource(["removed"], Removed())
        site.add_resource(["forwarding"], Forwarding())
        site.add_resource(["park"], Park())
        site.add_resource(["journal"], journal)
        if not any(q.get("tcp") for q in scn["reqs"]):
            return await sim.server(None if scn.get("nosite") else site, common.SERVER_IP)
        from simkit.stream import SimStreamNet
        loop.streamnet = SimStreamNet(sim)
        ctx = await aiocoap.Context.create_server_context(None if scn.get("nosite") else site, bind=(common.SERVER_IP, 5683),
                                                          transports=["udp6", "tcpserver"], loggername="coap-server")
        sim.contexts.append(ctx)
        return ctx

    loop.run_until_complete(setup())
    tcp_peers = {}

    def tcp_peer(ci):
        from simkit.stream import TcpPeer
        if ci not in tcp_peers:
            p = TcpPeer(sim, "tcp-client#%d" % ci)
            tcp_peers[ci] = p

            async def go():
                await p.connect(common.SERVER_IP, 5683)
                p.write(rc.tcp_encode({"code": rc.CSM, "token": b"", "options": [], "payload": b""}))
            p.ready = loop.create_task(go())
        return tcp_peers[ci]

    for q in scn["reqs"]:
        if q.get("tcp"):
            tcp_peer(q["client"])
            sim.probe("request_over_tcp")
    sim.net.fate_gen = None
    srv = (common.SERVER_IP, 5683)
    if scn.get("same_host"):
        clients = [Client(sim, common.PEER_IPS[0], 5683 + i) for i in range(2)]
    else:
        clients = [Client(sim, common.PEER_IPS[i], 5683) for i in range(2)]
    # faults only on what the server sends (the oracle looks at what the server transmitted)
    fg = faults.fate_gen(scn.get("net", {}))
    if fg is not None:
        def gen_fate(r, entry):
            if entry["src"] == srv:
                return fg(r, entry)
            return ["deliver", 0.005]
        sim.net.fate_gen = gen_fate
    tokens = {}
    for q in scn["reqs"]:
        cl = clients[q["client"]]
        token = bytes([0xD0, q["id"]])
        tokens[q["id"]] = (cl.addr, token)
        path = {"missing": b"nowhere", "get_only": b"getonly", "raw_render_nonmessage": b"raw", "obs_decline_ret": b"declining",
                "obs_decline_raise": b"declining", "inst_put_w": b"inst_w", "inst_put_r": b"inst_r", "removed_post": b"removed",
                "getattr_any": b"forwarding", "obs_modifying": b"journal"}.get(q["kind"], b"zoo")
        m = {"type": rc.CON if q["con"] else rc.NON, "code": METHODS[q["method"]], "mid": 0x100 + q["id"],
             "token": token, "options": ([(rc.OBSERVE, b"")] if q["kind"].startswith("obs_") else []) +
             [(rc.URI_PATH, path), (rc.URI_QUERY, b"r=%d" % q["id"])], "payload": b""}
        if q["kind"] == "obs_modifying":
            sim.probe("modifying_request_with_observe")
            for dt in (1.0, 2.5):
                loop.at(q["t"] + dt, journal.updated_state)
        if q.get("nr") is not None:
            m["options"].append((rc.NO_RESPONSE, rc.uint_bytes(q["nr"])))
        if q.get("tcp"):
            def send_tcp(q=q, m=m):
                p = tcp_peers[q["client"]]

                async def when_connected():
                    await p.ready  # (a stalled loop may have delayed the connection)
                    if p.is_open:
                        p.send({"code": m["code"], "token": m["token"], "options": m["options"], "payload": m["payload"]})
                    if q["kind"] == "wait_weak":
                        loop.after((0.3 if q["slow"] else 0) + q["wake"], wake, q["id"])
                loop.create_task(when_connected())
            loop.at(max(q["t"], 0.01), send_tcp)
            continue
        raw = rc.encode(m)
        cl.send(srv, raw=raw, fate=["at", q["t"]])
        if q["kind"] == "wait_weak":
            loop.at(q["t"] + (0.3 if q["slow"] else 0) + q["wake"], wake, q["id"])
        if q.get("repeat"):
            cl.send(srv, raw=raw, fate=["at", q["t"] + q["repeat"]])
    for tg in scn.get("gc_at", []):
        loop.at(tg, collect)
    crowd = scn.get("crowd") if not scn.get("nosite") else None
    crowd_tokens = []
    if crowd:
        sim.probe("crowd_of_pending_requests")
        if crowd["n"] > 64:
            sim.probe("crowd_above_64")
        crowd_ip = common.PEER_IPS[2]
        for i in range(crowd["n"]):
            ep = Client(sim, crowd_ip, 20000 + i)
            tok = bytes([0xC0, i >> 8, i & 255])
            crowd_tokens.append((ep.addr, tok))
            m = {"type": rc.NON, "code": rc.GET, "mid": 0x4000 + i, "token": tok,
                 "options": ([(rc.OBSERVE, b"")] if crowd["kind"] == "observe" else []) + [(rc.URI_PATH, b"park")], "payload": b""}
            ep.send(srv, raw=rc.encode(m), fate=["at", round(0.001 + i * 0.0001, 6)])

        def release():
            for f in park_release:
                if not f.done():
                    f.set_result(None)
        loop.at(crowd["release"], release)
    if len(scn["reqs"]) > 1:
        ts = sorted(q["t"] for q in scn["reqs"])
        if any(b - a < 0.3 for a, b in zip(ts, ts[1:])):
            sim.probe("concurrent_neighbours")

    sim.run()

    wire = sim.net.wire

    def gave_up_towards(addr):
        by_mid = {}
        for e in wire:
            if e["src"] == srv and e["dst"] == addr and e["msg"] is not None and e["msg"]["type"] == rc.CON:
                by_mid.setdefault(e["msg"]["mid"], []).append(e)
        for mid, txs in by_mid.items():
            if len(txs) >= 5 and not any(d[2] for e in txs for d in e["deliveries"]):
                return True
        return False

    def open_exchange_at(addr, t):
        """Was a confirmable message of the server to `addr` still unacknowledged at instant t (so that a further
        confirmable message to that endpoint was held back by NSTART)?"""
        if t is None:
            return False
        first = {}
        for e in wire:
            if e["src"] == srv and e["dst"] == addr and e["msg"] is not None and e["msg"]["type"] == rc.CON:
                first.setdefault(e["msg"]["mid"], e["t"])
        for mid, t0 in first.items():
            if t0 > t + 1e-9:
                continue
            ended = False
            for e in wire:
                if e["src"] == addr and e["dst"] == srv and e["msg"] is not None and e["msg"]["type"] in (rc.ACK, rc.RST) \
                        and e["msg"]["mid"] == mid:
                    if any(d[2] and d[0] <= t + 1e-9 for d in e["deliveries"]):
                        ended = True
            if not ended:
                return True
        return False

    for e in wire:
        if e["src"] == srv and SECRET.encode() in e["data"]:
            sim.violation("C09/exception-text-leaked", {"t": e["t"], "datagram": e["data"].hex()[:200]})
            break
    from simkit.stream import split_frames
    tcp_rx = {}
    for ci, p in tcp_peers.items():
        frames, _rest = split_frames(p.rx)
        tcp_rx[ci] = [{"msg": dict(m, type=None), "data": bytes(p.rx[a:b]), "t": None} for (a, b, m, err) in frames if m is not None]
        if SECRET.encode() in bytes(p.rx):
            sim.violation("C09/exception-text-leaked", {"transport": "tcp", "stream": bytes(p.rx).hex()[:200]})
    for (caddr, ctok) in crowd_tokens:
        resp = {e["data"] for e in wire if e["src"] == srv and e["dst"] == caddr and e["msg"] is not None
                and e["msg"]["token"] == ctok and e["msg"]["code"] >= 64}
        if len(resp) != 1:
            sim.violation("C09/no-final-response" if not resp else "C09/more-than-one-final-response",
                          {"req": "one of %d long-lived requests (%s)" % (crowd["n"], crowd["kind"]), "member": ctok[1] * 256 + ctok[2],
                           "n": len(resp)})
            break
    for q in scn["reqs"]:
        cl_addr, token = tokens[q["id"]]
        ident = {"req": q["id"], "kind": q["kind"], "method": q["method"], "con": q["con"], "slow": q["slow"],
                 "cls": q.get("cls")}
        if q.get("tcp"):
            ident["transport"] = "tcp"
        resp = [e for e in wire if e["src"] == srv and e["dst"] == cl_addr and e["msg"] is not None
                and e["msg"]["token"] == token and e["msg"]["code"] >= 64]
        if q.get("tcp"):
            resp = [e for e in tcp_rx.get(q["client"], []) if e["msg"]["token"] == token and 64 <= e["msg"]["code"] < 224]
        distinct = []
        for e in resp:
            if e["data"] not in [d["data"] for d in distinct]:
                distinct.append(e)
        if q.get("tcp"):
            distinct = list(resp)  # a stream neither loses nor repeats: every frame counts
        if q.get("nr") is not None and q["kind"] in ("ret_code", "ret_nocode") and not scn.get("nosite"):
            cls_ = (q["code"] >> 5) if q["kind"] == "ret_code" else 2
            if q["nr"] & (1 << (cls_ - 1)):
                sim.probe("response_declined_by_client")
                if distinct:
                    sim.violation("C09/declined-response-sent", dict(ident, no_response=q["nr"], n=len(distinct)))
                continue
            sim.probe("other_class_declined_response_due")
            ident["no_response"] = q["nr"]
        if not distinct and not q.get("tcp") and gave_up_towards(cl_addr):
            # all five copies of an earlier confirmable response to this client were lost: the message layer reports a
            # transport failure for the endpoint and drops what was held back for it (NSTART).  Narrow relaxation.
            sim.anomaly("response-dropped-after-give-up-towards-client", q["kind"])
            continue
        if not distinct and q["kind"] == "ret_unserializable" and q["slow"] and q["con"] and not q.get("tcp") and \
                open_exchange_at(cl_addr, returned_at.get(q["id"])):
            # known finding: the message is only serialised when it is put on the wire; for a separate (confirmable)
            # response that happens after send_message returned, so the failure is not turned into a 5.00
            sim.violation("C09/unserializable-separate-response-unanswered", dict(ident))
            continue
        if len(distinct) != 1:
            sim.violation("C09/no-final-response" if not distinct else "C09/more-than-one-final-response",
                          dict(ident, n=len(distinct), responses=[rc.summary(e["msg"]) for e in distinct][:4]))
            continue
        m = distinct[0]["msg"]
        k = q["kind"]
        exp_code = None
        exp_payload = None
        if scn.get("nosite"):
            sim.probe("not_a_server")
            exp_code = rc.NOT_FOUND
        elif k == "missing":
            sim.probe("not_found")
            exp_code = rc.NOT_FOUND
        elif k == "get_only":
            if q["method"] == "GET":
                exp_code, exp_payload = rc.CONTENT, b"P%d" % q["id"]
            else:
                sim.probe("method_not_allowed")
                exp_code = rc.METHOD_NOT_ALLOWED
        elif k == "ret_code":
            exp_code, exp_payload = q["code"], b"P%d" % q["id"]
        elif k == "obs_modifying":
            exp_code = {"GET": rc.CONTENT, "FETCH": rc.CONTENT, "DELETE": rc.DELETED}.get(q["method"], rc.CHANGED)
            exp_payload = b"P%d" % q["id"]
            runs = [x for x in invocations if x[1] == q["id"]]
            if len(runs) > 1:
                sim.violation("C09/handler-ran-again-for-answered-request", dict(ident, times=[x[0] for x in runs]))
        elif k in ("inst_put_w", "getattr_any"):
            sim.probe("handler_on_instance")
            exp_code = {"GET": rc.CONTENT, "FETCH": rc.CONTENT, "DELETE": rc.DELETED}.get(q["method"], rc.CHANGED)
            exp_payload = b"P%d" % q["id"]
        elif k in ("inst_put_r", "removed_post"):
            sim.probe("method_not_allowed")
            exp_code = rc.METHOD_NOT_ALLOWED
        elif k == "obs_decline_ret":
            exp_code, exp_payload = rc.CONTENT, b"P%d" % q["id"]
        elif k == "obs_decline_raise":
            sim.probe("renderable_error")
            inst = getattr(error, q["cls"])()
            exp_code = int(inst.code)
            exp_payload = inst.message.encode("utf8")
        elif k in ("ret_nocode", "wait_weak"):
            sim.probe("default_code")
            exp_code = {"GET": rc.CONTENT, "FETCH": rc.CONTENT, "DELETE": rc.DELETED}.get(q["method"], rc.CHANGED)
            exp_payload = b"P%d" % q["id"]
        elif k in ("raise_renderable", "raise_renderable_text"):
            sim.probe("renderable_error")
            inst = make_exc(q)
            exp_code = int(inst.code)
            exp_payload = inst.message.encode("utf8")
        else:
            sim.probe({"raise_generic": "generic_exception", "renderer_raises": "failing_renderer",
                       "renderer_none": "failing_renderer", "raise_wrapping": "non_renderable_with_to_message",
                       "raise_ducky": "non_renderable_with_to_message"}.get(k, "wrong_return_type"))
            if q["slow"]:
                sim.probe("slow_failure")
            exp_code, exp_payload = rc.INTERNAL_SERVER_ERROR, b""
        if k not in ("ret_code", "ret_nocode", "get_only") or (k == "get_only" and q["method"] != "GET"):
            sim.nontrivial = True
        if m["code"] != exp_code:
            sim.violation("C09/wrong-response-code", dict(ident, got=rc.code_str(m["code"]), expected=rc.code_str(exp_code)))
        elif exp_payload is not None and m["payload"] != exp_payload:
            if exp_code == rc.INTERNAL_SERVER_ERROR and k not in ("raise_renderable", "raise_renderable_text"):
                sim.violation("C09/bare-500-has-payload", dict(ident, payload=m["payload"].hex()[:80]))
            else:
                sim.violation("C09/wrong-response-payload", dict(ident, got=m["payload"].hex()[:80],
                                                                expected=exp_payload.hex()[:80]))
        # type discipline of the final response
        if not q["con"] and not q.get("tcp") and m["type"] != rc.NON:
            sim.violation("C09/non-request-answered-with-other-type", dict(ident, type=m["type"]))
    for (t, m, en, es) in sim.loop_exceptions():
        sim.anomaly("loop-exception:%s" % en, "%s %s" % (m, es))
        if SECRET in (es or ""):
            # a handler failure surfacing in the event loop instead of a response
            sim.violation("C09/handler-exception-escaped-to-loop", {"exc": en, "text": es[:100]})
