"""C19 -- the file server never touches anything outside its root directory.

System: the REAL aiocoap server context hosting the REAL
`aiocoap.cli.fileserver.FileServer(root=SimPath("/srv/root"), log, write=...)`
(constructed and refreshed the way `FileServerProgram.start_with_options`
does) on the simulated UDP network, over an in-memory `SimFS` tree with canary
objects outside the root.  Requests come from a scripted client speaking
through the independent reference codec (every Uri-Path byte is under the
scenario's control) and, for block-wise downloads, also from a real aiocoap
client context.

Oracle input is the SimFS operation journal (every path argument of every
file-system call the server made), the responses as seen on the client side,
and snapshots of the tree.
"""

import asyncio
import hashlib
import posixpath
import re
from urllib.parse import unquote

from simkit import faults
from simkit import fs_path
from simkit import refcodec as rc
from simkit.net import ScriptedEndpoint
from . import common

PROPERTY = "C19"
LEVEL = "exploration"
RUNS = {"quick": 2500, "thorough": 80000}
BUDGET = {"quick": 80, "thorough": 3000}
RULE = ("seeded scenarios: 3-30 operations against one file server (write on/off) over a tree with boundary-size "
        "files and canaries outside the root: requests of every method with Uri-Path lists drawn from a hostile "
        "alphabet ('', '.', '..', 'a/b', '/', NUL, %2e%2e, 255/300-byte, non-ASCII, names of inside and outside "
        "entries) and random Unicode, conditional options (If-Match/If-None-Match/ETag, learned or stale), Block2 "
        "with SZX 0-7 and arbitrary NUM, Block1 uploads, observe with RST/ACK, scripted and real-client block-wise "
        "downloads, under loss/dup/delay; systematic grid = every Uri-Path list of length <= 3 over the alphabet x "
        "{GET, PUT, DELETE} x write on/off (+ other methods for length <= 2). Non-trivial = a fault fired or the run "
        "contains a hostile path, a conditional, a block-wise or an observe operation; distinct = distinct hash of "
        "(operation shape, response code, file-system operations, datagram fates).")
COMPONENTS_REAL = ["aiocoap.cli.fileserver.FileServer", "aiocoap.resource", "aiocoap.interfaces", "aiocoap.blockwise",
                   "aiocoap.protocol", "aiocoap.messagemanager", "aiocoap.tokenmanager", "aiocoap.message",
                   "aiocoap.options", "aiocoap.optiontypes", "aiocoap.transports.udp6",
                   "aiocoap.util.asyncio.recvmsg", "pathlib.PurePosixPath arithmetic", "mimetypes"]
COMPONENTS_STUB = ["file system (SimFS: in-memory tree, kernel-like path walking, journal)",
                   "pathlib.Path I/O methods (SimPath)", "tempfile.NamedTemporaryFile (on SimFS)",
                   "UDP socket (SimSocket)", "name resolution", "module random of messagemanager/tokenmanager",
                   "scripted client (reference codec)", "event loop clock (virtual)",
                   "worker threads (loop.run_in_executor: simulated jobs with seeded latency; unused by the unmodified code)"]
ASSUMPTIONS = ["SimFS resolves paths like a POSIX kernel without symbolic links (lexical normalisation == physical "
               "resolution); symlink escapes are out of scope",
               "the file server is the only writer of the tree (the module's own documented precondition)",
               "datagram delay is bounded by 0.5 s so that operations of the sequential scripted client never "
               "overlap on the server; an operation whose responses were all lost is treated as indeterminate "
               "(either outcome accepted)",
               "iterdir order is insertion order; temporary file names are deterministic stand-ins"]
EXPECTED_PROBES = ["hostile_op", "put_ok", "delete_ok", "get_file_ok", "listing_ok", "precondition_failed",
                   "valid_2_03", "fetch_ok", "rfetch_ok", "notification", "nul_path", "block2_beyond_eof",
                   "block1_put", "enametoolong", "forbidden_ro", "indeterminate", "error_5xx", "tfetch_ok", "bert_block"]

ROOT = "/srv/root"
SERVER = (common.SERVER_IP, 5683)
RTX = 1.5
MAXTX = 5
MAX_PER_KIND = 3

GET, POST, PUT, DELETE, FETCH, PATCH, IPATCH = 1, 2, 3, 4, 5, 6, 7
METHOD_NAMES = {1: "GET", 2: "POST", 3: "PUT", 4: "DELETE", 5: "FETCH", 6: "PATCH", 7: "iPATCH"}

LONG255 = "y" * 255
LONG300 = "x" * 300
NONASCII = "ä€\U0001F600"

# the hostile alphabet of DESIGN 7/C19
ALPHABET_FULL = ["", ".", "..", "a", "a/b", "/", "etc", "passwd", "\0", "a\0b", "%2e%2e", "%2f", LONG300, LONG255,
                 NONASCII, "f1", "d", "srv", "root", "root2", "rootfile", "tmp", "x", "...",
                 # compatibility look-alikes of the path-significant characters (full-width solidus / full stop, two dot
                 # leader, one dot leader): harmless as they are, dangerous if anything normalises after validation
                 "\u2025\uff0fsecret", "\uff0fetc\uff0fpasswd", "\uff0e\uff0e", "\u2025", "\u2025\uff0froot2\uff0fsecret"]
ALPHABET_QUICK = ["", ".", "..", "a", "a/b", "/", "etc", "passwd", "\0", "%2e%2e", "srv", "rootfile", "f1"]

STD_TREE = {
    "dirs": ["a", "a/sub", "d", "empty", "etc", "srv", "tmp", "ä"],
    "files": [["f0", 0, 1], ["f1", 1, 2], ["f15", 15, 3], ["f16", 16, 4], ["f17", 17, 5], ["f1023", 1023, 6],
              ["f1024", 1024, 7], ["f1025", 1025, 8], ["big", 5000, 9], ["a/b", 100, 10],
              ["a/sub/deep", 2049, 11], ["d/x.txt", 33, 12], ["etc/passwd", 40, 13], ["%2e%2e", 12, 14],
              ["x", 7, 15], ["ä/ö€", 64, 16], ["srv/rootfile", 5, 17]],
}
# objects OUTSIDE the root; /srv/root2 and /srv/rootfile share the root's name prefix
CANARY_FILES = ["/etc/passwd", "/etc/shadow", "/tmp/x", "/srv/root2/secret", "/srv/rootfile", "/srv/other/y",
                "/x", "/a/b", "/f1", "/passwd"]
CANARY_DIRS = ["/srv/root2/sub", "/var/empty"]


def body(seed, size):
    out = bytearray()
    i = 0
    while len(out) < size:
        out += hashlib.sha256(b"%d:%d" % (seed, i)).digest()
        i += 1
    return bytes(out[:size])


def canary_body(path):
    return b"CANARY:" + path.encode() + b":" + hashlib.sha256(path.encode()).hexdigest().encode()


def is_plain(path):
    """Uri-Path lists whose meaning is beyond doubt: a chain of ordinary names."""
    for c in path:
        if c in ("", ".", "..") or "/" in c or "\0" in c or len(c.encode("utf-8")) > 255:
            return False
    return True


def bsize(szx):
    return 1 << (min(szx, 6) + 4)


# ------------------------------------------------------------------ generation


def zero_net():
    return {"p_drop": 0.0, "p_dup": 0.0, "p_delay": 0.0, "p_reorder": 0.0, "p_bounce": 0.0, "p_corrupt": 0.0,
            "delay_max": 0.05}


def scn(ops, write=False, tree=None, net=None):
    return {"ops": ops, "write": write, "tree": tree or STD_TREE, "net": net or zero_net()}


def req(m, path, **kw):
    d = {"op": "req", "m": m, "path": list(path)}
    d.update(kw)
    return d


EXISTING_FILES = [f[0].split("/") for f in STD_TREE["files"]]
EXISTING_DIRS = [d.split("/") for d in STD_TREE["dirs"]]
UNI_POOL = list("abzAZ09._-~ %/\\\0\n:;<>,\"'") + ["é", "€", "\U0001F600", "‮", "́", "﻿", "..", "\uff0f", "\u2025",
                                                       "\uff0e", "\u2024"]


def gen_component(r):
    x = r.random()
    if x < 0.7:
        return r.choice(ALPHABET_FULL)
    if x < 0.8:
        return r.choice(["etc", "passwd", "shadow", "tmp", "x", "srv", "root", "root2", "rootfile", "secret",
                         "other", "y"])
    return "".join(r.choice(UNI_POOL) for _ in range(r.randint(1, 6)))


def gen_hostile_path(r):
    x = r.random()
    if x < 0.25:
        # aimed at an outside object, through one of the classic ways
        target = r.choice(CANARY_FILES + CANARY_DIRS + ["/srv/root2", "/etc", "/", "/tmp/new", "/srv/root2/new"])
        comps = [c for c in target.split("/") if c]
        way = r.choice(["abs", "abs", "dotdot", "slash", "abs2", "mixed"])
        if way == "abs":
            return [""] + comps
        if way == "abs2":
            return ["", ""] + comps
        if way == "dotdot":
            return [".."] * r.randint(1, 4) + comps
        if way == "slash":
            return [target]
        return r.choice(EXISTING_DIRS) + ["", ".."] + comps
    n = r.choice([0, 1, 1, 2, 2, 3, 3, 4, 5])
    return [gen_component(r) for _ in range(n)]


def gen_plain_path(r):
    x = r.random()
    if x < 0.55:
        return list(r.choice(EXISTING_FILES))
    if x < 0.7:
        return list(r.choice(EXISTING_DIRS)) + ([""] if r.chance(0.7) else [])
    if x < 0.75:
        return [] if r.chance(0.5) else [""]
    base = list(r.choice(EXISTING_DIRS + [[]]))
    return base + [r.choice(["new", "n2", "f1", "Néw", LONG255, "new.txt", "tmpfile"])]


def gen_etag_spec(r):
    return r.choice(["cur", "cur", "cur", "hex:00", "hex:0102030405060708", ""])


def gen_req(r, hostile):
    path = gen_hostile_path(r) if hostile else gen_plain_path(r)
    m = r.weighted([(5, GET), (4, PUT), (3, DELETE), (0.5, POST), (0.5, FETCH), (0.3, PATCH), (0.3, IPATCH)])
    op = req(m, path)
    if m in (PUT, POST, FETCH, PATCH, IPATCH):
        size = r.choice([0, 1, 5, 16, 17, 100, 1024, 1100, 1500, 3000])
        op["payload"] = [r.randint(100, 999), size]
        if size > 1024 or r.chance(0.15):
            op["b1szx"] = r.randint(0, 6)
    if r.chance(0.3):
        if m == GET:
            op["etag"] = [gen_etag_spec(r) for _ in range(r.randint(1, 2))]
        else:
            if r.chance(0.6):
                op["if_match"] = [gen_etag_spec(r) for _ in range(r.randint(1, 2))]
            else:
                op["if_none_match"] = True
    if m == GET and r.chance(0.4):
        szx = r.randint(0, 7)
        num = r.choice([0, 0, 1, 2, 3, r.randint(0, 400), 1048575])
        op["block2"] = [num, szx]
    return op


def gen(r, tier):
    write = r.chance(0.65)
    tree = STD_TREE
    if r.chance(0.25):
        tree = {"dirs": list(STD_TREE["dirs"]), "files": [list(f) for f in STD_TREE["files"]]}
        for _ in range(r.randint(1, 4)):
            d = r.choice(STD_TREE["dirs"] + [""])
            name = r.choice(["n", "q.json", "z.bin", "passwd", "ü"]) + str(r.randint(0, 9))
            tree["files"].append([(d + "/" if d else "") + name, r.choice([0, 1, 15, 16, 17, 31, 32, 33, 63, 64, 65,
                                                                         127, 128, 129, 255, 256, 257, 511, 512,
                                                                         513, 1023, 1024, 1025, 2047, 2048, 2049,
                                                                         4096, r.randint(0, 6000)]),
                                  r.randint(20, 99)])
    n = r.randint(3, 30)
    ops = []
    observed = False
    for _ in range(n):
        x = r.random()
        if x < 0.33:
            ops.append(gen_req(r, hostile=True))
        elif x < 0.68:
            ops.append(gen_req(r, hostile=False))
        elif x < 0.74:
            f = r.choice(tree["files"])
            ops.append({"op": "fetch", "path": f[0].split("/"), "szx": r.randint(0, 7)})
        elif x < 0.78:
            # random access to one file: block after block, each request with a block size of its own (what two
            # interleaved downloads with different sizes, or a client that changes its mind, look like)
            f = r.choice([g for g in tree["files"] if g[1] >= 64] or tree["files"])
            num, szx = r.choice([0, 0, 1, 2]), r.randint(0, 6)
            for _k in range(r.randint(2, 5)):
                ops.append(req(GET, f[0].split("/"), block2=[num, szx]))
                y = r.random()
                if y < 0.6:
                    num, szx = num + 1, r.choice([s_ for s_ in range(0, 7) if s_ != szx])
                elif y < 0.8:
                    num = num + 1
                else:
                    num, szx = r.choice([0, 1, 2, 3]), r.randint(0, 6)
        elif x < 0.82:
            f = r.choice(tree["files"])
            ops.append({"op": "rfetch", "path": f[0].split("/"), "szx": r.randint(0, 6), "wait": r.chance(0.6)})
            if write and r.chance(0.6):
                # ... and somebody replaces that very file while the download is under way
                ops[-1]["wait"] = False
                if r.chance(0.5):
                    ops.append({"op": "sleep", "d": r.choice([0.01, 0.02, 0.03, 0.05])})
                ops.append(req(PUT, f[0].split("/"), payload=[r.randint(100, 999), r.choice([min(f[1], 1024), 1023, 17, 700, 1024])]))
        elif x < 0.85:
            # the same server over CoAP-over-TCP (aiocoap-fileserver listens there too): a peer that announced
            # block-wise transfer and a Max-Message-Size gets BERT blocks (SZX 7: several KiB per message, block
            # numbers counting KiB)
            f = r.choice([g for g in tree["files"] if g[1] >= 1024] or tree["files"])
            ops.append({"op": "tfetch", "path": f[0].split("/"), "mms": r.choice([1152, 2300, 3400, 8320, 70000]),
                        "szx": r.choice([7, 7, 6, 4, None])})
        elif x < 0.93:
            path = gen_hostile_path(r) if r.chance(0.3) else list(r.choice(EXISTING_FILES))
            o = req(GET, path, observe=0)
            if r.chance(0.3):
                o["rst_after"] = r.randint(0, 2)
            if r.chance(0.3):
                o["block2"] = [0, r.randint(0, 6)]
            ops.append(o)
            observed = True
            if is_plain(path) and r.chance(0.6):
                # change (or remove) the observed file and give the 10 s refresh poll time to notice
                if r.chance(0.8):
                    ops.append(req(PUT, path, payload=[r.randint(100, 999), r.choice([0, 1, 17, 64, 65, 700, 1024])]))
                else:
                    ops.append(req(DELETE, path))
                ops.append({"op": "sleep", "d": r.choice([10.5, 11.0, 21.0])})
        else:
            ops.append({"op": "sleep", "d": r.choice([0.5, 5.0, 11.0, 21.0])})
        if observed and r.chance(0.2):
            ops.append({"op": "sleep", "d": 11.0})
    if not write:
        # a read-only server: modifying requests that also ask to observe (Observe: 0 takes another way through the
        # library than plain requests do)
        for o in ops:
            if o.get("op") == "req" and o["m"] != GET and o.get("b1szx") is None and o.get("observe") is None and r.chance(0.3):
                o["observe"] = 0
                o["rst_after"] = 0
    elif r.chance(0.3):
        # a writable server: a modifying request that also carries Observe: 0 (a client library that sets the option on
        # whatever it sends) is carried out once, like any other; somebody else changes the file afterwards, and the
        # server's 10 s refresh poll comes round
        cand = [i for i, o in enumerate(ops) if o.get("op") == "req" and o["m"] in (PUT, DELETE) and o.get("b1szx") is None
                and o.get("observe") is None and is_plain(o["path"])]
        if cand:
            i = r.choice(cand)
            ops[i]["observe"] = 0
            tail = [req(PUT, ops[i]["path"], payload=[r.randint(100, 999), r.choice([5, 17, 100])]),
                    {"op": "sleep", "d": r.choice([10.5, 21.0])}]
            ops[i + 1:i + 1] = tail
    net = faults.swarm(r, kinds=("drop", "dup", "delay"))
    net["delay_max"] = min(net.get("delay_max", 0.5), 0.5)
    out = scn(ops, write=write, tree=tree, net=net)
    # how long a job handed to a worker thread (loop.run_in_executor) takes to come back, should the server use any
    out["exec"] = r.choice([0.0005, 0.004, 0.015, 0.03])
    return out


def _all_lists(alphabet, maxlen):
    out = [[]]
    level = [[]]
    for _ in range(maxlen):
        level = [p + [c] for p in level for c in alphabet]
        out += level
    return out


def systematic(tier):
    alpha3 = ALPHABET_FULL if tier == "thorough" else ALPHABET_QUICK
    out = []
    for write in (False, True):
        # length <= 2 over the full alphabet, every method
        short = _all_lists(ALPHABET_FULL, 2)
        for m in (GET, PUT, DELETE, POST, FETCH, PATCH, IPATCH):
            if m not in (GET, PUT, DELETE) and tier != "thorough":
                lists = _all_lists(ALPHABET_FULL, 1)
            else:
                lists = short
            ops = []
            for p in lists:
                o = req(m, p)
                if m != GET and m != DELETE:
                    o["payload"] = [len(ops) % 900 + 100, 5]
                ops.append(o)
            for i in range(0, len(ops), 150):
                s = scn(ops[i:i + 150], write=write)
                s["origin"] = "systematic:len<=2:%s:%s:%d" % (METHOD_NAMES[m], "rw" if write else "ro", i)
                out.append(s)
        # length 3
        for m in (GET, PUT, DELETE):
            for c0 in alpha3:
                ops = []
                for c1 in alpha3:
                    for c2 in alpha3:
                        o = req(m, [c0, c1, c2])
                        if m == PUT:
                            o["payload"] = [len(ops) % 900 + 100, 5]
                        ops.append(o)
                for i in range(0, len(ops), 200):
                    s = scn(ops[i:i + 200], write=write)
                    s["origin"] = "systematic:len3:%s:%s:%r:%d" % (METHOD_NAMES[m], "rw" if write else "ro", c0, i)
                    out.append(s)
    return out


def corpus():
    out = []

    def add(name, ops, **kw):
        s = scn(ops, **kw)
        s["origin"] = "corpus:" + name
        out.append(s)

    P = [501, 9]
    # 1. the leading empty component (absolute join), reads
    add("abs-join-get", [req(GET, ["", "etc", "passwd"])])
    add("abs-join-list-root", [req(GET, ["", ""]), req(GET, ["", "etc", ""]), req(GET, ["", "srv", "root2", ""])])
    add("abs-join-observe", [req(GET, ["", "tmp", "x"], observe=0), {"op": "sleep", "d": 25.0}])
    add("abs-join-fetch", [{"op": "fetch", "path": ["", "etc", "passwd"], "szx": 0}])
    # 2. ... and writes
    add("abs-join-put-delete", [req(PUT, ["", "tmp", "x"], payload=P), req(PUT, ["", "tmp", "new"], payload=P),
                                req(DELETE, ["", "etc", "passwd"]), req(PUT, ["", "etc", "passwd"], payload=P)],
        write=True)
    add("abs-join-put-delete-ro", [req(PUT, ["", "tmp", "x"], payload=P), req(DELETE, ["", "etc", "passwd"])])
    add("abs-join-conditional", [req(PUT, ["", "tmp", "x"], payload=P, if_none_match=True),
                                 req(PUT, ["", "tmp", "x"], payload=P, if_match=["hex:00"]),
                                 req(DELETE, ["", "tmp", "x"], if_match=["hex:00"]),
                                 req(GET, ["", "tmp", "x"], etag=["hex:00"])], write=True)
    # 3. siblings sharing the root's name prefix
    add("prefix-sibling", [req(GET, ["", "srv", "rootfile"]), req(GET, ["", "srv", "root2", "secret"]),
                           req(GET, ["", "srv", "root2"]), req(GET, ["", "srv", "root2", ""]),
                           req(GET, ["..", "root2", "secret"]), req(GET, ["..", "rootfile"]),
                           req(GET, ["../rootfile"]), req(GET, ["/srv/root2/secret"])])
    add("prefix-sibling-write", [req(PUT, ["", "srv", "rootfile"], payload=P),
                                 req(PUT, ["", "srv", "root2", "new"], payload=P),
                                 req(DELETE, ["", "srv", "root2", "secret"]),
                                 req(DELETE, ["..", "rootfile"])], write=True)
    # 4. dot-dot, dot, embedded slashes in every position
    dd = [[".."], ["."], ["..", ".."], ["..", "..", "etc", "passwd"], ["a", "..", "..", "rootfile"],
          ["a", "sub", "..", "..", "..", "..", "tmp", "x"], ["a/../../rootfile"], ["/etc/passwd"], ["a", "/etc/passwd"],
          ["a/b"], ["a/"], ["/"], ["/", "etc", "passwd"], ["//etc/passwd"], ["a", ".", "b"], ["a", "", "b"],
          ["a", "b", ""], ["", "srv", "root", "f1"], ["%2e%2e", "%2e%2e", "etc", "passwd"], ["%2e%2e"],
          ["..%2f..%2fetc%2fpasswd"], ["...", "etc"], ["a", "sub", "..", "b"], ["nonexistent", "..", "f1"],
          ["f1", "..", "f1"], ["f1", "."], ["f1", ""]]
    add("dotdot-get", [req(GET, p) for p in dd])
    add("dotdot-put", [req(PUT, p, payload=P) for p in dd], write=True)
    add("dotdot-delete", [req(DELETE, p) for p in dd], write=True)
    # 5. NUL and other special characters
    nul = [["\0"], ["f1\0"], ["\0f1"], ["a\0b"], ["a", "\0"], ["", "etc", "passwd\0"], ["", "etc\0", "passwd"],
           ["f1\0.txt"], ["\n"], [" "], ["\\"], ["a\\..\\..\\etc"], ["‮"], [NONASCII], ["ä", "ö€"],
           ["ä", ""], [LONG255], [LONG255 + "y"], [LONG300], ["a", LONG300, "b"], [LONG255] * 3]
    add("special-get", [req(GET, p) for p in nul])
    add("special-put-delete", [x for p in nul for x in (req(PUT, p, payload=P), req(GET, p), req(DELETE, p))],
        write=True)
    # 6. block boundaries: every boundary size with every SZX, scripted and real client
    sizes = ["f0", "f1", "f15", "f16", "f17", "f1023", "f1024", "f1025", "big"]
    for szx in range(8):
        add("fetch-szx%d" % szx, [{"op": "fetch", "path": [f], "szx": szx} for f in sizes] +
            [{"op": "fetch", "path": ["a", "sub", "deep"], "szx": szx}])
    add("rfetch-all-szx", [{"op": "rfetch", "path": [f], "szx": szx, "wait": True}
                           for f in ("f0", "f16", "f1024", "f1025", "big") for szx in range(7)])
    nums = []
    for f, size in (("f0", 0), ("f16", 16), ("f17", 17), ("f1024", 1024), ("f1025", 1025), ("big", 5000)):
        for szx in (0, 3, 6, 7):
            bs = bsize(szx)
            for num in sorted({0, max(0, size // bs - 1), size // bs, size // bs + 1, size // bs + 2, 4095, 1048575}):
                nums.append(req(GET, [f], block2=[num, szx]))
    add("block2-arbitrary-num", nums)
    # consecutive block numbers with different block sizes (interleaved downloads / random access)
    for f in ("big", "f1025"):
        pairs = []
        for s1 in range(0, 7):
            for s2 in range(0, 7):
                if s1 != s2:
                    pairs += [req(GET, [f], block2=[0, s1]), req(GET, [f], block2=[1, s2])]
        add("block2-consecutive-mixed-size-%s" % f, pairs)
    # over TCP with BERT blocks: every Max-Message-Size class x requested size, on files of several KiB
    bigtree = {"dirs": list(STD_TREE["dirs"]), "files": [list(f) for f in STD_TREE["files"]] + [["huge", 20000, 41], ["k8", 8192, 42],
                                                                                              ["k8p", 8193, 43]]}
    add("tcp-bert-fetch", [{"op": "tfetch", "path": [f], "mms": mms, "szx": szx}
                           for f in ("huge", "k8", "k8p", "big", "f1024", "f0")
                           for mms in (1152, 2300, 8320, 70000) for szx in (7, None, 6)], tree=bigtree)
    add("block2-on-listing", [req(GET, [], block2=[n, s]) for s in (0, 2, 6) for n in (0, 1, 2, 50)] +
        [req(GET, ["a", ""], block2=[0, 0]), req(GET, ["a", ""], block2=[1, 0])])
    # 7. create / read / conditional update / delete cycle
    cyc = [req(PUT, ["new"], payload=[601, 20], if_none_match=True), req(GET, ["new"], etag=["hex:00"]),
           req(PUT, ["new"], payload=[602, 21], if_none_match=True), req(PUT, ["new"], payload=[603, 22],
                                                                        if_match=["cur"]),
           req(GET, ["new"], etag=["cur"]), req(PUT, ["new"], payload=[604, 23], if_match=["hex:0102"]),
           req(PUT, ["new"], payload=[605, 24], if_match=[""]), req(GET, ["new"]), req(GET, [""]),
           req(DELETE, ["new"], if_match=["hex:0102"]), req(DELETE, ["new"], if_match=["cur"]),
           req(DELETE, ["new"]), req(GET, ["new"]), req(PUT, ["absent"], payload=[606, 5], if_match=["hex:00"]),
           req(DELETE, ["absent"], if_match=["hex:00"]), req(PUT, ["a", "sub", "n"], payload=[607, 1025]),
           {"op": "fetch", "path": ["a", "sub", "n"], "szx": 2}, req(PUT, ["f1024"], payload=[608, 0]),
           req(GET, ["f1024"]), req(PUT, ["f0"], payload=[609, 1100]), {"op": "fetch", "path": ["f0"], "szx": 5}]
    add("cycle-rw", cyc, write=True)
    add("cycle-ro", cyc, write=False)
    # 8. uploads through Block1, then block-wise download
    add("block1-upload", [req(PUT, ["up"], payload=[610, 3000], b1szx=6), {"op": "fetch", "path": ["up"], "szx": 4},
                          req(PUT, ["up"], payload=[611, 100], b1szx=0), req(GET, ["up"]),
                          req(PUT, ["", "tmp", "up"], payload=[612, 2000], b1szx=5),
                          {"op": "rfetch", "path": ["up"], "szx": 1, "wait": True}], write=True)
    # 9. writes aimed at directories, below files, below missing directories, methods without handler
    odd = [req(PUT, ["d"], payload=P), req(PUT, ["d", ""], payload=P), req(PUT, [], payload=P),
           req(PUT, [""], payload=P), req(DELETE, ["d"]), req(DELETE, ["d", ""]), req(DELETE, []),
           req(DELETE, ["empty"]), req(PUT, ["f1", "below"], payload=P), req(DELETE, ["f1", "below"]),
           req(GET, ["f1", "below"]), req(PUT, ["missing", "below"], payload=P), req(DELETE, ["missing", "below"]),
           req(GET, ["d"]), req(GET, ["f1", ""]), req(POST, ["f1"], payload=P), req(FETCH, ["f1"], payload=P),
           req(PATCH, ["f1"], payload=P), req(IPATCH, ["f1"], payload=P), req(POST, ["", "tmp", "x"], payload=P),
           req(GET, [".well-known", "core"]), req(PUT, [".well-known", "core"], payload=P)]
    add("odd-targets-rw", odd, write=True)
    add("odd-targets-ro", odd, write=False)
    # 10. observation of files: modification, replacement, deletion, cancellation by RST
    add("observe", [req(GET, ["f17"], observe=0), req(GET, ["big"], observe=0, block2=[0, 2]),
                    req(GET, ["x"], observe=0, rst_after=1), req(PUT, ["f17"], payload=[620, 18]),
                    req(PUT, ["x"], payload=[621, 8]), {"op": "sleep", "d": 11.0}, req(PUT, ["f17"], payload=[622, 19]),
                    req(PUT, ["x"], payload=[623, 9]), req(PUT, ["big"], payload=[624, 700]),
                    {"op": "sleep", "d": 11.0}, req(GET, ["f17"], observe=1), req(DELETE, ["big"]),
                    {"op": "sleep", "d": 21.0}, req(PUT, ["f17"], payload=[625, 20]), {"op": "sleep", "d": 11.0}],
        write=True)
    add("readonly-observe-with-modifying-methods",
        [req(PUT, ["f17"], payload=[620, 18], observe=0, rst_after=0), req(PUT, ["new-by-put"], payload=[621, 5], observe=0, rst_after=0),
         req(DELETE, ["f17"], observe=0, rst_after=0), req(DELETE, ["a", "n"], observe=0, rst_after=0), req(POST, ["f17"], payload=[622, 5], observe=0, rst_after=0),
         req(PUT, ["a", ""], payload=[623, 5], observe=0, rst_after=0), req(PUT, ["f17"], payload=[624, 18], observe=1),
         req(GET, ["f17"])], write=False)
    add("observe-dir-and-missing", [req(GET, ["a", ""], observe=0), req(GET, ["missing"], observe=0),
                                    req(GET, ["..", "rootfile"], observe=0), req(PUT, ["a", "n"], payload=P),
                                    {"op": "sleep", "d": 21.0}], write=True)
    # 11. the same under loss / duplication / delay
    lossy = dict(zero_net(), p_drop=0.2, p_dup=0.2, p_delay=0.3, delay_max=0.5)
    add("lossy-fetch", [{"op": "fetch", "path": ["big"], "szx": 2}, {"op": "rfetch", "path": ["big"], "szx": 3,
                                                                      "wait": False},
                        {"op": "fetch", "path": ["f1025"], "szx": 0}, req(PUT, ["big"], payload=[630, 2500], b1szx=4),
                        {"op": "fetch", "path": ["big"], "szx": 6}, req(DELETE, ["f1025"]), req(GET, ["f1025"]),
                        req(GET, ["", "etc", "passwd"])], write=True, net=lossy)
    return out


def shrink(s):
    if any(v for k, v in s.get("net", {}).items() if k.startswith("p_")):
        c = dict(s)
        c["net"] = zero_net()
        yield c
    if s.get("tree") != STD_TREE:
        c = dict(s)
        c["tree"] = STD_TREE
        yield c
    ops = s["ops"]
    for i, o in enumerate(ops):
        def with_op(new):
            c = dict(s)
            c["ops"] = ops[:i] + [new] + ops[i + 1:]
            return c
        for key in ("if_match", "if_none_match", "etag", "block2", "observe", "rst_after", "b1szx", "wait"):
            if key in o:
                yield with_op({k: v for k, v in o.items() if k != key})
        if o.get("payload") and o["payload"][1] > 1 and "b1szx" not in o:
            yield with_op(dict(o, payload=[o["payload"][0], 1]))
        if o.get("op") in ("fetch", "rfetch") :
            yield with_op(req(GET, o["path"]))
        path = o.get("path")
        if path and len(path) > 1:
            for k in range(len(path)):
                yield with_op(dict(o, path=path[:k] + path[k + 1:]))
        if o.get("op") == "sleep" and o["d"] > 11.0:
            yield with_op(dict(o, d=11.0))


# ------------------------------------------------------------------ scripted client


class Client(ScriptedEndpoint):
    """Sequential CoAP client: one confirmable exchange at a time, fixed
    retransmission interval, acknowledges (or resets) separate responses and
    notifications."""

    def __init__(self, sim, ip, port, server):
        super().__init__(sim, ip, port)
        self.server = server
        self.pending = {}  # token -> future
        self.tok_op = {}  # token -> op index
        self.mid_tok = {}
        self.obs = {}  # token -> observation record
        self.xid = 0

    def handle(self, msg, src, data):
        if msg is None or src != self.server:
            return
        typ, code, tok = msg["type"], msg["code"], msg["token"]
        if typ == rc.RST:
            t = self.mid_tok.get(msg["mid"])
            fut = self.pending.get(t)
            if fut is not None and not fut.done():
                fut.set_result(dict(msg, rst=True))
            return
        if code == 0:
            if typ == rc.CON:  # ping
                self.send(src, msg={"type": rc.RST, "code": 0, "mid": msg["mid"], "token": b"", "options": [],
                                    "payload": b""})
            return
        ob = self.obs.get(tok)
        fut = self.pending.get(tok)
        first = fut is not None and not fut.done()
        is_note = False
        if ob is not None and not first and msg["mid"] not in ob["mids"]:
            is_note = True
        if typ == rc.CON:
            reply = rc.ACK
            if ob is not None and ob["rst_after"] is not None and not first:
                seen = len(ob["notes"]) + (1 if is_note else 0)
                if seen > ob["rst_after"]:
                    reply = rc.RST
            elif ob is None and not first and tok not in self.tok_op:
                reply = rc.RST
            self.send(src, msg={"type": reply, "code": 0, "mid": msg["mid"], "token": b"", "options": [],
                                "payload": b""})
        if first:
            if ob is not None:
                ob["mids"].add(msg["mid"])
            fut.set_result(msg)
            return
        if is_note:
            ob["mids"].add(msg["mid"])
            ob["notes"].append((self.loop.now, msg))
            self.sim.log("app", "note", ob["op"], rc.code_str(code), len(msg["payload"]))

    async def exchange(self, opi, code, options, payload, obs=None):
        self.xid += 1
        token = self.xid.to_bytes(2, "big")
        mid = self.next_mid()
        self.tok_op[token] = opi
        self.mid_tok[mid] = token
        fut = self.loop.create_future()
        self.pending[token] = fut
        if obs is not None:
            self.obs[token] = obs
        raw = rc.encode({"type": rc.CON, "code": code, "mid": mid, "token": token, "options": options,
                         "payload": payload})
        for _ in range(MAXTX):
            self.send(self.server, raw=raw)
            done, _ = await asyncio.wait([fut], timeout=RTX)
            if done:
                break
        self.pending.pop(token, None)
        if fut.done():
            r = fut.result()
            return None if r.get("rst") else r
        return None


# ------------------------------------------------------------------ execution


def classify(uri_path, entry, idx, raw, norm, tmp_names):
    """Violation kind for a file-system operation whose idx-th path argument
    lies outside the root: names the *way* of the escape."""
    segs = raw.split("/")
    if uri_path is not None:
        if ".." in segs or any(c == ".." for c in uri_path):
            return "C19/escape-dotdot"
        if any("/" in c for c in uri_path):
            return "C19/escape-embedded-slash"
        if any(c == "." for c in uri_path):
            return "C19/escape-dot"
    elif ".." in segs:
        return "C19/escape-dotdot"
    if norm.startswith(ROOT):
        return "C19/escape-prefix-sibling"
    if uri_path is not None and len(uri_path) > 1 and uri_path[0] == "":
        return "C19/escape-absolute-join"
    if entry["op"] == "mkstemp" or norm in tmp_names:
        return "C19/tempfile-outside-root"
    return "C19/escape-other"


def execute(sim, scenario):
    import logging

    import aiocoap
    import aiocoap.cli.fileserver as fsmod
    from aiocoap import Message

    loop = sim.loop
    ops = scenario["ops"]
    write = bool(scenario.get("write"))
    tree = scenario.get("tree") or STD_TREE
    sim.net.fate_gen = faults.fate_gen(scenario.get("net") or {})

    counts = {}

    def violation(kind, detail):
        counts[kind] = counts.get(kind, 0) + 1
        if counts[kind] <= MAX_PER_KIND:
            sim.violation(kind, detail)

    # ---- the file system
    fs = fs_path.SimFS(clock=lambda: loop.now)
    fs.add_dir(ROOT)
    for d in tree["dirs"]:
        fs.add_dir(ROOT + "/" + d)
    for name, size, seed in tree["files"]:
        fs.add_file(ROOT + "/" + name, body(seed, size))
    for p in CANARY_FILES:
        fs.add_file(p, canary_body(p))
    for p in CANARY_DIRS:
        fs.add_dir(p)
    outside0 = fs.snapshot(exclude=ROOT)
    inside0 = fs.snapshot(under=ROOT)

    last_rx = [None, []]  # instant, wire numbers of the datagrams delivered to the server at that instant

    def dtap(entry, copy, data):
        if entry["dst"] == SERVER:
            if last_rx[0] != loop.now:
                last_rx[0] = loop.now
                last_rx[1] = []
            last_rx[1].append(entry["n"])

    sim.net.deliver_taps.append(dtap)

    def ctx_fn():
        # rendering starts in the loop iteration after the delivery, at the same virtual instant
        return list(last_rx[1]) if last_rx[0] == loop.now else None

    fs.ctx_fn = ctx_fn
    fsig = hashlib.blake2b(digest_size=8)

    watchers = []  # called at every file system operation (downloads in progress sample the file they are about)

    def on_op(e):
        for w in watchers:
            w()
        sim.log("fs", e["op"], e["paths"])
        fsig.update(("%s %d;" % (e["op"], sum(inside(p) for p in e["paths"]))).encode())

    def inside(p):
        return fs_path.inside(p, ROOT)

    fs.on_op = on_op
    exec_latency = scenario.get("exec", 0.001)
    loop.executor_latency = lambda: exec_latency

    saved = fs_path.install(fs, fsmod)
    refresher = None
    try:
        state = {}

        async def setup():
            server = fsmod.FileServer(fs.Path(ROOT), logging.getLogger("fileserver"), write=write)
            if any(o.get("op") == "tfetch" for o in ops):
                from simkit.stream import SimStreamNet
                loop.streamnet = SimStreamNet(sim)
                ctx = await aiocoap.Context.create_server_context(server, bind=(common.SERVER_IP, 5683),
                                                                  transports=["udp6", "tcpserver"], loggername="coap-server")
                sim.contexts.append(ctx)
            else:
                ctx = await sim.server(server, common.SERVER_IP)
            state["refresher"] = asyncio.create_task(server.check_files_for_refreshes())
            state["rclient"] = None
            if any(o.get("op") == "rfetch" for o in ops):
                state["rclient"] = await sim.client(common.CLIENT_IP)
            return server, ctx

        server, ctx = loop.run_until_complete(setup())
        refresher = state["refresher"]
        rclient = state["rclient"]
        raddr = sim.local_addr(rclient) if rclient is not None else None
        client = Client(sim, common.PEER_IPS[0], 40001, SERVER)

        # ---- model
        model = dict(inside0)
        history = {p: [v] for p, v in model.items()}
        etags = {}
        outcomes = []  # per op: dict
        bg = []  # background rfetch tasks
        sig = hashlib.blake2b(digest_size=8)
        nontrivial = [False]

        def target_of(path):
            if not is_plain(path):
                return None
            return ROOT + "".join("/" + c for c in path)

        def diff(a, b):
            out = []
            for p in sorted(set(a) | set(b)):
                if a.get(p, "absent") != b.get(p, "absent"):
                    va, vb = a.get(p, "absent"), b.get(p, "absent")
                    out.append([p, "dir" if va is None else (va if va == "absent" else len(va)),
                                "dir" if vb is None else (vb if vb == "absent" else len(vb))])
            return out[:6]

        def resync(actual):
            for p in set(model) | set(actual):
                if model.get(p, "absent") != actual.get(p, "absent"):
                    history.setdefault(p, []).append(actual.get(p, "absent"))
            model.clear()
            model.update(actual)

        def ident(i, o, **kw):
            d = {"op": i, "write": write}
            if "m" in o:
                d["method"] = METHOD_NAMES.get(o["m"], o["m"])
            else:
                d["kind"] = o["op"]
            d["uri_path"] = o.get("path")
            d.update(kw)
            return d

        def settle(i, o, m, path, resp, payload, no_effect=False):
            """Compare the tree with what the response allows, then resync."""
            actual = fs.snapshot(under=ROOT)
            klass = (resp["code"] >> 5) if resp is not None else None
            target = target_of(path)
            if actual != model:
                if not write:
                    violation("C19/readonly-tree-modified", ident(i, o, diff=diff(model, actual),
                                                                  response=resp and rc.code_str(resp["code"])))
                elif no_effect:
                    violation("C19/error-response-had-effect", ident(i, o, diff=diff(model, actual), response=None,
                                                                     note="upload aborted before the last block"))
                elif klass in (4, 5):
                    violation("C19/error-response-had-effect", ident(i, o, diff=diff(model, actual),
                                                                     response=rc.code_str(resp["code"])))
                elif klass == 2 and m in (GET, FETCH):
                    violation("C19/safe-method-modified-tree", ident(i, o, diff=diff(model, actual),
                                                                     response=rc.code_str(resp["code"])))
            if write and not no_effect and (klass == 2 or klass is None) and target is not None and path:
                expected = None
                if m == PUT:
                    expected = dict(model)
                    expected[target] = payload
                    kind = "C19/put-result-mismatch"
                elif m == DELETE:
                    expected = dict(model)
                    expected.pop(target, None)
                    kind = "C19/delete-result-mismatch"
                if expected is not None:
                    if klass is None:
                        sim.probe("indeterminate")
                        if actual != expected and actual != model:
                            violation(kind, ident(i, o, diff=diff(expected, actual), response=None))
                    elif actual != expected:
                        violation(kind, ident(i, o, diff=diff(expected, actual), response=rc.code_str(resp["code"])))
                    elif m == PUT:
                        sim.probe("put_ok")
                    else:
                        sim.probe("delete_ok")
            resync(actual)

        LINK = re.compile(r"<([^>]*)>")

        def check_get(i, o, path, resp):
            """2.05 answers to GETs whose meaning is beyond doubt must carry the
            modelled content (files) / mention only entries of the tree (listings)."""
            if resp is not None and resp["code"] >> 5 == 5 and path and is_plain(path) and target_of(path) is not None \
                    and isinstance(model.get(target_of(path), "absent"), bytes) and not o.get("etag"):
                # an existing regular file below the root, named plainly (the simulated file system injects no errors):
                # a server error is not "the file's content"
                violation("C19/existing-file-not-served", ident(i, o, response=rc.code_str(resp["code"]),
                                                                 block2=o.get("block2"), file_size=len(model[target_of(path)])))
                return
            if resp is None or resp["code"] != rc.CONTENT:
                return
            if b"CANARY:" in resp["payload"]:
                state.setdefault("leaks", []).append(ident(i, o, payload=resp["payload"][:60].decode("latin-1")))
            if tuple(path) == (".well-known", "core"):
                return
            listing_of = None
            if not path:
                listing_of = ROOT
            elif path[-1] == "" and is_plain(path[:-1]):
                listing_of = target_of(path[:-1])
            target = target_of(path)
            b2 = rc.opt1(resp, rc.BLOCK2)
            if target is not None and path:
                cur = model.get(target, "absent")
                if cur == "absent":
                    violation("C19/get-content-mismatch", ident(i, o, why="2.05 for a name that does not exist",
                                                                got=len(resp["payload"])))
                    return
                if cur is None:
                    listing_of = target
                else:
                    if b2 is None:
                        expected = cur
                    else:
                        num, _, szx = rc.block_value(b2)
                        expected = cur[num * bsize(szx):(num + 1) * bsize(szx)]
                        if num * bsize(szx) >= len(cur) and num > 0:
                            sim.probe("block2_beyond_eof")
                    if resp["payload"] != expected:
                        violation("C19/get-content-mismatch", ident(
                            i, o, block2=list(rc.block_value(b2)) if b2 else None, got=len(resp["payload"]),
                            expected=len(expected), file_size=len(cur),
                            first_difference=next((k for k, (x, y) in enumerate(zip(resp["payload"], expected))
                                                   if x != y), min(len(expected), len(resp["payload"])))))
                    else:
                        sim.probe("get_file_ok")
                    return
            if listing_of is not None and model.get(listing_of, "absent") is None:
                if b2 is not None and (rc.block_value(b2)[0] != 0 or rc.block_value(b2)[1]):
                    return
                names = [p[len(listing_of) + 1:] for p in list(model) + list(history)
                         if p.startswith(listing_of + "/") and "/" not in p[len(listing_of) + 1:]]
                if any(ch in n for n in names for ch in '<>,;"'):
                    return
                try:
                    text = resp["payload"].decode("utf-8")
                except UnicodeDecodeError:
                    return
                base = listing_of[len(ROOT):] + "/"
                for t in LINK.findall(text):
                    ok = False
                    for cand in (t, unquote(t)):
                        full = posixpath.normpath(ROOT + posixpath.join(base, cand))
                        # `history` knows every name that ever existed below the root: a listing served
                        # from the Block2 cache may be stale, which is not this property's business
                        if "\0" not in cand and inside(full) and (full in model or full in history):
                            ok = True
                    if not ok:
                        violation("C19/listing-mentions-foreign-entry", ident(i, o, entry=t, directory=listing_of))
                        break
                else:
                    sim.probe("listing_ok")

        def learn_etag(path, resp):
            if resp is not None:
                e = rc.opt1(resp, rc.ETAG)
                if e is not None:
                    etags[tuple(path)] = e

        def etag_values(path, specs):
            out = []
            for s in specs:
                if s == "cur":
                    out.append(etags.get(tuple(path), b"\xee\xee"))
                elif s.startswith("hex:"):
                    out.append(bytes.fromhex(s[4:]))
                else:
                    out.append(b"")
            return out

        def note_code(resp):
            if resp is None:
                return
            c = resp["code"]
            if c == rc.PRECONDITION_FAILED:
                sim.probe("precondition_failed")
            elif c == rc.VALID:
                sim.probe("valid_2_03")
            elif c == rc.FORBIDDEN and not write:
                sim.probe("forbidden_ro")
            elif c >> 5 == 5:
                sim.probe("error_5xx")

        async def run_req(i, o):
            m, path = o["m"], o["path"]
            options = [(rc.URI_PATH, c.encode("utf-8")) for c in path]
            if any("\0" in c for c in path):
                sim.probe("nul_path")
            if any(len(c.encode("utf-8")) > 255 for c in path):
                sim.probe("enametoolong")
            if not is_plain(path):
                sim.probe("hostile_op")
                nontrivial[0] = True
            for v in etag_values(path, o.get("etag", [])):
                options.append((rc.ETAG, v))
            for v in etag_values(path, o.get("if_match", [])):
                options.append((rc.IF_MATCH, v))
            if o.get("if_none_match"):
                options.append((rc.IF_NONE_MATCH, b""))
            if o.get("block2") is not None:
                options.append((rc.BLOCK2, rc.block_bytes(o["block2"][0], False, o["block2"][1])))
            obs = None
            if o.get("observe") is not None:
                options.append((rc.OBSERVE, rc.uint_bytes(o["observe"])))
                if o["observe"] == 0:
                    obs = {"op": i, "path": path, "notes": [], "mids": set(), "rst_after": o.get("rst_after"),
                           "t0": loop.now, "v0": len(history.get(target_of(path) or "", []))}
            if len(o) > 3:
                nontrivial[0] = True
            payload = body(*o["payload"]) if o.get("payload") else b""
            resp = None
            no_effect = False
            if o.get("b1szx") is not None and payload:
                sim.probe("block1_put")
                szx = o["b1szx"]
                bs = bsize(szx)
                chunks = [payload[k:k + bs] for k in range(0, len(payload), bs)]
                for k, ch in enumerate(chunks):
                    more = k < len(chunks) - 1
                    resp = await client.exchange(i, m, options + [(rc.BLOCK1, rc.block_bytes(k, more, szx))], ch)
                    if more and (resp is None or resp["code"] != rc.CONTINUE):
                        # the body never became complete on the server: nothing may happen
                        no_effect = resp is None or (resp["code"] >> 5) != 2
                        break
            else:
                resp = await client.exchange(i, m, options, payload, obs=obs)
            code = rc.code_str(resp["code"]) if resp is not None else None
            sim.log("app", "req:%s:%d" % (METHOD_NAMES.get(m, m), len(path)), code)
            sig.update(("%s %s %s %s;" % (m, "p" if is_plain(path) else "h", sorted(k for k in o if k not in
                                                                                     ("op", "m", "path", "payload")),
                                          code)).encode())
            learn_etag(path, resp)
            note_code(resp)
            if m == GET and not no_effect:
                check_get(i, o, path, resp)
            settle(i, o, m, path, resp, payload, no_effect=no_effect)
            outcomes.append({"op": i, "code": code})

        async def run_fetch(i, o):
            path, szx = o["path"], o["szx"]
            nontrivial[0] = True
            bs = bsize(szx)
            target = target_of(path)
            content = model.get(target, "absent") if target is not None and path else "absent"
            known = content != "absent" and content is not None
            cap = (len(content) // bs if known else 400) + 4
            base = [(rc.URI_PATH, c.encode("utf-8")) for c in path]
            chunks = []
            num = 0
            verdict = None
            while True:
                resp = await client.exchange(i, GET, base + [(rc.BLOCK2, rc.block_bytes(num, False, szx))], b"")
                if resp is None:
                    verdict = "gave-up"
                    break
                if resp["code"] != rc.CONTENT:
                    verdict = "error " + rc.code_str(resp["code"])
                    break
                if b"CANARY:" in resp["payload"]:
                    state.setdefault("leaks", []).append(ident(i, o, payload=resp["payload"][:60].decode("latin-1")))
                b2 = rc.opt1(resp, rc.BLOCK2)
                chunks.append(resp["payload"])
                if b2 is None:
                    verdict = "complete" if num == 0 else "block option vanished"
                    break
                n, more, s = rc.block_value(b2)
                if n != num or bsize(s) != bs:
                    verdict = "server changed block parameters"
                    break
                if not more:
                    verdict = "complete"
                    break
                num += 1
                if num > cap:
                    verdict = "never-ends"
                    break
            sim.log("app", "fetch:%d" % szx, verdict, len(chunks))
            sig.update(("f %d %s %d;" % (szx, verdict, len(chunks))).encode())
            if known:
                got = b"".join(chunks)
                if verdict in ("complete", "never-ends", "block option vanished") and got != content:
                    violation("C19/blockwise-fetch-mismatch", ident(
                        i, o, szx=szx, verdict=verdict, got=len(got), expected=len(content), blocks=len(chunks),
                        first_difference=next((k for k, (x, y) in enumerate(zip(got, content)) if x != y),
                                              min(len(got), len(content)))))
                elif verdict == "complete":
                    sim.probe("fetch_ok")
                elif verdict != "gave-up":
                    sim.anomaly("fetch-of-existing-file-not-completed", "%s %s" % (path, verdict))
            settle(i, o, GET, path, {"code": rc.CONTENT} if verdict == "complete" else None, b"")
            outcomes.append({"op": i, "code": verdict})

        async def run_tfetch(i, o):
            """Download over TCP as a conforming RFC 8323 client: CSM (Max-Message-Size, Block-Wise-Transfer), GET,
            then one request per block with the block number counting in the unit of the size exponent in use."""
            from simkit.stream import TcpPeer, split_frames
            path = o["path"]
            nontrivial[0] = True
            target = target_of(path)
            content = model.get(target, "absent") if target is not None and path else "absent"
            known = content != "absent" and content is not None
            waiters = {}

            def on_data(p, d):
                frames, _ = split_frames(p.rx)
                for (a, b, m, err) in frames:
                    if m is not None and m["token"] in waiters and not waiters[m["token"]].done() and m["code"] >= 64 \
                            and m["code"] < 224:
                        waiters[m["token"]].set_result(m)
            peer = TcpPeer(sim, "tcp-fetch#%d" % i, on_data=on_data)
            try:
                await peer.connect(common.SERVER_IP, 5683)
            except OSError:
                outcomes.append({"op": i, "code": "tcp-connect-failed"})
                return
            peer.send({"code": rc.CSM, "token": b"", "payload": b"",
                       "options": [(2, rc.uint_bytes(o["mms"])), (4, b"")]})
            base = [(rc.URI_PATH, c.encode("utf-8")) for c in path]
            got = b""
            verdict = None
            szx = o["szx"]
            k = 0
            while True:
                k += 1
                tok = bytes([0x7A, i & 0xFF, k & 0xFF])
                opts = list(base)
                if szx is not None and (got or o["szx"] is not None):
                    unit = 1024 if szx == 7 else bsize(szx)
                    if len(got) % unit:
                        verdict = "unaligned"
                        break
                    opts.append((rc.BLOCK2, rc.block_bytes(len(got) // unit, False, szx)))
                waiters[tok] = loop.create_future()
                peer.send({"code": GET, "token": tok, "options": opts, "payload": b""})
                try:
                    resp = await asyncio.wait_for(waiters[tok], 30)
                except asyncio.TimeoutError:
                    verdict = "no-answer"
                    break
                if resp["code"] != rc.CONTENT:
                    verdict = "error " + rc.code_str(resp["code"])
                    break
                b2 = rc.opt1(resp, rc.BLOCK2)
                if b2 is None:
                    got += resp["payload"]
                    verdict = "complete" if k == 1 else "block option vanished"
                    break
                n, more, s_ = rc.block_value(b2)
                unit = 1024 if s_ == 7 else bsize(s_)
                if n * unit != len(got):
                    verdict = "wrong block number"
                    violation("C19/blockwise-fetch-mismatch", ident(i, o, transport="tcp", why="block number %d of unit %d "
                                                                    "does not continue at offset %d" % (n, unit, len(got))))
                    break
                if s_ == 7:
                    sim.probe("bert_block")
                got += resp["payload"]
                szx = s_
                if not more:
                    verdict = "complete"
                    break
                if k > 4000:
                    verdict = "never-ends"
                    break
            sim.log("app", "tfetch", verdict, len(got))
            sig.update(("t %s %d;" % (verdict, len(got))).encode())
            if known and verdict in ("complete", "never-ends", "block option vanished") and got != content:
                violation("C19/blockwise-fetch-mismatch", ident(
                    i, o, transport="tcp", verdict=verdict, got=len(got), expected=len(content),
                    first_difference=next((j for j, (x, y) in enumerate(zip(got, content)) if x != y), min(len(got), len(content)))))
            elif known and verdict == "complete":
                sim.probe("tfetch_ok")
            elif known and verdict not in ("complete",):
                sim.anomaly("tcp-fetch-of-existing-file-not-completed", "%s %s" % (path, verdict))
            peer.close()
            outcomes.append({"op": i, "code": verdict})

        async def rfetch_body(i, o):
            path, szx = o["path"], o["szx"]
            target = target_of(path)

            def ground_truth():
                # (inode, mtime) of the file as the file system has it right now: equal before and
                # after the download <=> nobody replaced or rewrote it in between
                n = fs.lookup(target) if target is not None and path else None
                return None if n is None or n.is_dir else (n.ino, n.mtime_ns, bytes(n.data))

            g0 = ground_truth()
            versions = [g0]
            watch = lambda: versions.append(ground_truth())  # noqa: E731
            watchers.append(watch)
            msg = Message(code=aiocoap.GET, uri="coap://[%s]/" % common.SERVER_IP)
            msg.opt.uri_path = tuple(path)
            msg.opt.block2 = (0, False, szx)
            r = rclient.request(msg)
            try:
                resp = await asyncio.wait_for(r.response, 200)
            except Exception as e:  # network errors under loss: no verdict
                sim.log("app", "rfetch", type(e).__name__)
                watchers.remove(watch)
                return
            sim.log("app", "rfetch", str(resp.code), len(resp.payload))
            sig.update(("r %d %s;" % (szx, resp.code)).encode())
            g1 = ground_truth()
            versions.append(g1)
            watchers.remove(watch)
            if str(resp.code).startswith("2.05") and all(v is not None for v in versions) and g0[:2] != g1[:2]:
                # the file was replaced while it was being downloaded: a download that succeeds all the same has one of
                # the contents the file had in the meantime, never a mixture of them
                sim.probe("file_replaced_during_download")
                if resp.payload not in [v[2] for v in versions]:
                    violation("C19/blockwise-fetch-mixes-versions", ident(
                        i, o, szx=szx, client="aiocoap", got=len(resp.payload), versions=sorted({len(v[2]) for v in versions})))
            if str(resp.code).startswith("2.05") and g0 is not None and g1 is not None and g0[:2] == g1[:2]:
                content = g0[2]
                if resp.payload != content:
                    violation("C19/blockwise-fetch-mismatch", ident(
                        i, o, szx=szx, client="aiocoap", got=len(resp.payload), expected=len(content),
                        first_difference=next((k for k, (x, y) in enumerate(zip(resp.payload, content)) if x != y),
                                              min(len(resp.payload), len(content)))))
                else:
                    sim.probe("rfetch_ok")

        async def driver():
            for i, o in enumerate(ops):
                kind = o.get("op")
                sim.log("app", "op", i, kind)
                if kind == "req":
                    await run_req(i, o)
                elif kind == "fetch":
                    await run_fetch(i, o)
                elif kind == "tfetch":
                    await run_tfetch(i, o)
                elif kind == "rfetch":
                    nontrivial[0] = True
                    if o.get("wait", True):
                        await rfetch_body(i, o)
                    else:
                        bg.append(asyncio.ensure_future(rfetch_body(i, o)))
                elif kind == "sleep":
                    await asyncio.sleep(o["d"])
                    actual = fs.snapshot(under=ROOT)
                    if actual != model:
                        violation("C19/tree-changed-without-request", ident(i, o, diff=diff(model, actual)))
                        resync(actual)
            for t in bg:
                await t
            if client.obs:
                await asyncio.sleep(10.5)

        drv = loop.create_task(driver())
        sim.run(stop=drv.done, horizon=1e6)
        if not drv.done():
            drv.cancel()
            raise RuntimeError("C19 driver did not finish")
        drv.result()

        # ------------------------------------------------------------ oracles on the journal
        wire = sim.net.wire
        tmp_names = set()
        for e in fs.journal:
            if e["op"] == "mkstemp" and len(e["paths"]) > 1:
                tmp_names.add(e["paths"][1])
        escapes = 0
        kinds_by_path = {}

        def attribute(e, norm):
            """The request datagram (wire entry) during whose rendering the
            journal entry was made: the only one delivered at that instant, or
            among several the one whose Uri-Path leads to the path."""
            cands = [wire[n] for n in (e["ctx"] or []) if wire[n]["msg"] is not None
                     and 1 <= wire[n]["msg"]["code"] < 32]
            if len(cands) == 1:
                return cands[0]
            for w in reversed(cands):
                up = [v.decode("utf-8", "replace") for v in rc.opts(w["msg"], rc.URI_PATH)]
                mapped = fs_path.normalise(str(posixpath.join(ROOT, "/".join(up))))
                if norm in (mapped, posixpath.dirname(mapped)) or (
                        norm in tmp_names and posixpath.dirname(norm) == posixpath.dirname(mapped)):
                    return w
            return None

        def describe(w, info):
            up = [v.decode("utf-8", "replace") for v in rc.opts(w["msg"], rc.URI_PATH)]
            info["uri_path"] = up
            info["method"] = METHOD_NAMES.get(w["msg"]["code"], w["msg"]["code"])
            if w["src"] == client.addr:
                info["op"] = client.tok_op.get(w["msg"]["token"])
            elif w["src"] == raddr:
                info["client"] = "aiocoap"
            return up

        for e in fs.journal:
            for idx, norm in enumerate(e["paths"]):
                if inside(norm):
                    continue
                escapes += 1
                info = {"fs_op": e["op"], "path": norm, "raw": e["raw"][idx], "err": e["err"], "write": write}
                w = attribute(e, norm)
                if w is not None:
                    uri_path = describe(w, info)
                    kind = classify(uri_path, e, idx, e["raw"][idx], norm, tmp_names)
                    kinds_by_path.setdefault(norm, kind)
                else:
                    # not attributable to one request: e.g. the refresh task polling an observed path
                    kind = kinds_by_path.get(norm) or classify(None, e, idx, e["raw"][idx], norm, tmp_names)
                    info["background"] = True
                violation(kind, info)
        mutating = ("mkstemp", "write", "truncate", "rename", "unlink", "mkdir", "rmdir")
        if not write:
            for e in fs.journal:
                if e["err"] is not None:
                    continue  # a refused attempt modified nothing
                if e["op"] in mutating or (e["op"] == "open" and any(c in e.get("mode", "") for c in "wax+")):
                    info = {"fs_op": e["op"], "paths": e["paths"], "err": e["err"]}
                    w = attribute(e, e["paths"][-1])
                    if w is not None:
                        describe(w, info)
                    violation("C19/readonly-fs-mutation", info)

        # ------------------------------------------------------------ notifications
        for tok, ob in client.obs.items():
            target = target_of(ob["path"])
            for (t, msg) in ob["notes"]:
                sim.probe("notification")
                if b"CANARY:" in msg["payload"]:
                    state.setdefault("leaks", []).append({"op": ob["op"], "uri_path": ob["path"], "notification": True})
                if msg["code"] != rc.CONTENT or target is None or not ob["path"]:
                    continue
                hist = [h for h in history.get(target, [])[max(0, ob["v0"] - 1):] if h not in ("absent", None)]
                if not hist:
                    continue
                b2 = rc.opt1(msg, rc.BLOCK2)
                ok = False
                for h in hist:
                    if b2 is None:
                        exp = h
                    else:
                        num, _, szx = rc.block_value(b2)
                        exp = h[num * bsize(szx):(num + 1) * bsize(szx)]
                    if msg["payload"] == exp:
                        ok = True
                if not ok:
                    violation("C19/notification-content-mismatch", {"op": ob["op"], "uri_path": ob["path"],
                                                                     "got": len(msg["payload"]), "t": t})

        # ------------------------------------------------------------ end state
        outside1 = fs.snapshot(exclude=ROOT)
        inside1 = fs.snapshot(under=ROOT)
        if not escapes:
            # backstops: only reported when the journal oracle saw nothing (else they are its consequences)
            if outside1 != outside0:
                violation("C19/outside-objects-changed", {"diff": diff(outside0, outside1), "write": write})
            for l in state.get("leaks", [])[:1]:
                violation("C19/canary-content-in-response", l)
        if not write and inside1 != inside0 and not counts.get("C19/readonly-tree-modified"):
            violation("C19/readonly-tree-modified", {"diff": diff(inside0, inside1), "at": "end of run"})
        if inside1 != model:
            # something changed the tree after the last operation was settled
            violation("C19/tree-changed-without-request", {"diff": diff(model, inside1)})
        for k, n in counts.items():
            if n > MAX_PER_KIND:
                sim.log("app", "more", k, n)
        if refresher.done() and not refresher.cancelled() and refresher.exception() is not None:
            sim.anomaly("refresh-task-died", repr(refresher.exception())[:200])
        if fs.open_files:
            sim.anomaly("file-left-open", sorted(f.name for f in fs.open_files.values())[:3])
        for (t, m, en, es) in sim.loop_exceptions():
            sim.anomaly("loop-exception", "%s %s %s" % (m, en, es))
        fates = hashlib.blake2b(digest_size=8)
        for w in wire:
            if w["fate"][0] != "deliver" or w["fate"][1] != sim.net.LATENCY:
                fates.update(("%s %s;" % (w["link"], w["fate"][0])).encode())
        sim.signature = hashlib.blake2b((sig.hexdigest() + fsig.hexdigest() + fates.hexdigest()).encode(),
                                        digest_size=8).hexdigest()
        sim.nontrivial = nontrivial[0]
    finally:
        if refresher is not None and not refresher.done():
            refresher.cancel()
        fs_path.uninstall(saved)
