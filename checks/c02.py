"""C02 -- a response reaches exactly the request it answers; every request completes once."""

from simkit import refcodec as rc
from simkit import faults
from simkit.net import ScriptedEndpoint, fmt
from . import common
from .common import TOL

PROPERTY = "C02"
LEVEL = "exploration"
SUPPORTS_V4 = True  # scenarios with "v4": true run over IPv4-mapped addresses (see common.set_family)
RUNS = {"quick": 3000, "thorough": 40000}
RULE = ("seeded scenarios: one real client context issues 2-12 concurrent tagged requests (CON/NON) to a real aiocoap "
        "server (echo resource with random latency around EMPTY_ACK_DELAY) and 1-2 scripted servers (piggyback / "
        "separate CON / separate NON / RST / silence) under per-datagram drop / duplicate / delay / reorder, ICMP errors "
        "per remote, failing sendmsg, name-resolution failure, loop stalls, and an adversary injecting forged responses "
        "(random token, sniffed token from another IP or port, late copies of genuine responses; CON/NON/ACK). "
        "Non-trivial = a fault fired or a forgery was injected; distinct = distinct event-sequence hash.")
COMPONENTS_REAL = ["aiocoap.tokenmanager", "aiocoap.messagemanager", "aiocoap.protocol (Request, Context)", "aiocoap.pipe",
                   "aiocoap.transports.udp6", "aiocoap.util.asyncio.recvmsg", "aiocoap.message", "aiocoap.resource"]
COMPONENTS_STUB = ["UDP socket (SimSocket) incl. error queue", "name resolution", "scripted servers and adversary (reference codec)",
                   "event loop clock (virtual)"]
ASSUMPTIONS = ["a forged datagram that carries the right token AND the right source address is indistinguishable from a genuine "
               "one over UDP and is not generated",
               "liveness is judged at quiescence only: a request may stay pending iff no matching response and no error "
               "indication was delivered to the endpoint"]
EXPECTED_PROBES = ["shutdown_with_requests_outstanding", "request_submitted_while_shutdown_under_way", "request_submitted_from_inside_a_failure_callback", "forged_near_token", "forged_random_token", "forged_wrong_ip", "forged_wrong_port", "late_copy", "rst_for_unmatched_con",
                   "matched", "failed_by_icmp", "failed_by_giveup", "failed_by_rst", "resolution_failure", "pending_at_quiescence",
                   "dup_response_delivered", "multicast_request_outstanding", "response_before_exchange_end", "peer_request_under_own_token", "partition", "liveness_probe_after_heal"]

FORGED = b"FORGED"


def gen_template(r):
    """The application builds one request Message and hands it to Context.request() more than once (a template for
    non-confirmable polls, an observation that is re-registered with the message it was first made with); the earlier
    request is still outstanding then, and is later given up by the application."""
    return {"template": {"n": r.choice([2, 2, 3]), "gap": r.choice([0.0, 0.01, 0.3]), "d": r.choice([0.5, 1.0, 3.0]),
                         "cancel_first_at": r.choice([0.02, 0.4, 0.9]), "observe": r.chance(0.4), "blockwise": r.chance(0.5),
                         "late_con_for_first": r.chance(0.6),
                         "cancel_observation_only": r.chance(0.4)},
            "nscripted": 1, "ops": [], "net": {}}


def gen_shutdown(r):
    """'... and context shutdown at any point': the client context is shut down while requests are outstanding; the
    application reacts to failures from inside its callbacks (future done-callbacks, observation errbacks) by asking
    again at once -- also while the shutdown is still under way -- and submits more requests around that instant."""
    n = r.randint(2, 6)
    reqs = [{"t": round(r.choice([0.0, 0.0, 0.05, 0.3, 1.0]), 3), "con": r.chance(0.6), "d": r.choice([0.05, 0.5, 2.0, 30.0]),
             "behave": r.choice(["piggy", "sep_non", "sep_con", "silent"]), "observe": r.chance(0.3),
             "retry": r.choice([None, None, "done", "errback"]), "by_name": r.chance(0.15)} for _ in range(n)]
    t_shut = round(r.choice([0.0, 0.01, 0.051, 0.1, 0.31, 0.55, 1.2, 2.5]) + r.choice([0.0, 0.0, 0.0005]), 4)
    extra = [round(t_shut + dt, 4) for dt in r.sample([-0.0001, 0.0, 0.0001, 0.001, 0.05, 1.0], r.randint(0, 3))]
    return {"shutdown": {"reqs": reqs, "t_shut": t_shut, "around": sorted(x for x in extra if x >= 0), "resolve_delay": r.choice([0.0, 0.002, 0.2])},
            "nscripted": 1, "ops": [], "net": {}}


def gen(r, tier):
    if r.chance(0.06):
        return gen_template(r)
    if r.chance(0.06):
        return gen_shutdown(r)
    nscripted = r.choice([1, 1, 2])
    ops = []
    n = r.randint(2, 12)
    t = 0.0
    for i in range(n):
        t += r.choice([0.0, 0.0, 0.01, 0.1, 1.0])
        srv = r.randrange(0, 1 + nscripted)  # 0 = real server
        op = {"op": "req", "t": round(t, 4), "srv": srv, "con": r.chance(0.65),
              "behave": r.weighted([(5, "piggy"), (3, "sep_con"), (2, "sep_non"), (1, "rst"), (1, "silent"),
                                    (1, "early_rst"), (1, "early_ack")]),
              "d": r.choice([0.0, 0.02, 0.099, 0.101, 0.3, 1.5])}
        if r.chance(0.06):
            op["host"] = r.choice(["bad.example", "good.example"])
        ops.append(op)
    nreq = len(ops)
    if r.chance(0.7):
        for _ in range(r.randint(1, 10)):
            ops.append({"op": "forge", "t": round(r.uniform(0, t + 3), 4), "target": r.randrange(nreq),
                        "kind": r.choice(["random_token", "wrong_ip", "wrong_port", "late_copy", "late_copy", "near_token"]),
                        "mtype": r.choice(["CON", "NON", "ACK"]), "late": round(r.uniform(0.0, 5.0), 3)})
    if r.chance(0.2):
        ops.append({"op": "icmp", "t": round(r.uniform(0, t + 2), 4), "srv": r.randrange(0, 1 + nscripted),
                    "errno": r.choice([111, 113])})
    parts = []
    if r.chance(0.2):
        # the path to one of the servers is cut for a while (every datagram in both directions is lost), then heals
        for _ in range(r.randint(1, 2)):
            parts.append({"t0": round(r.uniform(0, t + 1), 3), "dur": r.choice([0.3, 2.0, 10.0, 40.0, 100.0]),
                          "srv": r.randrange(0, 1 + nscripted)})
        # bounded liveness: once every fault has stopped, a fresh request to every server is answered
        t_quiet = max(p_["t0"] + p_["dur"] for p_ in parts) + t + 300.0
        for sv in range(0, 1 + nscripted):
            ops.append({"op": "req", "t": round(t_quiet + sv, 3), "srv": sv, "con": True, "behave": "piggy", "d": 0.0,
                        "probe": True})
    both = r.chance(0.3)
    if both and nscripted:
        # the context is client AND server towards the scripted servers: they send it requests of their own (slow
        # handler), partly under the very token one of its own outstanding requests to them carries (tokens are
        # chosen independently by the two directions)
        for _ in range(r.randint(1, 3)):
            ops.append({"op": "peer_req", "t": round(r.uniform(0, t + 1), 4), "srv": r.randrange(1, 1 + nscripted),
                        "token": r.choice(["own", "own", "other"]), "d": r.choice([0.3, 1.0, 4.0])})
    ops.sort(key=lambda o: (o["t"], o["op"] != "req"))
    return {"partitions": parts, "both_roles": both, "nscripted": nscripted, "ops": ops, "net": faults.swarm(r, kinds=("drop", "dup", "delay", "reorder")),
            "senderr": round(r.uniform(0.01, 0.08), 3) if r.chance(0.08) else 0, "stall": r.chance(0.1),
            # one more concurrent request: to a multicast group nobody answers from (outstanding for the whole run)
            "mcast": r.chance(0.15), "same_host": r.chance(0.3), "v4": r.chance(0.15)}


def corpus():
    base = {"nscripted": 1, "net": {}, "senderr": 0, "stall": False}
    out = []
    for obs in (False, True):
        for bw in (False, True):
            for gap in (0.0, 0.3):
                for cf in (0.02, 0.9):
                    out.append({"template": {"n": 2, "gap": gap, "d": 1.0, "cancel_first_at": cf, "observe": obs, "blockwise": bw,
                                             "late_con_for_first": True}, "nscripted": 1, "ops": [], "net": {}})
                    if obs and not bw:
                        out.append({"template": {"n": 2, "gap": gap, "d": 1.0, "cancel_first_at": cf, "observe": True, "blockwise": False,
                                                 "late_con_for_first": False, "cancel_observation_only": True},
                                    "nscripted": 1, "ops": [], "net": {}})
    for kind in ("random_token", "wrong_ip", "wrong_port", "late_copy"):
        for mt in ("CON", "NON", "ACK"):
            for beh in ("piggy", "sep_con"):
                out.append(dict(base, ops=[
                    {"op": "req", "t": 0.0, "srv": 1, "con": True, "behave": beh, "d": 0.3},
                    {"op": "req", "t": 0.0, "srv": 1, "con": False, "behave": "sep_non", "d": 0.6},
                    {"op": "forge", "t": 0.1, "target": 0, "kind": kind, "mtype": mt, "late": 1.0},
                    {"op": "forge", "t": 0.2, "target": 1, "kind": kind, "mtype": mt, "late": 2.0}]))
    return out


class ScriptServer(ScriptedEndpoint):
    def __init__(self, sim, ip, port, plans):
        super().__init__(sim, ip, port)
        self.plans = plans
        self.seen = {}

    def handle(self, msg, src, data):
        if msg is None:
            return
        if msg["type"] == rc.CON and msg["code"] >= 64:
            if getattr(self, "acks_responses", False):
                # (the response to a request this server sent to the client context in its server role)
                self.send(src, msg={"type": rc.ACK, "code": 0, "mid": msg["mid"], "token": b"", "options": [], "payload": b""})
            return
        if not (1 <= msg["code"] < 32):
            return
        q = rc.opt1(msg, rc.URI_QUERY)
        if q is None or not q.startswith(b"t="):
            return
        tag = int(q[2:])
        key = (src, msg["mid"])
        if key in self.seen:
            # a well-behaved server de-duplicates: repeat the acknowledgement only
            ack = self.seen[key]
            if ack is not None and msg["type"] == rc.CON:
                self.send(src, msg=ack)
            return
        op = self.plans.get(tag)
        if op is None:
            return
        beh, d = op["behave"], op["d"]
        payload = b"tag:%d" % tag
        ack = None
        if msg["type"] == rc.NON:
            self.seen[key] = None
            if beh in ("piggy", "sep_non", "sep_con"):
                self.loop.after(d, lambda: self.send(src, msg={"type": rc.NON, "code": rc.CONTENT, "mid": self.next_mid(),
                                                               "token": msg["token"], "options": [], "payload": payload}))
            return
        if beh in ("early_rst", "early_ack"):
            # the response overtakes the acknowledgement: the request is complete while its exchange is still open,
            # and what then ends the exchange (RST or ACK) must not disturb anything
            self.seen[key] = None
            self.sim.probe("response_before_exchange_end")
            self.loop.after(d, lambda: self.send(src, msg={"type": rc.NON, "code": rc.CONTENT, "mid": self.next_mid(),
                                                           "token": msg["token"], "options": [], "payload": payload}))
            self.loop.after(d + 0.2, lambda: self.send(src, msg={
                "type": rc.RST if beh == "early_rst" else rc.ACK, "code": 0, "mid": msg["mid"], "token": b"",
                "options": [], "payload": b""}))
            return
        if beh == "silent":
            self.seen[key] = None
            return
        if beh == "rst":
            ack = {"type": rc.RST, "code": 0, "mid": msg["mid"], "token": b"", "options": [], "payload": b""}
        elif beh == "piggy":
            ack = {"type": rc.ACK, "code": rc.CONTENT, "mid": msg["mid"], "token": msg["token"], "options": [],
                   "payload": payload}
        else:
            ack = {"type": rc.ACK, "code": 0, "mid": msg["mid"], "token": b"", "options": [], "payload": b""}
            typ = rc.CON if beh == "sep_con" else rc.NON
            self.loop.after(d + 0.01, lambda: self.send(src, msg={"type": typ, "code": rc.CONTENT, "mid": self.next_mid(),
                                                                  "token": msg["token"], "options": [], "payload": payload}))
        self.seen[key] = ack
        self.send(src, msg=ack)


def execute_template(sim, scn):
    from aiocoap import Message, GET, error
    from aiocoap.numbers.constants import Unreliable

    loop = sim.loop
    tp = scn["template"]
    client = loop.run_until_complete(sim.client(common.CLIENT_IP))
    me = sim.local_addr(client)
    server = ScriptedEndpoint(sim, common.PEER_IPS[0], 5683)
    seen = []  # (t, token) of the requests the server got

    def handle(msg, src, data):
        if msg is None or not (1 <= msg["code"] < 32):
            return
        if any(tok == msg["token"] for (_t, tok) in seen):
            return
        seen.append((loop.now, msg["token"]))
        opts = [(rc.OBSERVE, rc.uint_bytes(5 + len(seen)))] if tp["observe"] else []
        loop.after(tp["d"], lambda: server.send(src, msg={"type": rc.NON, "code": rc.CONTENT, "mid": server.next_mid(), "token": msg["token"],
                                                         "options": opts, "payload": b"for:" + msg["token"]}))
    server.handle = handle
    sim.probe("one_message_object_in_several_requests")
    m = Message(code=GET, uri="coap://[%s]/poll" % server.addr[0], transport_tuning=Unreliable(), observe=0 if tp["observe"] else None)
    recs = []

    def start(k):
        rec = {"k": k, "req": client.request(m, handle_blockwise=tp["blockwise"]), "done": 0, "outcome": None}
        recs.append(rec)

        def done(f, rec=rec):
            rec["done"] += 1
            rec["outcome"] = "cancelled" if f.cancelled() else ("error" if f.exception() is not None else "response")
            if rec["outcome"] == "response":
                rec["payload"] = bytes(f.result().payload)
            sim.log("app", "done", k, rec["outcome"])
        rec["req"].response.add_done_callback(done)
        if tp["observe"]:
            rec["req"].observation.register_callback(lambda msg_: None)
            rec["req"].observation.register_errback(lambda e: None)

    for k in range(tp["n"]):
        loop.at(0.1 + k * tp["gap"] + k * 1e-4, start, k)

    def cancel_first():
        r0 = recs[0]
        sim.log("app", "cancel", 0)
        if tp.get("cancel_observation_only") and tp["observe"] and not tp["blockwise"]:
            # the application is through with the OBSERVATION (ClientObservation.cancel()) while it still waits for
            # the request's (first) response: that response is still due
            sim.probe("observation_cancelled_while_response_pending")
            if not r0["req"].observation.cancelled:
                r0["req"].observation.cancel()
            r0["obs_only"] = True
        elif not r0["req"].response.done():
            r0["req"].response.cancel()
        elif tp["observe"] and not r0["req"].observation.cancelled:
            r0["req"].observation.cancel()
    loop.at(0.1 + tp["cancel_first_at"], cancel_first)
    late = {}
    if tp["late_con_for_first"]:
        def late_con():
            if seen:
                late["mid"] = 0x7777
                server.send(me, msg={"type": rc.CON, "code": rc.CONTENT, "mid": 0x7777, "token": seen[0][1],
                                     "options": [(rc.OBSERVE, rc.uint_bytes(99))] if tp["observe"] else [], "payload": b"late"})
        loop.at(0.1 + tp["d"] + 5.0, late_con)
    sim.run()
    sim.nontrivial = True
    for rec in recs[:1]:
        if rec.get("obs_only"):
            tok0 = seen[0][1] if seen else None
            if not rec["done"]:
                sim.violation("C02/request-never-completed", {"request": 0, "why": "its observation was cancelled by the application before "
                                                              "the first response arrived; the response future is still awaited"})
            elif rec["outcome"] != "response" or rec.get("payload") != b"for:" + (tok0 or b""):
                sim.violation("C02/response-delivered-to-wrong-request", {"request": 0, "outcome": rec["outcome"], "payload": repr(rec.get("payload"))})
    for rec in recs[1:]:
        ident = {"request": rec["k"], "of": tp["n"], "observe": tp["observe"], "blockwise": tp["blockwise"]}
        tok = seen[rec["k"]][1] if rec["k"] < len(seen) else None
        if not rec["done"]:
            sim.violation("C02/request-never-completed", dict(ident, why="same Message object as an earlier, cancelled request"))
        elif rec["outcome"] != "response" or rec.get("payload") != b"for:" + (tok or b""):
            sim.violation("C02/response-delivered-to-wrong-request", dict(ident, outcome=rec["outcome"], payload=repr(rec.get("payload"))))
        if rec["done"] > 1:
            sim.violation("C02/request-completed-twice", ident)
    if late.get("mid") is not None and recs[0]["outcome"] == "cancelled":
        # (an observation cancelled through ClientObservation.cancel() is known to acknowledge one more notification
        # before it rejects them: not judged here)
        # the first request's token is retired: a confirmable response on it is answered with a Reset
        answers = [e["msg"]["type"] for e in sim.net.wire if e["src"] == me and e["msg"] is not None and e["msg"]["mid"] == late["mid"]
                   and e["msg"]["type"] in (rc.ACK, rc.RST)]
        if answers != [rc.RST]:
            sim.violation("C02/unknown-con-response-not-reset", {"token": "of the cancelled first request", "answers": answers,
                                                                 "observe": tp["observe"]})
    for (t, mm, en, es) in sim.loop_exceptions():
        sim.anomaly("loop-exception:%s" % en, "%s %s" % (mm, es))


def execute_shutdown(sim, scn):
    import asyncio
    from aiocoap import Message, GET, error
    from aiocoap.numbers.constants import Unreliable

    loop = sim.loop
    sp = scn["shutdown"]
    client = loop.run_until_complete(sim.client(common.CLIENT_IP))
    plans = {}
    server = ScriptServer(sim, common.PEER_IPS[0], 5683, plans)
    sim.net.names["good.example"] = common.PEER_IPS[0]
    if sp.get("resolve_delay"):
        sim.net.resolve_delay = sp["resolve_delay"]
    recs = []
    shut = {"started": None, "returned": None, "exc": None}
    sim.probe("shutdown_with_requests_outstanding")

    def start(spec, origin):
        tag = len(recs)
        plans[tag] = {"behave": spec["behave"], "d": spec["d"]}
        host = "good.example" if spec.get("by_name") else "[%s]" % server.addr[0]
        m = Message(code=GET, uri="coap://%s/echo?t=%d" % (host, tag), transport_tuning=None if spec["con"] else Unreliable(),
                    observe=0 if spec.get("observe") else None)
        rec = {"tag": tag, "origin": origin, "done": 0, "outcome": None, "t_start": loop.now, "spec": spec, "errback": 0}
        recs.append(rec)
        sim.log("app", "start", tag, origin)
        try:
            rec["req"] = client.request(m, handle_blockwise=False)
        except Exception as e:
            # refusing synchronously is as good as failing at once -- with a library error
            rec["done"], rec["outcome"], rec["exception"], rec["t_done"] = 1, "error", e, loop.now
            return
        retried = []

        def again(how):
            if retried or spec.get("retry") != how or origin.startswith("retry"):
                return
            retried.append(1)
            sim.probe("request_submitted_from_inside_a_failure_callback")
            if shut["started"] is not None and shut["returned"] is None:
                sim.probe("request_submitted_while_shutdown_under_way")
            start(dict(spec, retry=None), "retry-" + how)

        def done(f, rec=rec):
            rec["done"] += 1
            rec["t_done"] = loop.now
            if f.cancelled():
                rec["outcome"] = "cancelled"
            elif f.exception() is not None:
                rec["outcome"], rec["exception"] = "error", f.exception()
                again("done")
            else:
                rec["outcome"], rec["payload"] = "response", bytes(f.result().payload)
            sim.log("app", "done", tag, rec["outcome"], type(rec.get("exception")).__name__)
        rec["req"].response.add_done_callback(done)
        if spec.get("observe"):
            def errback(e, rec=rec):
                rec["errback"] += 1
                again("errback")
            rec["req"].observation.register_callback(lambda m_: None)
            rec["req"].observation.register_errback(errback)

    for spec in sp["reqs"]:
        loop.at(0.1 + spec["t"], start, spec, "plain")
    for t in sp["around"]:
        loop.at(0.1 + t, start, {"con": True, "d": 0.05, "behave": "piggy", "retry": None}, "around")

    async def do_shutdown():
        shut["started"] = loop.now
        sim.log("app", "shutdown-start")
        try:
            await client.shutdown()
        except Exception as e:
            shut["exc"] = e
        shut["returned"] = loop.now
        sim.log("app", "shutdown-returned")
    loop.at(0.1 + sp["t_shut"], lambda: asyncio.ensure_future(do_shutdown()))
    sim.run()
    sim.nontrivial = True
    if shut["returned"] is None:
        sim.anomaly("shutdown-did-not-return", "")
    for rec in recs:
        ident = {"request": rec["tag"], "origin": rec["origin"], "con": rec["spec"]["con"], "observe": bool(rec["spec"].get("observe")),
                 "t_start": rec["t_start"], "shutdown_started": shut["started"], "shutdown_returned": shut["returned"]}
        if rec["done"] == 0:
            sim.violation("C02/request-never-completed", dict(ident, why="context shut down; the result neither arrived nor failed"))
            continue
        if rec["done"] > 1:
            sim.violation("C02/request-completed-twice", ident)
        if rec["outcome"] == "response" and rec.get("payload") != b"tag:%d" % rec["tag"]:
            sim.violation("C02/response-of-other-request-delivered", dict(ident, payload=repr(rec.get("payload"))))
        if rec["outcome"] == "response" and shut["returned"] is not None and rec["t_done"] > shut["returned"] + TOL:
            sim.violation("C02/response-delivered-after-shutdown", dict(ident, t=rec["t_done"]))
        if rec["outcome"] == "error" and not isinstance(rec["exception"], error.Error):
            sim.violation("C02/failure-not-a-library-error", dict(ident, exc=repr(rec["exception"])))
        if rec["errback"] > 1:
            sim.violation("C02/observation-failed-twice", ident)
    for (t, mm, en, es) in sim.loop_exceptions():
        sim.anomaly("loop-exception:%s" % en, "%s %s" % (mm, es))


def execute(sim, scn):
    if scn.get("template"):
        return execute_template(sim, scn)
    if scn.get("shutdown"):
        return execute_shutdown(sim, scn)
    import asyncio
    import socket
    import aiocoap.resource as resource
    from aiocoap import Message, GET, error
    from aiocoap.numbers.constants import Unreliable

    loop = sim.loop
    sim.net.fate_gen = faults.fate_gen(scn.get("net", {}))
    probes_at = [o["t"] for o in scn["ops"] if o.get("probe")]
    if probes_at:
        # "once faults stop": no random network fault from shortly before the liveness probes on
        t_quiet = min(probes_at) - 100.0
        inner = sim.net.fate_gen
        if inner is not None:
            sim.net.fate_gen = lambda r, entry: (inner(r, entry) if loop.now < t_quiet else ["deliver", 0.005])
    if scn.get("senderr"):
        p = scn["senderr"]
        sim.gens["senderr"] = lambda r: (r.choice([101, 1]) if (r.chance(p) and not (probes_at and loop.now >= min(probes_at) - 100.0)) else 0)
    if scn.get("stall"):
        loop.stall_hook = lambda now: sim.decider.get_indexed(
            "stall", 0, lambda r: (round(r.uniform(0.01, 5), 3) if r.chance(0.02) else 0))

    class Echo(resource.Resource):
        async def render_get(self, request):
            q = dict(x.split("=", 1) for x in request.opt.uri_query)
            d = float(q.get("d", "0"))
            if d:
                await asyncio.sleep(d)
            return Message(payload=b"tag:" + q["t"].encode())

    async def setup():
        site = resource.Site()
        site.add_resource(["echo"], Echo())
        s = await sim.server(site, common.SERVER_IP)
        if scn.get("both_roles"):
            class Slow(resource.Resource):
                async def render_get(self, request):
                    q = dict(x.split("=", 1) for x in request.opt.uri_query)
                    await asyncio.sleep(float(q.get("d", "0.3")))
                    return Message(payload=b"slow")
            site2 = resource.Site()
            site2.add_resource(["slow"], Slow())
            c = await sim.server(site2, common.CLIENT_IP, loggername="coap")
        else:
            c = await sim.client(common.CLIENT_IP)
        return s, c

    server, client = loop.run_until_complete(setup())
    me = sim.local_addr(client)
    plans = [dict() for _ in range(scn["nscripted"] + 1)]
    for tag, op in enumerate(scn["ops"]):
        if op["op"] == "req":
            plans[op["srv"]][tag] = op
    if scn.get("same_host"):
        # the scripted servers are processes on one host (one IP address, different ports): different endpoints
        scripted = [ScriptServer(sim, common.PEER_IPS[0], 5683 + i, plans[i + 1]) for i in range(scn["nscripted"])]
        if len(scripted) > 1:
            sim.probe("servers_share_a_host")
    else:
        scripted = [ScriptServer(sim, common.PEER_IPS[i], 5683, plans[i + 1]) for i in range(scn["nscripted"])]
    addr_of = [(common.SERVER_IP, 5683)] + [s.addr for s in scripted]
    for p_ in scn.get("partitions") or []:
        if p_["srv"] < len(addr_of):
            sim.net.partitions.append((p_["t0"], p_["t0"] + p_["dur"], common.CLIENT_IP, addr_of[p_["srv"]][0]))
            sim.probe("partition")
    sim.net.names["good.example"] = common.PEER_IPS[0]
    sim.net.names["bad.example"] = None
    adversary = ScriptedEndpoint(sim, common.ADV_IP, 5683)
    tracker = common.Tracker(sim)
    delivered = []  # deliveries to the client in processing order

    def dtap(entry, copy, data):
        if entry["dst"] == me:
            delivered.append((loop.now, entry, data, len(sim.events)))

    sim.net.deliver_taps.append(dtap)
    icmps = []
    nforged = [0]

    def do_req(tag, op):
        host = op.get("host")
        if host:
            uri = "coap://%s/echo?t=%d&d=%s" % (host, tag, op["d"])
        else:
            uri = "coap://[%s]:%d/echo?t=%d&d=%s" % (addr_of[op["srv"]][0], addr_of[op["srv"]][1], tag, op["d"])
        msg = Message(code=GET, uri=uri, transport_tuning=None if op["con"] else Unreliable())
        tracker.start(tag, client, msg, handle_blockwise=False)

    def first_request_entry(tag):
        for e in sim.net.wire:
            if e["src"] == me and e["msg"] is not None and 1 <= e["msg"]["code"] < 32:
                q = [v for v in rc.opts(e["msg"], rc.URI_QUERY) if v.startswith(b"t=")]
                if q and int(q[0][2:]) == tag:
                    return e
        return None

    def do_forge(i, op):
        target = op["target"]
        treq = scn["ops"][target] if target < len(scn["ops"]) and scn["ops"][target]["op"] == "req" else None
        if treq is None:
            return
        e = first_request_entry(target)
        typ = {"CON": rc.CON, "NON": rc.NON, "ACK": rc.ACK}[op["mtype"]]
        mid = 0x9000 + i
        kind = op["kind"]
        if kind == "late_copy":
            # replay a genuine response to this request later (right source: it IS a copy of a genuine datagram)
            if e is None:
                return
            gen = [x for x in sim.net.wire if x["dst"] == me and x["src"] == e["dst"] and x["msg"] is not None
                   and x["msg"]["code"] >= 64 and x["msg"]["token"] == e["msg"]["token"] and not x["forged"]]
            if not gen:
                return
            g = gen[0]
            m = dict(g["msg"])
            m["type"] = typ
            if typ != rc.ACK:
                m["mid"] = mid
            sim.probe("late_copy")
            nforged[0] += 1
            sim.net.inject(rc.encode(m), g["src"], me, forged=True, fate=["deliver", op["late"]])
            return
        if e is None and kind != "random_token":
            return
        if kind == "near_token":
            # from the right address, with a token that is almost the outstanding one: zero bytes in front of or behind
            # it, a byte missing (tokens are byte strings, not numbers: these are all different tokens)
            real = e["msg"]["token"]
            token = [b"\0" + real, b"\0\0\0" + real, real + b"\0", real[1:], real[:-1]][i % 5]
            src = e["dst"]
            if token == real or len(token) > 15:
                return
            sim.probe("forged_near_token")
            raw = bytes([(1 << 6) | (typ << 4) | len(token), rc.CONTENT]) + mid.to_bytes(2, "big") + token + b"\xff" + FORGED + b":%d" % i
            nforged[0] += 1
            sim.net.inject(raw, src, me, forged=True, fate=["deliver", 0.005])
            return
        if kind == "random_token":
            token = bytes([0xF0, i & 0xFF, 0x55])
            src = addr_of[treq["srv"]]
            sim.probe("forged_random_token")
        elif kind == "wrong_ip":
            token = e["msg"]["token"]
            src = (common.ADV_IP, e["dst"][1])
            sim.probe("forged_wrong_ip")
        else:
            token = e["msg"]["token"]
            src = (e["dst"][0], e["dst"][1] + 1)
            sim.probe("forged_wrong_port")
        m = {"type": typ, "code": rc.CONTENT, "mid": mid, "token": token, "options": [],
             "payload": FORGED + b":%d" % i}
        nforged[0] += 1
        sim.net.inject(rc.encode(m), src, me, forged=True, fate=["deliver", 0.005])

    if scn.get("mcast"):
        sim.probe("multicast_request_outstanding")
        loop.at(0.0, lambda: tracker.start("mcast", client, Message(code=GET, uri="coap://[ff02::fd]/echo?t=9999&d=0",
                                                                    transport_tuning=Unreliable()), handle_blockwise=False))
    def do_peer_req(i, op):
        if not scn.get("both_roles") or op["srv"] - 1 >= len(scripted):
            return
        srv_ep = scripted[op["srv"] - 1]
        srv_ep.acks_responses = True
        token = bytes([0x5B, i & 0xFF, 0x01])
        if op["token"] == "own":
            # the token of the client's latest request to this server that has not been answered yet
            answered = {e["msg"]["token"] for e in sim.net.wire if e["src"] == srv_ep.addr and e["dst"] == me
                        and e["msg"] is not None and e["msg"]["code"] >= 64}
            mine = [e["msg"]["token"] for e in sim.net.wire if e["src"] == me and e["dst"] == srv_ep.addr
                    and e["msg"] is not None and 1 <= e["msg"]["code"] < 32 and e["msg"]["token"] not in answered]
            if mine:
                token = mine[-1]
                sim.probe("peer_request_under_own_token")
        srv_ep.send(me, msg={"type": rc.CON, "code": rc.GET, "mid": 0x6100 + (i & 0xFF), "token": token,
                             "options": [(rc.URI_PATH, b"slow"), (rc.URI_QUERY, b"d=%r" % op["d"])], "payload": b""})

    for i, op in enumerate(scn["ops"]):
        if op["op"] == "req":
            loop.at(op["t"], do_req, i, op)
        elif op["op"] == "forge":
            loop.at(op["t"], do_forge, i, op)
        elif op["op"] == "peer_req":
            loop.at(op["t"], do_peer_req, i, op)
        else:
            def do_icmp(op=op):
                icmps.append((loop.now, addr_of[op["srv"] % len(addr_of)]))
                sim.net.icmp(me, addr_of[op["srv"] % len(addr_of)], op["errno"])
            loop.at(op["t"], do_icmp)

    sim.run()
    if nforged[0]:
        sim.extra_faults = {"forged": nforged[0]}

    wire = sim.net.wire
    reqs = {}
    for tag, op in enumerate(scn["ops"]):
        if op["op"] != "req":
            continue
        rec = tracker.results.get(tag)
        e = first_request_entry(tag)
        reqs[tag] = {"op": op, "rec": rec, "first": e, "token": e["msg"]["token"] if e else None,
                     "remote": e["dst"] if e else None, "t0": e["t"] if e else None, "matched": None}
    # ---- application-side basics
    for tag, q in reqs.items():
        rec = q["rec"]
        if rec is None:
            continue
        ident = {"tag": tag, "srv": q["op"]["srv"], "con": q["op"]["con"]}
        if rec["done"] > 1:
            sim.violation("C02/request-completed-twice", ident)
        if rec["done"] and rec["outcome"] == "response":
            pl = rec["response"].payload
            if FORGED in pl:
                sim.violation("C02/forged-response-delivered", dict(ident, payload=pl.hex()))
            elif pl != b"tag:%d" % tag:
                sim.violation("C02/response-of-other-request-delivered", dict(ident, payload=pl.hex()))
        if rec["done"] and rec["outcome"] == "error" and not isinstance(rec["exception"], error.Error):
            sim.violation("C02/failure-not-a-library-error", dict(ident, exc=repr(rec["exception"])))
    # ---- token uniqueness among simultaneously outstanding requests to one endpoint
    by_remote = {}
    for tag, q in reqs.items():
        if q["first"] is None:
            continue
        rec = q["rec"]
        end = rec["t_done"] if rec["done"] else float("inf")
        by_remote.setdefault(q["remote"], []).append((q["t0"], end, q["token"], tag))
    for remote, lst in by_remote.items():
        for i in range(len(lst)):
            for j in range(i + 1, len(lst)):
                a, b = lst[i], lst[j]
                if a[2] == b[2] and a[0] < b[1] and b[0] < a[1]:
                    sim.violation("C02/token-reused-while-outstanding", {"remote": fmt(remote), "token": a[2].hex(),
                                                                        "tags": [a[3], b[3]]})
    # ---- walk over everything delivered to the client, in processing order
    wire = sim.net.wire
    expect_rst = {}  # (src, mid) -> count
    expect_ack = {}
    done_pos = {ev[3]: pos for pos, ev in enumerate(sim.events) if ev[1] == "app" and ev[2] == "done"}
    for (t, e, data, dpos) in delivered:
        try:
            m = rc.decode(data)
        except rc.FormatError:
            continue
        if not (64 <= m["code"] < 192) or m["type"] == rc.RST:
            continue
        src = e["src"]
        match = None
        for tag, q in reqs.items():
            if q["first"] is None or q["token"] != m["token"] or q["remote"] != src:
                continue
            if q["t0"] > t + TOL:
                continue
            rec = q["rec"]
            if q["matched"] is not None:
                continue  # token retired by an earlier matching response
            if rec["done"] and rec["outcome"] != "response" and rec["t_done"] < t - TOL:
                continue  # retired by an earlier failure
            if rec["done"] and rec["outcome"] != "response" and abs(rec["t_done"] - t) <= TOL:
                # same instant: the order in the event log decides -- was the failure's cause (send error, ICMP error,
                # Reset) processed before this datagram?
                cause_before = False
                for pos in range(dpos - 1, -1, -1):
                    ev = sim.events[pos]
                    if ev[0] < t - TOL:
                        break
                    if ev[1] == "net" and ev[2] == "senderr" and ev[3] == fmt(me) and ev[4] == fmt(src):
                        cause_before = True
                    if ev[1] == "icmp-inject" and ev[2] == fmt(me) and ev[3] == fmt(src):
                        cause_before = True
                    if ev[1] == "icmp" and ev[2].startswith(fmt(me) + ">" + fmt(src)):
                        cause_before = True
                    if ev[1] == "rx" and ev[2] == fmt(src) + ">" + fmt(me):
                        ee = next((w for w in wire if w["link"] == ev[2] and w["idx"] == ev[3]), None)
                        if ee is not None and ee["msg"] is not None and ee["msg"]["type"] == rc.RST:
                            cause_before = True
                if cause_before:
                    continue  # failed (and retired) before this datagram was processed
                match = tag
                break
            match = tag
            break
        if match == "ambiguous":
            continue
        if match is not None:
            reqs[match]["matched"] = (t, e, m)
            sim.probe("matched")
            if m["type"] == rc.CON:
                expect_ack[(src, m["mid"])] = expect_ack.get((src, m["mid"]), 0) + 1
        else:
            if e["forged"] or any(q["matched"] for q in reqs.values() if q["token"] == m["token"]):
                sim.probe("dup_response_delivered")
            if m["type"] == rc.CON:
                expect_rst[(src, m["mid"])] = expect_rst.get((src, m["mid"]), 0) + 1
                sim.probe("rst_for_unmatched_con")
    sent = [e for e in wire if e["src"] == me and e["msg"] is not None]
    got_rst = {}
    got_ack = {}
    for e in sent:
        m = e["msg"]
        if m["code"] == 0 and m["type"] == rc.RST:
            got_rst[(e["dst"], m["mid"])] = got_rst.get((e["dst"], m["mid"]), 0) + 1
        if m["code"] == 0 and m["type"] == rc.ACK:
            got_ack[(e["dst"], m["mid"])] = got_ack.get((e["dst"], m["mid"]), 0) + 1
    # sends that the (injected) failing sendmsg swallowed count as attempted
    for ev in sim.events:
        if ev[1] == "net" and ev[2] == "senderr" and ev[3] == fmt(me):
            try:
                m = rc.decode(bytes.fromhex(ev[6]))
            except rc.FormatError:
                continue
            try:
                host, _, port = ev[4].rpartition(":")
                dst = (host.strip("[]"), int(port))
            except ValueError:
                continue
            if m["code"] == 0 and m["type"] == rc.RST:
                got_rst[(dst, m["mid"])] = got_rst.get((dst, m["mid"]), 0) + 1
            if m["code"] == 0 and m["type"] == rc.ACK:
                got_ack[(dst, m["mid"])] = got_ack.get((dst, m["mid"]), 0) + 1
    for k in set(expect_rst) | set(got_rst):
        if expect_rst.get(k, 0) != got_rst.get(k, 0):
            kind = "C02/unmatched-con-response-not-reset" if got_rst.get(k, 0) < expect_rst.get(k, 0) else "C02/unexpected-reset"
            sim.violation(kind, {"to": fmt(k[0]), "mid": k[1], "expected": expect_rst.get(k, 0), "sent": got_rst.get(k, 0)})
            break
    for k in set(expect_ack) | set(got_ack):
        if 0x6100 <= k[1] <= 0x61FF and k[0] in [s_.addr for s_ in scripted]:
            continue  # acknowledgements of the requests the scripted servers sent to the context (its server role)
        if expect_ack.get(k, 0) != got_ack.get(k, 0):
            kind = "C02/matched-con-response-not-acked" if got_ack.get(k, 0) < expect_ack.get(k, 0) else "C02/unexpected-ack"
            sim.violation(kind, {"to": fmt(k[0]), "mid": k[1], "expected": expect_ack.get(k, 0), "sent": got_ack.get(k, 0)})
            break
    # ---- per request: outcome versus what was delivered
    senderrs = [(ev[0], ev[4]) for ev in sim.events if ev[1] == "net" and ev[2] == "senderr" and ev[3] == fmt(me)]
    groups = dict(((k[0], k[1]), v) for k, v in common.con_groups(wire, me))
    for tag, q in reqs.items():
        rec = q["rec"]
        if rec is None:
            continue
        op = q["op"]
        ident = {"tag": tag, "srv": op["srv"], "con": op["con"], "behave": op["behave"]}
        if op.get("probe"):
            # bounded liveness: all faults have stopped long ago
            sim.probe("liveness_probe_after_heal")
            if not (rec["done"] and rec["outcome"] == "response"):
                sim.violation("C02/no-progress-after-faults-stopped", dict(ident, outcome=rec.get("outcome"),
                                                                          exc=repr(rec.get("exception"))[:120]))
        if op.get("host") == "bad.example":
            sim.probe("resolution_failure")
            if not (rec["done"] and rec["outcome"] == "error" and isinstance(rec["exception"], error.ResolutionError)):
                sim.violation("C02/resolution-failure-not-reported", dict(ident, outcome=rec.get("outcome")))
            continue
        if rec["done"] and rec["outcome"] == "response":
            mt = q["matched"]
            if mt is None:
                sim.violation("C02/response-without-matching-datagram", ident)
            elif rec["response"].payload != mt[2]["payload"]:
                sim.violation("C02/delivered-payload-differs-from-matching-datagram", ident)
            elif abs(rec["t_done"] - mt[0]) > TOL:
                sim.violation("C02/response-delivered-at-other-time", dict(ident, t_done=rec["t_done"], t_match=mt[0]))
        elif rec["done"] and rec["outcome"] == "error":
            exc = rec["exception"]
            td = rec["t_done"]
            R = q["remote"]
            if R is None:
                # never transmitted (held back behind another exchange): the planned destination
                R = (common.PEER_IPS[0], 5683) if op.get("host") == "good.example" else addr_of[op["srv"]]
            causes = []
            if R is not None:
                if any(abs(t - td) <= TOL and a == R for (t, a) in icmps):
                    causes.append("icmp")
                    sim.probe("failed_by_icmp")
                if any(abs(t - td) <= TOL and d == fmt(R) for (t, d) in senderrs):
                    causes.append("senderr")
                # RST for one of this request's transmissions
                mids = {e["msg"]["mid"] for e in sent if e["dst"] == R and e["msg"]["token"] == q["token"]
                        and 1 <= e["msg"]["code"] < 32}
                for (t, e, data, dpos) in delivered:
                    if e["src"] == R and abs(t - td) <= TOL and e["msg"] is not None and e["msg"]["type"] == rc.RST \
                            and e["msg"]["mid"] in mids:
                        causes.append("rst")
                        sim.probe("failed_by_rst")
                # give-up of any CON exchange towards that remote at that instant
                if isinstance(exc, error.ConRetransmitsExceeded):
                    for (dst, mid), ents in groups.items():
                        if dst == R and len(ents) == 5:
                            causes.append("giveup")
                            sim.probe("failed_by_giveup")
                            break
                # bounce (ICMP generated by the net for an own datagram)
                for e in wire:
                    if e["src"] == me and e["dst"] == R:
                        for (t, err) in e.get("icmp", []):
                            if abs(t - td) <= TOL:
                                causes.append("icmp")
            else:
                if any(abs(t - td) <= TOL for (t, d) in senderrs):
                    causes.append("senderr")
            if not causes and not scn.get("stall"):
                sim.violation("C02/request-failed-without-cause", dict(ident, exc=repr(exc), t_done=td))
            if q["matched"] is not None and q["matched"][0] < td - TOL:
                sim.violation("C02/matching-response-ignored", dict(ident, exc=repr(exc)))
        else:
            sim.probe("pending_at_quiescence")
            if q["matched"] is not None:
                sim.violation("C02/matching-response-not-delivered", dict(ident, t_match=q["matched"][0]))
            # a request may stay pending only if no error indication concerning it was delivered to the endpoint
            tok = bytes(rec["msg"].token) if rec["msg"].token else None
            own_send_failed = False
            for ev in sim.events:
                if ev[1] == "net" and ev[2] == "senderr" and ev[3] == fmt(me):
                    try:
                        fm = rc.decode(bytes.fromhex(ev[6]))
                    except rc.FormatError:
                        continue
                    if tok and fm["token"] == tok and 1 <= fm["code"] < 32:
                        own_send_failed = True
            if own_send_failed:
                sim.violation("C02/request-pending-after-its-send-failed", ident)
            elif q["first"] is not None and not scn.get("stall"):
                R = q["remote"]
                t0 = q["t0"]
                ind = []
                ind += ["icmp" for (t, a) in icmps if a == R and t > t0 + TOL]
                ind += ["senderr" for (t, d) in senderrs if d == fmt(R) and t > t0 + TOL]
                mids = {e["msg"]["mid"] for e in sent if e["dst"] == R and e["msg"]["token"] == q["token"]
                        and 1 <= e["msg"]["code"] < 32}
                for (t, e, data, dpos) in delivered:
                    if e["src"] == R and e["msg"] is not None and e["msg"]["type"] == rc.RST and e["msg"]["mid"] in mids \
                            and not e["forged"]:
                        ind.append("rst")
                for e in wire:
                    if e["src"] == me and e["dst"] == R:
                        ind += ["icmp" for (t, err) in e.get("icmp", []) if t > t0 + TOL]
                if ind:
                    sim.violation("C02/request-pending-despite-error-indication", dict(ident, indications=sorted(set(ind))))
    for (t, m, en, es) in sim.loop_exceptions():
        sim.anomaly("loop-exception:%s" % en, "%s %s" % (m, es))
