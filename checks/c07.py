"""C07 -- observe client: notifications in freshness order, termination signalled once."""

from simkit import refcodec as rc
from simkit.net import ScriptedEndpoint, fmt
from . import common
from .common import TOL

PROPERTY = "C07"
LEVEL = "exploration"
RUNS = {"quick": 3000, "thorough": 60000}
RULE = ("seeded scenarios: a real client observes a scripted server which emits 3-25 notifications with scenario-chosen "
        "Observe values (small steps, equal values, differences around 2^23, wrap-around at 2^24), CON or NON, whose "
        "ARRIVAL instants are chosen directly (any permutation, duplicates, gaps incl. 128 s -/+ epsilon), and a "
        "terminator at any position (response without Observe option with 2.05 / 4.04 / 5.00, ICMP error, or a first "
        "response without Observe); late notifications after the end; consumers: callback/errback interface and the "
        "async-for iterator with a consumer of random speed; plain and BlockwiseRequest wrappers. Systematic: all "
        "permutations of <= 4 notifications x terminator position. Non-trivial = reordering, duplication, a time-rule "
        "boundary or a terminator occurred; distinct = distinct event-sequence hash.")
COMPONENTS_REAL = ["aiocoap.protocol (Request._run, ClientObservation, BlockwiseRequest._run_observation)",
                   "aiocoap.tokenmanager", "aiocoap.messagemanager", "aiocoap.pipe", "aiocoap.transports.udp6"]
COMPONENTS_STUB = ["UDP socket (SimSocket) incl. error queue", "scripted notifying server (reference codec)",
                   "time.time of aiocoap.protocol (virtual wall clock)", "event loop clock (virtual)"]
ASSUMPTIONS = ["freshness is judged on the arrival sequence (V, T) with T the elapsed (monotonic) virtual time at delivery, whatever the wall clock was stepped to meanwhile; the 128 s "
               "boundary is generated at -/+ 1 ms, never exactly",
               "exact equality of the delivered sequence with the reference's accepted sub-sequence is counted, not gated; "
               "gating are: each delivery fresher than the previous one, and the last delivery equals the reference's last accepted",
               "the async iterator is documented as lossy: its deliveries must be a sub-sequence of the callback deliveries "
               "ending with the same element"]
EXPECTED_PROBES = ["application_keeps_only_the_observation", "garbage_collected_mid_run", "reordered", "duplicate", "wraparound", "near_2_23", "time_rule_plus", "time_rule_minus", "final_response",
                   "final_error_code", "icmp_end", "not_observable", "late_notification_con", "late_notification_non",
                   "iterator_busy_at_end", "blockwise_wrapper", "companion_observation", "peer_request_under_observation_token", "wall_clock_step",
                   "iteration_started_late", "iteration_resumed_with_new_loop", "iterator_wait_timed_out",
                   "application_modifies_delivered_notification", "two_concurrent_iterations"]

M24 = 1 << 24
M23 = 1 << 23


def fresher(v1, t1, v2, t2):
    return (v1 < v2 and v2 - v1 < M23) or (v1 > v2 and v1 - v2 > M23) or (t2 > t1 + 128)


def gen_early(r):
    """The registration request itself runs into a transport failure: no response ever arrives (an ICMP error is
    reported for the server, or all copies time out).  The observation ends then, once, with that network error --
    not with 'not observable', which is a statement about a response that was received."""
    if r.chance(0.3):
        # ... or the first response does arrive, says "not observable" (no Observe option) and is the first block of a
        # body whose later blocks fail (the representation changed: another ETag): the observation has ended once,
        # with 'not observable', and the failing transfer is the response's business alone
        return {"early": {"how": "notobs_b2fail", "at": 0.05, "blockwise": True, "con": True, "consumer": r.choice(["callbacks", "both"])},
                "first": {"observe": None, "delay": 0.005}, "events": [], "consumer": {"iter": None, "callbacks": True}}
    return {"early": {"how": r.choice(["icmp", "icmp", "silent"]), "at": r.choice([0.05, 0.3, 2.5]), "blockwise": r.chance(0.5),
                      "con": r.chance(0.8), "consumer": r.choice(["callbacks", "iter", "both"])},
            "first": {"observe": 0, "delay": 0.005}, "events": [], "consumer": {"iter": None, "callbacks": True}}


def gen(r, tier):
    if r.chance(0.05):
        return gen_early(r)
    v0 = r.choice([0, 1, 5, M23 - 2, M23, M24 - 3, M24 - 1, r.randrange(0, M24)])
    first = {"observe": (None if r.chance(0.06) else v0), "delay": r.choice([0.005, 0.05, 0.2])}
    n = r.randint(3, 25) if r.chance(0.5) else r.randint(1, 6)
    # emission sequence
    v = v0
    t = 1.0
    emitted = []
    for i in range(n):
        step = r.weighted([(10, 1), (3, 2), (2, 0), (2, 5), (1, -1), (1, M23 - 1), (1, M23), (1, M23 + 1), (1, 1000)])
        v = (v + step) % M24
        gap = r.weighted([(10, "s"), (2, "m"), (1, "p"), (1, "q"), (1, "l")])
        t += {"s": r.choice([0.0, 0.01, 0.1, 1.0]), "m": r.choice([5.0, 60.0]), "p": 128.0 - 1e-3, "q": 128.0 + 1e-3,
              "l": 200.0}[gap]
        emitted.append({"k": "n", "v": v, "at": round(t, 6), "con": r.chance(0.5)})
    # network: permute arrival instants of some neighbours, duplicate some
    if r.chance(0.6) and len(emitted) > 1:
        for _ in range(r.randint(1, 4)):
            i = r.randrange(0, len(emitted) - 1)
            j = min(len(emitted) - 1, i + r.randint(1, 3))
            emitted[i]["at"], emitted[j]["at"] = emitted[j]["at"], emitted[i]["at"]
    events = list(emitted)
    for e in emitted:
        if r.chance(0.15):
            events.append({"k": "dup", "of": emitted.index(e), "at": round(e["at"] + r.choice([0.0, 0.01, 1.0, 130.0]), 6)})
    if r.chance(0.6):
        pos_t = r.choice([e["at"] for e in emitted]) + r.choice([-0.001, 0.0, 0.001, 0.5])
        kind = r.weighted([(3, "final"), (2, "f404"), (1, "f500"), (2, "icmp")])
        events.append({"k": kind, "at": round(max(0.5, pos_t), 6), "con": r.chance(0.5)})
    if r.chance(0.2):
        # the wall clock is stepped (NTP, an operator, a VM resumed): elapsed time is what the 128 s rule is about
        for _ in range(r.randint(1, 2)):
            events.append({"k": "jump", "at": round(r.uniform(0.5, max(1.0, t)), 6),
                           "by": r.choice([-3600.0, -200.0, -129.0, 129.0, 200.0, 3600.0, 86400.0])})
    events.sort(key=lambda e: e["at"])
    consumer = {"iter": r.choice([None, 0.0, 0.0, 0.05, 0.5, 3.0]), "callbacks": True}
    if consumer["iter"] is None and r.chance(0.5):
        consumer["mutate"] = r.choice(["zero", "none", "big", "minus"])
    if consumer["iter"] is not None:
        # how the application consumes: one loop from the start; a loop entered late; waits with time-outs; a second loop
        consumer["style"] = r.weighted([(5, "for"), (2, "timeouts"), (2, "two_loops"), (2, "two_concurrent")])
        if consumer["style"] == "two_concurrent":
            consumer["slow"] = r.choice([0.3, 1.0, 4.0])
        consumer["start"] = r.choice([0.0, 0.0, 0.0, 0.3, 2.0, 20.0, 150.0])
        if consumer["style"] == "timeouts":
            consumer["timeouts"] = [r.choice([0.01, 0.3, 1.0, 5.0, 60.0, 200.0]) for _ in range(r.randint(1, 4))]
        elif consumer["style"] == "two_loops":
            consumer["first_items"] = r.randint(1, 3)
            consumer["pause"] = r.choice([0.0, 0.5, 5.0, 150.0])
    # a second observation of the same client at the same server (another resource, another token) with a steady
    # stream of in-order notifications: what happens to one observation must not spill over to the other
    # the application keeps nothing but `request.observation` once it has the first response (the request object, its
    # message and the response become garbage -- cyclic garbage, freed when the collector runs, which the scenario
    # schedules): the observation goes on all the same
    forget = r.chance(0.2)
    t_last = max([e["at"] for e in events] or [0])
    return {"first": first, "events": events, "consumer": consumer, "blockwise": r.chance(0.25),
            "forget_request": forget,
            "gc_at": sorted(round(r.uniform(0.0, t_last + 1.0), 3) for _ in range(r.choice([1, 3, 8]))) if forget else [],
            "companion": r.chance(0.25),
            # both roles: shortly before a transport error the server asks the observing context for something (slow
            # handler) under the very token of the observation (tokens are per direction)
            "peer_req": r.chance(0.4) and any(e["k"] == "icmp" for e in events)}


def systematic(tier):
    import itertools
    out = []
    for n in (2, 3, 4):
        vals = [10 + i for i in range(n)]
        perms = list(itertools.permutations(range(n)))
        for perm in perms:
            for term in ([None] + list(range(n + 1))):
                if tier == "quick" and n == 4 and (sum(perm) + (term or 0)) % 3:
                    continue
                events = []
                for pos, idx in enumerate(perm):
                    events.append({"k": "n", "v": vals[idx], "at": 1.0 + pos, "con": bool(idx % 2)})
                if term is not None:
                    events.append({"k": "final", "at": 0.5 + term, "con": True})
                events.sort(key=lambda e: e["at"])
                for it in (None, 0.0, 1.5):
                    out.append({"first": {"observe": 9, "delay": 0.005}, "events": events,
                                "consumer": {"iter": it, "callbacks": True}, "blockwise": False})
                if n == 3:
                    for mut in ("zero", "none", "big"):
                        out.append({"first": {"observe": 9, "delay": 0.005}, "events": events,
                                    "consumer": {"iter": None, "callbacks": True, "mutate": mut}, "blockwise": bool(len(perm) % 2)})
                    # the ways an application may consume the iterator
                    for cons in ({"style": "for", "start": 2.5}, {"style": "for", "start": 10.0},
                                 {"style": "timeouts", "timeouts": [0.4]}, {"style": "timeouts", "timeouts": [0.4], "start": 1.7},
                                 {"style": "two_loops", "first_items": 1, "pause": 1.2},
                                 {"style": "two_loops", "first_items": 2, "pause": 10.0},
                                 {"style": "two_concurrent", "slow": 1.5}, {"style": "two_concurrent", "slow": 0.2}):
                        out.append({"first": {"observe": 9, "delay": 0.005}, "events": events,
                                    "consumer": dict({"iter": 0.0, "callbacks": True}, **cons), "blockwise": False})
    return out


def shrink(scn):
    if scn.get("early"):
        return
    ev = scn["events"]
    for i in range(len(ev)):
        if ev[i]["k"] == "dup":
            c = dict(scn)
            c["events"] = ev[:i] + ev[i + 1:]
            yield c
    for i in range(len(ev)):
        if ev[i]["k"] == "n" and not any(e["k"] == "dup" for e in ev):
            c = dict(scn)
            c["events"] = ev[:i] + ev[i + 1:]
            yield c
    if scn.get("blockwise"):
        c = dict(scn)
        c["blockwise"] = False
        yield c
    cons = scn["consumer"]
    if cons.get("start"):
        c = dict(scn)
        c["consumer"] = dict(cons, start=0.0)
        yield c
    if cons.get("style", "for") != "for":
        c = dict(scn)
        c["consumer"] = {k: v for k, v in cons.items() if k not in ("style", "timeouts", "first_items", "pause")}
        yield c


class NotifyServer(ScriptedEndpoint):
    def __init__(self, sim, ip, port, scn):
        super().__init__(sim, ip, port)
        self.scn = scn
        self.registered = None

    def handle(self, msg, src, data):
        if msg is None:
            return
        if 1 <= msg["code"] < 32 and rc.opt1(msg, rc.URI_PATH) == b"other" and rc.opt1(msg, rc.OBSERVE) is not None:
            if getattr(self, "companion", None) is None:
                self.companion = (src, msg["token"], self.loop.now)
                self.send(src, msg={"type": rc.ACK if msg["type"] == rc.CON else rc.NON, "code": rc.CONTENT, "mid": msg["mid"],
                                    "token": msg["token"], "options": [(rc.OBSERVE, rc.uint_bytes(1000))],
                                    "payload": b"c-first"}, fate=["deliver", 0.005])
                horizon = max([e["at"] for e in self.scn["events"]] + [1.0]) + 150.0
                t, k = 0.7, 0
                self.companion_sent = []
                while t < horizon and k < 60:
                    k += 1
                    self.send(src, msg={"type": rc.NON, "code": rc.CONTENT, "mid": 0x6000 + k, "token": msg["token"],
                                        "options": [(rc.OBSERVE, rc.uint_bytes(1000 + k))], "payload": b"c%d" % k},
                              fate=["at", self.loop.now + t])
                    self.companion_sent.append((self.loop.now + t, b"c%d" % k))
                    t = t * 1.6 + 0.37
            return
        if 1 <= msg["code"] < 32 and self.registered is None and rc.opt1(msg, rc.OBSERVE) is not None:
            self.registered = (src, msg["token"], self.loop.now)
            first = self.scn["first"]
            opts = []
            if first["observe"] is not None:
                opts.append((rc.OBSERVE, rc.uint_bytes(first["observe"])))
            m = {"type": rc.ACK if msg["type"] == rc.CON else rc.NON, "code": rc.CONTENT, "mid": msg["mid"],
                 "token": msg["token"], "options": opts, "payload": b"first"}
            self.send(src, msg=m, fate=["deliver", first["delay"]])
            base = self.loop.now
            raws = {}
            emitted_idx = 0
            for i, e in enumerate(self.scn["events"]):
                if e["k"] == "n":
                    m = {"type": rc.CON if e["con"] else rc.NON, "code": rc.CONTENT, "mid": 0x4000 + i,
                         "token": msg["token"], "options": [(rc.OBSERVE, rc.uint_bytes(e["v"]))],
                         "payload": b"n%d" % i}
                    raws[i] = rc.encode(m)
                    self.send(src, raw=raws[i], fate=["at", base + e["at"]])
                elif e["k"] in ("final", "f404", "f500"):
                    code = {"final": rc.CONTENT, "f404": rc.NOT_FOUND, "f500": rc.INTERNAL_SERVER_ERROR}[e["k"]]
                    m = {"type": rc.CON if e.get("con") else rc.NON, "code": code, "mid": 0x4000 + i,
                         "token": msg["token"], "options": [], "payload": b"final%d" % i}
                    self.send(src, raw=rc.encode(m), fate=["at", base + e["at"]])
                elif e["k"] == "jump":
                    def step(by=e["by"]):
                        self.sim.timeshim.offset += by
                        self.sim.log("clock", "wall-clock-step", by)
                        self.sim.probe("wall_clock_step")
                        self.sim.net.count("fault.clock_step")
                    self.loop.at(base + e["at"], step)
                elif e["k"] == "icmp":
                    self.loop.at(base + e["at"], self.sim.net.icmp, src, self.addr, 111)
                    if self.scn.get("peer_req"):
                        self.sim.probe("peer_request_under_observation_token")
                        self.send(src, msg={"type": rc.CON, "code": rc.GET, "mid": 0x4F00, "token": msg["token"],
                                            "options": [(rc.URI_PATH, b"slow")], "payload": b""},
                                  fate=["at", max(self.loop.now + 0.01, base + e["at"] - 0.05)])
            ns = [i for i, e in enumerate(self.scn["events"]) if e["k"] == "n"]
            for i, e in enumerate(self.scn["events"]):
                if e["k"] == "dup" and e["of"] < len(ns):
                    self.send(src, raw=raws[ns[e["of"]]], fate=["at", base + e["at"]])


def execute_early(sim, scn):
    import asyncio
    from aiocoap import Message, GET, error
    from aiocoap.numbers.constants import TransportTuning

    loop = sim.loop
    ea = scn["early"]
    client = loop.run_until_complete(sim.client(common.CLIENT_IP))
    me = sim.local_addr(client)
    seen = []

    class Mute(ScriptedEndpoint):
        def handle(self, msg, src, data):
            if msg is not None and 1 <= msg["code"] < 32:
                seen.append(loop.now)
                if ea["how"] == "icmp" and len(seen) == 1:
                    loop.after(ea["at"], sim.net.icmp, src, self.addr, 111)
                if ea["how"] == "notobs_b2fail":
                    b2 = rc.opt1(msg, rc.BLOCK2)
                    num = rc.block_value(b2)[0] if b2 is not None else 0
                    self.send(src, msg={"type": rc.ACK if msg["type"] == rc.CON else rc.NON, "code": rc.CONTENT, "mid": msg["mid"],
                                        "token": msg["token"], "payload": b"%016d" % num,
                                        "options": [(rc.ETAG, b"a" if num == 0 else b"b"), (rc.BLOCK2, rc.block_bytes(num, True, 0))]})

    server = Mute(sim, common.PEER_IPS[0], 5683)
    log = {"first": None, "cb": [], "err": [], "iter": [], "iter_end": None}
    sim.probe("registration_request_fails_in_transport")

    def start():
        class Quick(TransportTuning):
            ACK_TIMEOUT = 0.5
            MAX_RETRANSMIT = 2
        msg = Message(code=GET, uri="coap://[%s]/obs" % server.addr[0], observe=0, transport_tuning=Quick())
        if not ea["con"]:
            msg.mtype = aiocoap.NON
        req = client.request(msg, handle_blockwise=ea["blockwise"])
        log["req"] = req

        def on_first(f):
            log["first"] = ("cancelled", None) if f.cancelled() else (("error", f.exception()) if f.exception() is not None else ("response", f.result()))
        req.response.add_done_callback(on_first)
        if ea["consumer"] in ("callbacks", "both"):
            req.observation.register_callback(lambda m: log["cb"].append(bytes(m.payload)))
            req.observation.register_errback(lambda e: log["err"].append(e))
        if ea["consumer"] in ("iter", "both"):
            async def consume():
                try:
                    async for m in req.observation:
                        log["iter"].append(bytes(m.payload))
                    log["iter_end"] = ("clean", None)
                except Exception as e:
                    log["iter_end"] = ("raised", e)
            log["task"] = loop.create_task(consume())
    import aiocoap
    loop.at(0.0, start)
    sim.run(horizon=400.0)
    sim.nontrivial = True
    ident = dict(ea)
    if not ea["con"] and ea["how"] == "silent":
        return  # (a non-confirmable request nobody answers just stays open: nothing ever fails)
    if log["first"] is None:
        sim.violation("C07/request-never-completed", ident)
        return
    if ea["how"] == "notobs_b2fail":
        sim.probe("not_observable")
        if log["first"][0] != "error" or not isinstance(log["first"][1], error.Error):
            sim.violation("C07/response-not-failed-with-library-error", dict(ident, first=repr(log["first"][1])[:100]))
        if len(log["err"]) != 1 or not isinstance(log["err"][0], error.NotObservable):
            sim.violation("C07/termination-without-cause" if not log["err"] else "C07/observation-ended-twice",
                          dict(ident, errors=[repr(e)[:80] for e in log["err"]]))
        import gc
        log.pop("req", None)
        gc.collect()
        for (t, m, en, es) in sim.loop_exceptions():
            if en == "RuntimeError" and "already cancelled" in (es or ""):
                sim.violation("C07/observation-ended-twice", dict(ident, loop_exception="%s: %s" % (en, es)))
        return
    if log["first"][0] != "error" or not isinstance(log["first"][1], error.NetworkError):
        sim.violation("C07/network-error-not-signalled", dict(ident, first=repr(log["first"][1])[:100], where="response"))
    if ea["consumer"] in ("callbacks", "both"):
        if log["cb"]:
            sim.violation("C07/delivery-after-end", dict(ident, n=len(log["cb"])))
        if len(log["err"]) != 1 or not isinstance(log["err"][0], error.NetworkError):
            sim.violation("C07/network-error-not-signalled", dict(ident, errors=[repr(e)[:80] for e in log["err"]], where="errback"))
    if ea["consumer"] in ("iter", "both"):
        if log["iter_end"] is None:
            sim.violation("C07/iterator-never-ends", ident)
        elif log["iter_end"][0] != "raised" or not isinstance(log["iter_end"][1], error.NetworkError):
            sim.violation("C07/network-error-not-signalled", dict(ident, iteration=log["iter_end"][0], exc=repr(log["iter_end"][1])[:80],
                                                                 where="iteration"))
    for (t, m, en, es) in sim.loop_exceptions():
        sim.anomaly("loop-exception:%s" % en, "%s %s" % (m, es))


def execute(sim, scn):
    if scn.get("early"):
        return execute_early(sim, scn)
    import asyncio
    from aiocoap import Message, GET, error

    loop = sim.loop
    if scn.get("peer_req"):
        import aiocoap.resource as resource

        class Slow(resource.Resource):
            async def render_get(self, request):
                await asyncio.sleep(5.0)
                return Message(payload=b"slow")

        async def setup_both():
            site = resource.Site()
            site.add_resource(["slow"], Slow())
            return await sim.server(site, common.CLIENT_IP, loggername="coap")
        client = loop.run_until_complete(setup_both())
    else:
        client = loop.run_until_complete(sim.client(common.CLIENT_IP))
    me = sim.local_addr(client)
    server = NotifyServer(sim, common.PEER_IPS[0], 5683, scn)
    delivered = []  # (t, entry, data) in processing order

    def dtap(entry, copy, data):
        if entry["dst"] == me:
            delivered.append((loop.now, entry, data, len(sim.events)))

    sim.net.deliver_taps.append(dtap)
    cb_log = []  # (t, payload, observe, pos)
    err_log = []
    it_log = []
    it_end = []
    state = {"req": None, "first": None}

    def start():
        msg = Message(code=GET, uri="coap://[%s]/obs" % server.addr[0], observe=0)
        req = client.request(msg, handle_blockwise=bool(scn.get("blockwise")))
        state["req"] = req
        if scn.get("blockwise"):
            sim.probe("blockwise_wrapper")

        def on_first(f):
            if f.cancelled():
                state["first"] = ("cancelled", None)
            elif f.exception() is not None:
                state["first"] = ("error", f.exception())
            else:
                state["first"] = ("response", f.result())
            sim.log("app", "first", state["first"][0])
            if scn.get("forget_request"):
                sim.probe("application_keeps_only_the_observation")
                state["req"] = None

        req.response.add_done_callback(on_first)
        obs = req.observation
        state["obs"] = obs  # (an application that keeps neither the request nor the observation has lost interest)
        del req

        def cb(m):
            cb_log.append((loop.now, bytes(m.payload), m.opt.observe, len(sim.events)))
            sim.log("app", "notify", bytes(m.payload).decode(), m.opt.observe)
            mut = scn["consumer"].get("mutate")
            if mut is not None:
                # what it was handed is the application's: a relay re-labels the notification for its own observers,
                # another strips the option before passing the message on
                # (a moment later, when it gets round to it -- not from inside the callback)
                sim.probe("application_modifies_delivered_notification")

                def modify(m=m):
                    m.opt.observe = {"zero": 0, "none": None, "big": 9000000, "minus": max(0, (m.opt.observe or 0) - 100)}[mut]
                loop.call_soon(modify)

        def eb(e):
            err_log.append((loop.now, e, len(sim.events)))
            sim.log("app", "obs-error", type(e).__name__)

        obs.register_callback(cb)
        obs.register_errback(eb)
        d = scn["consumer"]["iter"]
        style = scn["consumer"].get("style", "for")
        d0 = scn["consumer"].get("start", 0.0)
        if d is not None:
            def got(m, loop_no):
                it_log.append((loop.now, bytes(m.payload), m.opt.observe, loop_no))
                sim.log("app", "iter", bytes(m.payload).decode())

            async def plain_loop(loop_no, limit=None):
                n = 0
                async for m in obs:
                    got(m, loop_no)
                    n += 1
                    if limit is not None and n >= limit:
                        return False  # (left with `break`: the iterator is abandoned)
                    if d:
                        await asyncio.sleep(d)
                return True

            async def consume():
                try:
                    if d0:
                        # the application turns to the observation only after a while (it was busy with the first
                        # response): what arrived meanwhile must not be lost
                        sim.probe("iteration_started_late")
                        await asyncio.sleep(d0)
                    if style == "two_loops":
                        # one `async for` left after a few items, another one entered later on the same observation
                        sim.probe("iteration_resumed_with_new_loop")
                        if not await plain_loop(0, limit=scn["consumer"].get("first_items", 1)):
                            await asyncio.sleep(scn["consumer"].get("pause", 1.0))
                            await plain_loop(1)
                    elif style == "timeouts":
                        # every wait for the next item has a time-out (asyncio.wait_for cancels the waiting at its
                        # await point); after a time-out the application simply waits again
                        tmo = scn["consumer"].get("timeouts", [1.0])
                        it = obs.__aiter__()
                        k = 0
                        while True:
                            try:
                                if k < 60:
                                    m = await asyncio.wait_for(it.__anext__(), tmo[k % len(tmo)])
                                else:
                                    m = await it.__anext__()
                            except asyncio.TimeoutError:
                                k += 1
                                sim.probe("iterator_wait_timed_out")
                                continue
                            except StopAsyncIteration:
                                break
                            got(m, 0)
                            if d:
                                await asyncio.sleep(d)
                    elif style == "two_concurrent":
                        # two parts of the application iterate over the one observation at the same time, one of them
                        # slower than the other: each has a (lossy) view of its own and gets the freshest / the final item
                        sim.probe("two_concurrent_iterations")
                        other_done = loop.create_future()

                        async def second():
                            try:
                                async for m in obs:
                                    it2_log.append((loop.now, bytes(m.payload), m.opt.observe))
                                    await asyncio.sleep(scn["consumer"].get("slow", 1.0))
                                it2_end.append((loop.now, "stop"))
                            except BaseException as e:
                                if isinstance(e, (SystemExit, KeyboardInterrupt, GeneratorExit)):
                                    raise
                                it2_end.append((loop.now, e))
                        keep.append(loop.create_task(second()))
                        await plain_loop(0)
                    else:
                        await plain_loop(0)
                    it_end.append((loop.now, "stop"))
                    sim.log("app", "iter-end", "stop")
                except BaseException as e:
                    if isinstance(e, (SystemExit, KeyboardInterrupt, GeneratorExit)):
                        raise
                    it_end.append((loop.now, e))
                    sim.log("app", "iter-end", type(e).__name__)
            keep.append(loop.create_task(consume()))

    keep = []
    it2_log = []
    it2_end = []
    comp_log = []
    comp_err = []

    def start_companion():
        sim.probe("companion_observation")
        req = client.request(Message(code=GET, uri="coap://[%s]/other" % server.addr[0], observe=0), handle_blockwise=False)
        state["companion"] = req
        req.observation.register_callback(lambda m: comp_log.append((loop.now, bytes(m.payload))))
        req.observation.register_errback(lambda e: comp_err.append((loop.now, e)))

    loop.at(0.0, start)
    if scn.get("companion"):
        loop.at(0.0, start_companion)

    def collect():
        import gc
        sim.probe("garbage_collected_mid_run")
        gc.collect()
    for tg in scn.get("gc_at") or []:
        loop.at(tg, collect)
    sim.run()
    if scn.get("companion") and getattr(server, "companion", None) is not None:
        # the companion's stream is in order and loss-free: every notification is handed over, once, in order -- up to
        # a transport error reported for the server (which legitimately ends both observations)
        t_icmp = min([ev[0] for ev in sim.events if ev[1] == "icmp-inject"] + [float("inf")])
        expect = [p for (t, p) in server.companion_sent if t < t_icmp - TOL]
        got = [p for (t, p) in comp_log if t < t_icmp - TOL]
        if got != expect:
            sim.violation("C07/other-observation-disturbed", {"expected": len(expect), "got": len(got),
                                                              "first_difference": next((i for i, (a, b) in enumerate(zip(got, expect)) if a != b),
                                                                                       min(len(got), len(expect)))})
        if comp_err and comp_err[0][0] < t_icmp - TOL:
            sim.violation("C07/other-observation-ended", {"t": comp_err[0][0], "error": repr(comp_err[0][1])})

    # ------------------------------------------------------------------ oracle
    ident = {"first_observe": scn["first"]["observe"], "blockwise": bool(scn.get("blockwise")),
             "iter": scn["consumer"]["iter"]}
    first = state["first"]
    if first is None or first[0] != "response":
        sim.violation("C07/first-response-not-delivered", dict(ident, got=str(first)))
        return
    if len(err_log) > 1:
        sim.violation("C07/termination-signalled-more-than-once", dict(ident, errors=[type(e).__name__ for (_, e, _) in err_log]))
    if scn["first"]["observe"] is None:
        sim.probe("not_observable")
        if len(err_log) != 1 or not isinstance(err_log[0][1], error.NotObservable):
            sim.violation("C07/not-observable-not-signalled", dict(ident, errors=[repr(e) for (_, e, _) in err_log]))
        if cb_log:
            sim.violation("C07/delivery-after-end", dict(ident, n=len(cb_log)))
        # later notifications on the token are unknown responses now
        check_rejections(sim, server, me, delivered, t_end=server.registered[2] if server.registered else 0.0,
                         pos_end=0, ident=ident)
        return
    token = server.registered[1]
    # arrival sequence of datagrams on the token
    arrivals = []
    t_first = None
    for (t, e, data, pos) in delivered:
        try:
            m = rc.decode(data)
        except rc.FormatError:
            continue
        if e["src"] != server.addr or m["token"] != token or not (64 <= m["code"] < 192):
            continue
        o = rc.opt1(m, rc.OBSERVE)
        arrivals.append({"t": t, "v": rc.uint_value(o) if o is not None else None, "payload": m["payload"],
                         "type": m["type"], "mid": m["mid"], "code": m["code"], "pos": pos})
    icmp_ts = [(ev[0], i) for i, ev in enumerate(sim.events) if ev[1] == "icmp-inject"]
    # find the end of the observation: first response without Observe after the first response, or ICMP
    end = None
    acc = []  # reference's accepted notifications
    v1 = t1 = None
    time_tie = False
    seq = sorted([("a", a["pos"], a) for a in arrivals[0:]] + [("i", p, t) for (t, p) in icmp_ts], key=lambda x: x[1])
    started = False
    for kind, pos, x in seq:
        if end is not None:
            break
        if kind == "i":
            if started:
                end = {"how": "icmp", "t": x, "pos": pos}
            continue
        if not started:
            started = True
            v1, t1 = x["v"], x["t"]
            continue
        if x["v"] is None:
            end = {"how": "final", "t": x["t"], "pos": pos, "payload": x["payload"], "code": x["code"]}
            continue
        serial_fresh = (v1 < x["v"] and x["v"] - v1 < M23) or (v1 > x["v"] and v1 - x["v"] > M23)
        if not serial_fresh and abs((x["t"] - t1) - 128.0) < 1e-6:
            # exactly on the 128 s boundary (sums of generated gaps can land there): either verdict is legal and
            # everything after depends on it
            time_tie = True
        if fresher(v1, t1, x["v"], x["t"]):
            acc.append(x)
            if x["v"] < v1 and v1 - x["v"] > M23:
                sim.probe("wraparound")
            if abs(abs(x["v"] - v1) - M23) <= 1:
                sim.probe("near_2_23")
            if not ((v1 < x["v"] and x["v"] - v1 < M23) or (v1 > x["v"] and v1 - x["v"] > M23)):
                sim.probe("time_rule_plus")
            v1, t1 = x["v"], x["t"]
        else:
            if 127.9 < x["t"] - t1 <= 128:
                sim.probe("time_rule_minus")
            if any(a["payload"] == x["payload"] and a["pos"] < x["pos"] for a in arrivals):
                sim.probe("duplicate")
            else:
                sim.probe("reordered")
    if time_tie:
        sim.probe("time_rule_exact_tie")
        return
    expected = [(a["payload"], a["v"]) for a in acc]
    if end is not None and end["how"] == "final":
        expected_final = (end["payload"], None)
    else:
        expected_final = None
    got = [(p, v) for (t, p, v, pos) in cb_log]
    if scn.get("blockwise") or True:
        pass
    sim.nontrivial = bool(end) or len(acc) != len([a for a in arrivals[1:] if a["v"] is not None])
    # (1) only-if: each delivery fresher than the previous delivery (by arrival attributes)
    by_payload = {}
    for a in arrivals:
        by_payload.setdefault(a["payload"], a)
    prev = (arrivals[0]["v"], arrivals[0]["t"]) if arrivals else None
    got_notifs = [g for g in got if g[1] is not None]
    # map each delivery to the arrival that caused it: same payload, arrival at the delivery instant
    for (t, p, v, pos) in cb_log:
        if v is None:
            continue
        if scn.get("blockwise"):
            # through the lossy iterator the chain of comparisons runs over notifications the application never
            # saw (serial-number comparison is not transitive); membership in the accepted sequence is checked below
            break
        cands = [a for a in arrivals if a["payload"] == p and abs(a["t"] - t) <= TOL] if not scn.get("blockwise") else \
                [a for a in arrivals if a["payload"] == p and a["t"] <= t + TOL]
        if not cands:
            sim.violation("C07/delivery-without-arrival", dict(ident, payload=p.decode(), t=t))
            break
        fresh = [a for a in cands if prev is None or fresher(prev[0], prev[1], a["v"], a["t"])]
        if not fresh:
            a = cands[0]
            sim.violation("C07/stale-notification-delivered", dict(ident, previous=list(prev), delivered=[a["v"], a["t"]],
                                                                    payload=p.decode()))
            break
        a = fresh[0]
        prev = (a["v"], a["t"])
    # nothing delivered after the end
    if end is not None:
        late = [x for x in cb_log if x[3] > end["pos"] and not (x[2] is None)]
        late_final = [x for x in cb_log if x[2] is None and x[3] > end["pos"] + 64]
        if late and not scn.get("blockwise"):
            sim.violation("C07/delivery-after-end", dict(ident, n=len(late)))
    # (2) the freshest that arrives is eventually delivered
    exp_last = expected[-1] if expected else None
    got_last = got_notifs[-1] if got_notifs else None
    if scn.get("blockwise"):
        # BlockwiseRequest forwards notifications through the (documented lossy) async iterator: what reaches the
        # application must be a sub-sequence of the reference's accepted sequence (plus the final response) that
        # ends with its last element
        full = expected + ([expected_final] if expected_final else [])
        j = 0
        sub = True
        for x in got:
            while j < len(full) and full[j] != x:
                j += 1
            if j == len(full):
                sub = False
                break
            j += 1
        if not sub:
            sim.violation("C07/delivery-not-in-accepted-sequence", dict(ident, got=str(got[:6]), expected=str(full[:6])))
        elif full[-1:] != got[-1:]:
            if end is not None:
                sim.probe("iterator_busy_at_end")
                sim.violation("C07/iterator-drops-unconsumed-on-termination",
                              dict(ident, last_expected=str(full[-1:]), last_delivered=str(got[-1:]), end=end["how"],
                                   via="BlockwiseRequest._run_observation"))
            else:
                sim.violation("C07/freshest-notification-not-delivered", dict(ident, expected=str(full[-1:]), got=str(got[-1:])))
    elif exp_last != got_last:
        sim.violation("C07/freshest-notification-not-delivered", dict(ident, expected=str(exp_last), got=str(got_last),
                                                                       n_expected=len(expected), n_got=len(got_notifs)))
    elif got_notifs != expected:
        sim.anomaly("delivered-sequence-differs-from-reference", "%d vs %d" % (len(got_notifs), len(expected)))
    # termination
    if end is None:
        if err_log:
            sim.violation("C07/termination-without-cause", dict(ident, errors=[repr(e) for (_, e, _) in err_log]))
    else:
        if end["how"] == "final":
            sim.probe("final_response" if end["code"] == rc.CONTENT else "final_error_code")
            finals = [g for g in got if g[1] is None]
            if finals != [expected_final] and not (scn.get("blockwise") and not finals):
                sim.violation("C07/final-response-not-delivered", dict(ident, finals=str(finals), expected=str(expected_final)))
            if len(err_log) != 1 or not isinstance(err_log[0][1], error.ObservationCancelled):
                sim.violation("C07/cancellation-not-signalled", dict(ident, errors=[repr(e) for (_, e, _) in err_log]))
            elif cb_log and cb_log[-1][3] > err_log[0][2]:
                sim.violation("C07/delivery-after-end", dict(ident, n=1))
        else:
            sim.probe("icmp_end")
            if len(err_log) != 1 or not isinstance(err_log[0][1], error.NetworkError):
                sim.violation("C07/network-error-not-signalled", dict(ident, errors=[repr(e) for (_, e, _) in err_log]))
        check_rejections(sim, server, me, delivered, t_end=end["t"], pos_end=end["pos"], ident=ident)
    # (3) iterator: sub-sequence of the callback deliveries, same last element, ends as the errback says
    if scn["consumer"]["iter"] is not None:
        it = []
        for n_, (t, p, v, loop_no) in enumerate(it_log):
            if n_ and it_log[n_ - 1][3] != loop_no and it and it[-1] == (p, v):
                continue  # a new loop is first handed the latest item again (it is a new listener)
            it.append((p, v))
        full = got
        j = 0
        ok = True
        for x in it:
            while j < len(full) and full[j] != x:
                j += 1
            if j == len(full):
                ok = False
                break
            j += 1
        if not ok:
            sim.violation("C07/iterator-delivery-not-in-callback-sequence", dict(ident, iterator=str(it[:6]), callbacks=str(full[:6])))
        elif (full[-1:] != it[-1:]):
            busy = scn["consumer"]["iter"] > 0
            if end is not None:
                sim.probe("iterator_busy_at_end")
                sim.violation("C07/iterator-drops-unconsumed-on-termination",
                              dict(ident, last_callback=str(full[-1:]), last_iterator=str(it[-1:]), end=end["how"]))
            else:
                sim.violation("C07/iterator-misses-freshest", dict(ident, last_callback=str(full[-1:]), last_iterator=str(it[-1:])))
        if end is not None:
            if not it_end:
                sim.violation("C07/iterator-never-ends", ident)
            elif end["how"] == "final" and it_end[0][1] != "stop":
                sim.violation("C07/iterator-ends-with-wrong-signal", dict(ident, got=repr(it_end[0][1])))
            elif end["how"] == "icmp" and not isinstance(it_end[0][1], error.NetworkError):
                sim.violation("C07/iterator-ends-with-wrong-signal", dict(ident, got=repr(it_end[0][1])))
        elif it_end:
            sim.violation("C07/iterator-ended-without-cause", dict(ident, got=repr(it_end[0][1])))
    if scn["consumer"].get("style") == "two_concurrent" and scn["consumer"]["iter"] is not None:
        it2 = [(p, v) for (t, p, v) in it2_log]
        j = 0
        ok2 = True
        for x in it2:
            while j < len(got) and got[j] != x:
                j += 1
            if j == len(got):
                ok2 = False
                break
            j += 1
        if not ok2:
            sim.violation("C07/iterator-delivery-not-in-callback-sequence", dict(ident, consumer="second", iterator=str(it2[:6]), callbacks=str(got[:6])))
        elif got[-1:] != it2[-1:]:
            sim.violation("C07/iterator-drops-unconsumed-on-termination" if end is not None else "C07/iterator-misses-freshest",
                          dict(ident, consumer="second (slower) of two concurrent loops", last_callback=str(got[-1:]), last_iterator=str(it2[-1:])))
        if end is not None and not it2_end:
            sim.violation("C07/iterator-never-ends", dict(ident, consumer="second"))
    for (t, m, en, es) in sim.loop_exceptions():
        sim.anomaly("loop-exception:%s" % en, "%s %s" % (m, es))


def check_rejections(sim, server, me, delivered, t_end, pos_end, ident):
    """after the end, notifications on the token are rejected like unknown responses: per message ID, every CON
    copy that arrived while the observation was alive is acknowledged, every later one is answered with a Reset;
    NON copies are never answered"""
    token = server.registered[1] if server.registered else None
    sent = [e for e in sim.net.wire if e["src"] == me and e["msg"] is not None]
    per_mid = {}
    for (t, e, data, pos) in delivered:
        if e["src"] != server.addr:
            continue
        try:
            m = rc.decode(data)
        except rc.FormatError:
            continue
        if m["token"] != token or not (64 <= m["code"] < 192) or m["type"] == rc.ACK:
            continue
        d = per_mid.setdefault(m["mid"], {"type": m["type"], "early": 0, "late": 0})
        if pos <= pos_end:
            d["early"] += 1
        else:
            d["late"] += 1
            sim.probe("late_notification_con" if m["type"] == rc.CON else "late_notification_non")
    for mid, d in per_mid.items():
        rsts = len([x for x in sent if x["msg"]["type"] == rc.RST and x["msg"]["mid"] == mid])
        acks = len([x for x in sent if x["msg"]["type"] == rc.ACK and x["msg"]["mid"] == mid and x["msg"]["code"] == 0])
        if d["type"] == rc.CON:
            if rsts != d["late"] or acks != d["early"]:
                sim.violation("C07/late-notification-not-rejected" if rsts < d["late"] else "C07/notification-answered-wrongly",
                              dict(ident, mid=mid, rsts=rsts, acks=acks, alive_copies=d["early"], late_copies=d["late"]))
                return
        elif rsts or acks:
            sim.violation("C07/late-non-notification-answered", dict(ident, mid=mid, rsts=rsts, acks=acks))
            return
