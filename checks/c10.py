"""C10 -- message-layer reactions follow the RFC 7252 type rules."""

from simkit import refcodec as rc
from simkit import faults
from simkit.net import ScriptedEndpoint, fmt, is_mcast
from . import common
from .common import TOL

PROPERTY = "C10"
LEVEL = "exploration"
RUNS = {"quick": 4000, "thorough": 60000}
RULE = ("seeded sequences of 1-10 datagrams presented by a scripted peer to a real endpoint: type {CON,NON,ACK,RST} x "
        "code class {empty, request, response 2/4/5, reserved 1/6, signalling 7} x token {matches an outstanding "
        "request, unknown} x destination {unicast, multicast ff02::fd} x handler {fast, EMPTY_ACK_DELAY -/+ epsilon, "
        "slow, failing, unknown path} x No-Response {absent, 2, 8, 16, 26}; plus endpoint-side requests to a multicast "
        "remote (default / Unreliable / Reliable); systematic: the full single-datagram table. Non-trivial = a "
        "datagram other than a plain fast CON GET was presented; distinct = distinct event-sequence hash.")
COMPONENTS_REAL = ["aiocoap.messagemanager", "aiocoap.tokenmanager", "aiocoap.protocol", "aiocoap.pipe",
                   "aiocoap.resource", "aiocoap.transports.udp6", "aiocoap.util.asyncio.recvmsg", "aiocoap.message"]
COMPONENTS_STUB = ["UDP socket (SimSocket) incl. IPV6_PKTINFO with multicast destination", "scripted peer (reference codec)",
                   "event loop clock (virtual)"]
ASSUMPTIONS = ["reaction table written from RFC 7252 section 4 and RFC 7967, independent of the code",
               "CON requests addressed to a multicast group are not generated (peer misbehaviour the statement does not cover)"]
EXPECTED_PROBES = ["application_callback_raised_on_matching_response", "token_reused_after_completed_exchange", "duplicated_request", "ping", "piggyback", "empty_ack_then_separate", "handler_at_delay_minus_eps", "handler_at_delay_plus_eps",
                   "matched_con_response", "unmatched_con_response_unicast", "unmatched_con_response_multicast",
                   "no_response_suppressed", "misfit", "request_to_multicast", "reliable_to_multicast", "boundary_message_id", "ipv4_mapped", "peer_request_under_endpoints_next_token", "crowd_of_pending_requests", "forward_proxy"]

DELAY = 0.1
HANDLERS = {"fast": 0.0, "pre": DELAY - 1e-3, "post": DELAY + 1e-3, "slow": 0.5}
TYPES = {"CON": rc.CON, "NON": rc.NON, "ACK": rc.ACK, "RST": rc.RST}
MCAST = "ff02::fd"


def gen_inject(r, i):
    cls = r.weighted([(5, "request"), (4, "response"), (2, "empty"), (1, "reserved"), (1, "signalling")])
    typ = r.choice(["CON", "NON", "ACK", "RST"]) if r.chance(0.5) else r.choice(["CON", "NON"])
    op = {"op": "inject", "type": typ, "cls": cls}
    if cls == "request":
        op["code"] = r.choice([rc.GET, rc.GET, rc.POST, rc.PUT])
        op["handler"] = r.choice(["fast", "pre", "post", "slow", "raise", "slowraise", "missing", "ret4", "ret5", "slowret5", "unser"])
        op["no_response"] = r.choice([None, None, 2, 8, 16, 26]) if op["handler"] != "unser" else None
        op["dst"] = "mcast" if (typ == "NON" and r.chance(0.2)) else "uni"
    elif cls == "response":
        op["code"] = r.choice([rc.CONTENT, rc.CHANGED, rc.NOT_FOUND, rc.INTERNAL_SERVER_ERROR])
        op["token"] = r.choice(["match", "unknown"])
        op["dst"] = "mcast" if r.chance(0.2) else "uni"
    elif cls == "empty":
        op["code"] = 0
        op["dst"] = "uni"
    elif cls == "reserved":
        op["code"] = r.choice([32, 40, 63, 192, 200, 223])
        op["token"] = r.choice(["match", "unknown"])
        op["dst"] = "uni"
    else:
        op["code"] = r.choice([rc.CSM, rc.PING, rc.PONG, rc.RELEASE, rc.ABORT, 224, 255])
        op["token"] = r.choice(["match", "unknown"])
        op["dst"] = "uni"
    return op


def gen_proxy(r):
    """The endpoint is a forward proxy: a client's requests (Proxy-Scheme + Uri-Host) are passed on to an origin server that
    answers after a while -- piggy-backed on its ACK, or separately -- and the response is relayed.  Towards the client
    the proxy is an endpoint like any other: same rules for acknowledging and for the type of the response."""
    reqs = []
    t = 0.0
    for i in range(r.randint(1, 5)):
        t += r.choice([0.0, 0.05, 0.5, 2.0])
        reqs.append({"t": round(t, 3), "con": r.chance(0.7), "d": r.choice([0.0, 0.02, 0.08, 0.15, 0.3, 1.0]),
                     "origin": r.choice(["piggy", "piggy", "sep_con", "sep_non"])})
    return {"proxy": {"reqs": reqs}, "ops": []}


def gen(r, tier):
    if r.chance(0.06):
        return gen_proxy(r)
    ops = []
    t = 0.0
    n = r.randint(1, 10)
    for i in range(n):
        t += r.choice([0.0, 0.01, 0.05, 0.3, 1.0, 2.0])
        if r.chance(0.25):
            ops.append({"op": "request", "t": round(t, 4), "target": r.choice(["peer", "peer", "mcast"]),
                        "tuning": r.choice([None, "Reliable", "Unreliable"])})
        else:
            op = gen_inject(r, i)
            op["t"] = round(t, 4)
            prev = ops[-1] if ops else None
            if (op["cls"] == "request" and prev is not None and prev.get("op") == "inject" and prev.get("cls") == "request"
                    and prev["type"] == "CON" and prev.get("dst") == "uni" and op.get("dst") == "uni"
                    and prev.get("handler") in ("fast", "raise", "missing", "ret4", "ret5") and r.chance(0.3)):
                # a client may use a token again once the previous exchange on it is over
                op["reuse_token"] = True
                op["t"] = round(prev["t"] + r.choice([0.01, 0.03, 0.09, 0.2]), 4)
                t = op["t"]
            elif (op["cls"] == "request" and op["type"] == "CON" and prev is not None and prev.get("op") == "inject"
                    and prev.get("cls") == "request" and prev["type"] == "CON" and prev.get("dst") == "uni" and op.get("dst") == "uni"
                    and prev.get("handler") in ("pre", "post", "slow", "slowraise", "slowret5") and not prev.get("reuse_pending")
                    and r.chance(0.3)):
                # a peer that gives up on a request and takes its token for the next one while the first is neither
                # answered nor acknowledged: the first is the peer's loss, the second is an ordinary request
                op["reuse_pending"] = True
                op["t"] = round(prev["t"] + r.choice([0.006, 0.02, 0.05, 0.09]), 4)
                t = op["t"]
            if op.get("token") == "match" and not any(o["op"] == "request" and o["target"] == "peer" for o in ops):
                ops.append({"op": "request", "t": round(t, 4), "target": "peer", "tuning": r.choice([None, "Unreliable"]),
                            "raiser": r.chance(0.2)})
                op["t"] = round(t + 0.05, 4)
                t += 0.05
            ops.append(op)
            if op["cls"] == "request" and op.get("dst") == "uni" and r.chance(0.25):
                # the network duplicates the request datagram; the copy arrives a little later
                ops.append({"op": "dup", "of_t": op["t"], "t": round(op["t"] + r.choice([0.0, 0.01, 0.05, 0.095, 0.105, 0.3, 1.0]), 4)})
    if r.chance(0.2):
        # both roles at once: the peer's confirmable request carries the very token the endpoint will give its own next
        # request to that peer (the two directions choose tokens independently), and that request follows while the
        # peer's one is still unacknowledged / being handled
        t0 = round(r.uniform(0, t + 1), 4)
        ops.append({"op": "inject", "t": t0, "type": "CON", "cls": "request", "code": rc.GET, "dst": "uni",
                    "handler": r.choice(["pre", "post", "slow", "slowraise", "slowret5"]), "no_response": None, "token": "own_next"})
        ops.append({"op": "request", "t": round(t0 + r.choice([0.006, 0.02, 0.05, 0.2]), 4), "target": "peer",
                    "tuning": r.choice([None, "Unreliable"])})
    ops.sort(key=lambda o: o["t"])
    inj = [o for o in ops if o["op"] == "inject"]
    if inj and r.chance(0.3):
        # message IDs at the ends of the 16-bit range (0 is a valid message ID)
        r.choice(inj)["mid"] = r.choice([0, 0, 0xFFFF])
    crowd = None
    if r.chance(0.03):
        # many other endpoints have a (non-confirmable) request pending at the endpoint meanwhile
        crowd = {"n": r.choice([100, 1100, 1100]), "release": round(t + 4.0, 3)}
    return {"ops": ops, "v4": r.chance(0.25), "crowd": crowd}


def systematic(tier):
    out = []
    for typ in TYPES:
        # requests
        for h in (["fast", "pre", "post", "slow", "raise", "slowraise", "missing", "ret4", "ret5", "slowret5"]):
            for nr in (None, 2, 8, 16, 26):
                for dst in ("uni", "mcast"):
                    if dst == "mcast" and typ != "NON":
                        continue
                    if tier == "quick" and nr in (8, 16) and h in ("pre", "slowraise"):
                        continue
                    out.append({"ops": [{"op": "inject", "t": 0.0, "type": typ, "cls": "request", "code": rc.GET,
                                         "handler": h, "no_response": nr, "dst": dst}]})
        for code in (rc.CONTENT, rc.NOT_FOUND, rc.INTERNAL_SERVER_ERROR):
            for tok in ("match", "unknown"):
                for dst in ("uni", "mcast"):
                    for tun in (None, "Unreliable"):
                        out.append({"ops": [{"op": "request", "t": 0.0, "target": "peer", "tuning": tun},
                                            {"op": "inject", "t": 0.5, "type": typ, "cls": "response", "code": code,
                                             "token": tok, "dst": dst}]})
        out.append({"ops": [{"op": "inject", "t": 0.0, "type": typ, "cls": "empty", "code": 0, "dst": "uni"}]})
        for code in (32, 63, 192, 223, rc.CSM, rc.PING, 255):
            for tok in ("match", "unknown"):
                out.append({"ops": [{"op": "request", "t": 0.0, "target": "peer", "tuning": None},
                                    {"op": "inject", "t": 0.5, "type": typ,
                                     "cls": "reserved" if code < 224 else "signalling", "code": code, "token": tok,
                                     "dst": "uni"}]})
    for tun in (None, "Reliable", "Unreliable"):
        out.append({"ops": [{"op": "request", "t": 0.0, "target": "mcast", "tuning": tun}]})
    for nr in (None, 2, 26):
        for typ2 in ("CON", "NON"):
            for dt in (0.01, 0.03, 0.2):
                out.append({"ops": [{"op": "inject", "t": 0.0, "type": "CON", "cls": "request", "code": rc.PUT, "handler": "fast",
                                     "no_response": nr, "dst": "uni"},
                                    {"op": "inject", "t": dt, "type": typ2, "cls": "request", "code": rc.GET, "handler": "fast",
                                     "no_response": None, "dst": "uni", "reuse_token": True}]})
    for h1 in ("slow", "slowret5"):
        for h2 in ("fast", "slow", "raise", "post"):
            for dt in (0.02, 0.09):
                out.append({"ops": [{"op": "inject", "t": 0.0, "type": "CON", "cls": "request", "code": rc.GET, "handler": h1,
                                     "no_response": None, "dst": "uni"},
                                    {"op": "inject", "t": dt, "type": "CON", "cls": "request", "code": rc.GET, "handler": h2,
                                     "no_response": None, "dst": "uni", "reuse_pending": True}]})
    for org in ("piggy", "sep_con", "sep_non"):
        for d in (0.0, 0.08, 0.15, 0.5):
            out.append({"proxy": {"reqs": [{"t": 0.0, "con": True, "d": d, "origin": org}, {"t": 1.5, "con": False, "d": d, "origin": org}]}, "ops": []})
    for n in ((1100,) if tier == "quick" else (100, 1023, 1024, 1025, 2000)):
        out.append({"ops": [{"op": "inject", "t": 0.5 + 0.3 * k, "type": typ, "cls": "request", "code": rc.GET, "handler": h,
                             "no_response": None, "dst": "uni"} for k, (typ, h) in enumerate((("NON", "fast"), ("CON", "fast"), ("NON", "slow"), ("CON", "post")))],
                    "crowd": {"n": n, "release": 5.0}})
    for h in ("fast", "pre", "post", "slow", "raise", "slowraise"):
        for typ in ("CON", "NON"):
            for dt in (0.0, 0.01, 0.05, 0.105, 0.6):
                out.append({"ops": [{"op": "inject", "t": 0.0, "type": typ, "cls": "request", "code": rc.GET, "handler": h,
                                     "no_response": None, "dst": "uni"},
                                    {"op": "dup", "of_t": 0.0, "t": dt}]})
    return out


def draw_bias(scn):
    # keep the endpoint's own message IDs away from the injected ones (>= 0x8000)
    return {"mm": {"randint": lambda r, a, b: r.randint(0, 1000)}}


class Peer(ScriptedEndpoint):
    groups = {MCAST}

    def __init__(self, sim, ip, port, group=MCAST):
        self.groups = {group}
        super().__init__(sim, ip, port)
        self.requests_seen = []  # (t, msg, dst_ip)

    def on_datagram(self, data, src, dst_ip):
        try:
            msg = rc.decode(data)
        except rc.FormatError:
            msg = None
        self.rx.append((self.loop.now, src, dst_ip, msg, data))
        if msg is None:
            return
        if 1 <= msg["code"] < 32:
            self.requests_seen.append((self.loop.now, msg, dst_ip))
        if msg["type"] == rc.CON:
            # keep the endpoint's exchanges short: acknowledge every CON promptly
            self.send(src, msg={"type": rc.ACK, "code": 0, "mid": msg["mid"], "token": b"", "options": [],
                                "payload": b""}, fate=["deliver", 0.005])


def execute_proxy(sim, scn):
    import aiocoap
    from aiocoap.proxy.server import ForwardProxy

    loop = sim.loop
    px = scn["proxy"]

    async def setup():
        ctx = await sim.server(None, common.SERVER_IP)
        ctx.serversite = ForwardProxy(ctx)
        return ctx

    loop.run_until_complete(setup())
    E = (common.SERVER_IP, 5683)
    sim.net.names["origin.example"] = common.PEER_IPS[1]
    sim.probe("forward_proxy")
    plans = {}

    class Origin(ScriptedEndpoint):
        def handle(self, msg, src, data):
            if msg is None:
                return
            if msg["type"] == rc.CON and msg["code"] >= 64:
                return
            if not (1 <= msg["code"] < 32):
                return
            q = rc.opt1(msg, rc.URI_QUERY)
            i = int(q[2:]) if q else 0
            spec = plans[i]
            key = (src, msg["mid"])
            if key in seen_o:
                if seen_o[key] is not None:
                    self.send(src, msg=seen_o[key])
                return
            payload = b"origin:%d" % i
            if msg["type"] == rc.NON:
                seen_o[key] = None
                self.loop.after(spec["d"], lambda: self.send(src, msg={"type": rc.NON, "code": rc.CONTENT, "mid": self.next_mid(), "token": msg["token"],
                                                                       "options": [], "payload": payload}))
            elif spec["origin"] == "piggy":
                ack = {"type": rc.ACK, "code": rc.CONTENT, "mid": msg["mid"], "token": msg["token"], "options": [], "payload": payload}
                seen_o[key] = ack
                self.loop.after(spec["d"], lambda: self.send(src, msg=ack))
            else:
                ack = {"type": rc.ACK, "code": 0, "mid": msg["mid"], "token": b"", "options": [], "payload": b""}
                seen_o[key] = ack
                self.send(src, msg=ack)
                typ = rc.CON if spec["origin"] == "sep_con" else rc.NON
                self.loop.after(spec["d"], lambda: self.send(src, msg={"type": typ, "code": rc.CONTENT, "mid": self.next_mid(), "token": msg["token"],
                                                                       "options": [], "payload": payload}))

    seen_o = {}
    origin = Origin(sim, common.PEER_IPS[1], 5683)
    got = []

    class Cl(ScriptedEndpoint):
        def handle(self, msg, src, data):
            if msg is None:
                return
            got.append((self.loop.now, msg))
            if msg["type"] == rc.CON and msg["code"] >= 64:
                self.send(src, msg={"type": rc.ACK, "code": 0, "mid": msg["mid"], "token": b"", "options": [], "payload": b""})

    client = Cl(sim, common.PEER_IPS[0], 5683)
    for i, q in enumerate(px["reqs"]):
        plans[i] = q
        m = {"type": rc.CON if q["con"] else rc.NON, "code": rc.GET, "mid": 0x6100 + i, "token": bytes([0xA0, i]),
             "options": [(rc.URI_HOST, b"origin.example"), (rc.URI_PATH, b"x"), (rc.URI_QUERY, b"i=%d" % i), (rc.PROXY_SCHEME, b"coap")],
             "payload": b""}
        client.send(E, msg=m, fate=["at", q["t"]])
    sim.run()
    sim.nontrivial = True
    for i, q in enumerate(px["reqs"]):
        M, T = 0x6100 + i, bytes([0xA0, i])
        ident = {"i": i, "con": q["con"], "origin_answers": q["origin"], "after": q["d"], "via": "forward proxy"}
        mine = [(t, m) for (t, m) in got if m["token"] == T or (m["type"] in (rc.ACK, rc.RST) and m["mid"] == M)]
        acks = [(t, m) for (t, m) in mine if m["type"] == rc.ACK]
        rsts = [(t, m) for (t, m) in mine if m["type"] == rc.RST]
        resp = [(t, m) for (t, m) in mine if m["code"] >= 64]
        stray_acks = [(t, m) for (t, m) in acks if m["mid"] != M]
        if stray_acks:
            sim.violation("C10/response-sent-as-ack-under-foreign-message-id", dict(ident, sent=rc.summary(stray_acks[0][1])))
            continue
        if rsts:
            sim.violation("C10/request-answered-with-rst", ident)
            continue
        if len(resp) != 1 or resp[0][1]["payload"] != b"origin:%d" % i:
            sim.violation("C10/proxied-request-not-answered-once", dict(ident, responses=[rc.summary(m) for (t, m) in resp][:3]))
            continue
        r_t, r_m = resp[0]
        if not q["con"]:
            if acks or r_m["type"] != rc.NON:
                sim.violation("C10/non-request-answered-with-other-type", dict(ident, sent=rc.summary(r_m), acks=len(acks)))
            continue
        if len(acks) != 1:
            sim.violation("C10/con-request-ack-count", dict(ident, n=len(acks)))
            continue
        a_t, a_m = acks[0]
        if a_m["code"] == 0:
            sim.probe("empty_ack_then_separate")
            if r_m["type"] not in (rc.CON, rc.NON) or r_m["mid"] == M:
                sim.violation("C10/separate-response-type-or-id", dict(ident, sent=rc.summary(r_m)))
        else:
            sim.probe("piggyback")
    for (t, m, en, es) in sim.loop_exceptions():
        sim.anomaly("loop-exception", "%s %s %s" % (m, en, es))


def execute(sim, scn):
    if scn.get("proxy"):
        return execute_proxy(sim, scn)
    # the dual-stack variant: the same scenario over IPv4-mapped addresses (the udp6 transport serves IPv4 through its
    # IPv6 socket; "All CoAP Nodes" is 224.0.1.187 there)
    v4 = bool(scn.get("v4"))
    MCAST = "::ffff:224.0.1.187" if v4 else globals()["MCAST"]
    SERVER_IP = "::ffff:10.0.0.1" if v4 else common.SERVER_IP
    PEER_IP = "::ffff:10.0.0.10" if v4 else common.PEER_IPS[0]
    if v4:
        sim.probe("ipv4_mapped")
    import asyncio
    import aiocoap
    import aiocoap.resource as resource
    from aiocoap import Message, GET, error
    from aiocoap.numbers.constants import Reliable, Unreliable

    loop = sim.loop
    invocations = []

    class H(resource.Resource):
        def __init__(self, kind):
            super().__init__()
            self.kind = kind

        async def _do(self, request):
            invocations.append((loop.now, self.kind, bytes(request.token), request.mid))
            sim.log("app", "invoke", self.kind, request.mid)
            d = {"raise": 0.0, "slowraise": 0.5, "slowret5": 0.5}.get(self.kind, HANDLERS.get(self.kind, 0.0))
            if d:
                await asyncio.sleep(d)
            if self.kind in ("raise", "slowraise"):
                raise RuntimeError("boom")
            if self.kind == "ret4":
                return Message(code=aiocoap.BAD_REQUEST, payload=b"r4")
            if self.kind in ("ret5", "slowret5"):
                return Message(code=aiocoap.SERVICE_UNAVAILABLE, payload=b"r5")
            if self.kind == "unser":
                # a Message object that cannot be put on the wire (text payload): what the client gets is a 5.00
                return Message(payload="text, not bytes")
            return Message(payload=b"r:" + bytes(request.token))

        render_get = render_post = render_put = _do

    parked = []

    class Park(resource.Resource):
        async def render_get(self, request):
            fut = loop.create_future()
            parked.append(fut)
            await fut
            return Message(payload=b"parked")

    async def setup():
        site = resource.Site()
        for h in list(HANDLERS) + ["raise", "slowraise", "ret4", "ret5", "slowret5", "unser"]:
            site.add_resource([h], H(h))
        site.add_resource(["park"], Park())
        return await sim.server(site, SERVER_IP, multicast=[("224.0.1.187" if v4 else MCAST, "sim1")])

    ctx = loop.run_until_complete(setup())
    E = (SERVER_IP, 5683)
    peer = Peer(sim, PEER_IP, 5683, group=MCAST)
    tracker = common.Tracker(sim)
    outstanding = []  # tokens of E's requests to the peer not yet matched, in order
    injected = []

    def do_request(i, op):
        target = ("[%s]" % peer.addr[0]) if op["target"] == "peer" else "[%s]" % MCAST
        tun = {"Reliable": Reliable, "Unreliable": Unreliable}.get(op["tuning"])
        msg = Message(code=GET, uri="coap://%s/q%d" % (target, i), transport_tuning=tun() if tun else None)
        own_issued[0] += 1
        if op.get("raiser"):
            msg.opt.observe = 0
        rec = tracker.start(i, ctx, msg, handle_blockwise=False)
        if op.get("raiser"):
            # the application's own callbacks fail when they are handed the response: its problem, not the peer's --
            # the message layer's reaction to the response that matched is the same
            def raiser(_):
                sim.probe("application_callback_raised_on_matching_response")
                raise RuntimeError("application callback fails")
            rec["req"].observation.register_errback(raiser)
            rec["req"].observation.register_callback(raiser)
        if op["target"] == "mcast":
            sim.probe("request_to_multicast")
            if op["tuning"] == "Reliable":
                sim.probe("reliable_to_multicast")

    own_issued = [0]

    def next_own_token():
        v0 = [d for d in sim.draws["tm"].log if d[0] == "randint"][0][3]
        return ((v0 + own_issued[0] + 1) % (2 ** 64)).to_bytes(8, "big").lstrip(b"\0")

    def do_inject(i, op):
        mid = op.get("mid", 0x8000 + i)
        token = bytes([0xE0, i & 0xFF, 0x77, 0x55, 0x33])  # five bytes: never a token of the endpoint itself in a run
        if mid in (0, 0xFFFF):
            sim.probe("boundary_message_id")
        if op.get("token") == "match":
            # the oldest request of the endpoint the peer has seen and that is still outstanding
            cand = [m for (t, m, dip) in peer.requests_seen if not is_mcast(dip) and m["token"] in live_tokens()]
            if cand:
                token = cand[0]["token"]
        elif op["cls"] == "empty":
            token = b""
        if op.get("token") == "own_next":
            token = next_own_token()
            sim.probe("peer_request_under_endpoints_next_token")
        opts = []
        payload = b""
        if op["cls"] == "request":
            path = op["handler"]
            opts.append((rc.URI_PATH, path.encode()))
            if op["no_response"] is not None:
                opts.append((rc.NO_RESPONSE, rc.uint_bytes(op["no_response"])))
        elif op["cls"] == "response":
            payload = b"inj%d" % i
        # (the flag is only honoured when the message right before really is a finished exchange: sorting the operations
        # by time, or the minimiser dropping some, can put a slow request in between, and using the token of a request that
        # is still being handled is the peer's mistake, not something the property speaks about)
        if (op.get("reuse_token") and injected and injected[-1]["op"].get("cls") == "request"
                and injected[-1]["op"].get("type") == "CON" and injected[-1]["op"].get("dst") == "uni"
                and injected[-1]["op"].get("handler") in ("fast", "raise", "missing", "ret4", "ret5")
                and not injected[-1].get("t_next_same_token")):
            token = injected[-1]["token"]
            injected[-1]["t_next_same_token"] = loop.now + 0.005
            sim.probe("token_reused_after_completed_exchange")
        if (op.get("reuse_pending") and injected and injected[-1]["op"].get("cls") == "request"
                and injected[-1]["op"].get("type") == "CON" and injected[-1]["op"].get("dst") == "uni"
                and injected[-1]["op"].get("handler") in ("pre", "post", "slow", "slowraise", "slowret5")
                and loop.now + 0.005 - injected[-1]["t"] < DELAY - 0.001 and not injected[-1].get("ndup")
                and op["cls"] == "request" and op["type"] == "CON" and not injected[-1].get("superseded")):
            token = injected[-1]["token"]
            injected[-1]["superseded"] = True
            sim.probe("token_taken_over_while_request_pending")
        m = {"type": TYPES[op["type"]], "code": op["code"], "mid": mid, "token": token, "options": opts,
             "payload": payload}
        dst = (MCAST, 5683) if op.get("dst") == "mcast" else E
        rec = {"i": i, "op": op, "mid": mid, "token": token, "t": loop.now + 0.005, "live": token in live_tokens(),
               "dst": dst}
        injected.append(rec)
        if rec["live"] and op["cls"] == "response" and op["type"] in ("CON", "NON", "ACK"):
            matched_tokens.add(token)
            rec["matched"] = True
        rec["raw"] = rc.encode(m)
        rec["ndup"] = 0
        peer.send(dst, raw=rec["raw"], fate=["deliver", 0.005])
        sim.nontrivial = sim.nontrivial if hasattr(sim, "nontrivial") else False
        if not (op["cls"] == "request" and op["type"] == "CON" and op.get("handler") == "fast"
                and op.get("no_response") is None):
            sim.nontrivial = True

    matched_tokens = set()

    def live_tokens():
        # tokens of the endpoint's unicast requests that no injected matching response consumed yet and whose
        # request has not completed (error) meanwhile
        live = set()
        for (t, m, dip) in peer.requests_seen:
            if is_mcast(dip):
                continue
            if m["token"] in matched_tokens:
                continue
            live.add(m["token"])
        # requests that already failed are retired
        for tag, rec in tracker.results.items():
            if rec["done"]:
                tok = bytes(rec["msg"].token) if rec["msg"].token else None
                live.discard(tok)
        return live

    def do_dup(op):
        cands = [r_ for r_ in injected if abs(r_["op"]["t"] - op["of_t"]) <= TOL and r_["op"]["cls"] == "request"]
        if not cands:
            return
        r_ = cands[-1]
        r_["ndup"] += 1
        sim.probe("duplicated_request")
        peer.send(r_["dst"], raw=r_["raw"], fate=["deliver", 0.005])

    for i, op in enumerate(scn["ops"]):
        if op["op"] == "request":
            loop.at(op["t"], do_request, i, op)
        elif op["op"] == "dup":
            loop.at(op["t"], do_dup, op)
        else:
            loop.at(op["t"], do_inject, i, op)

    crowd = scn.get("crowd")
    crowd_addrs = {}
    if crowd:
        sim.probe("crowd_of_pending_requests")
        crowd_ip = "::ffff:10.0.2.1" if v4 else common.PEER_IPS[2]
        for i in range(crowd["n"]):
            ep = ScriptedEndpoint(sim, crowd_ip, 20000 + i)
            tok = bytes([0xC0, i >> 8, i & 255])
            crowd_addrs[ep.addr] = tok
            ep.send(E, raw=rc.encode({"type": rc.NON, "code": rc.GET, "mid": i & 0xFFFF, "token": tok,
                                      "options": [(rc.URI_PATH, b"park")], "payload": b""}), fate=["at", round(0.0001 + i * 0.00001, 6)])

        def release():
            for f in parked:
                if not f.done():
                    f.set_result(None)
        loop.at(crowd["release"], release)

    sim.run()

    wire = sim.net.wire
    if crowd:
        # each of them sent one non-confirmable request: one non-confirmable response each, nothing else
        got = {}
        for e in wire:
            if e["src"] == E and e["dst"] in crowd_addrs and e["msg"] is not None:
                got.setdefault(e["dst"], []).append(e["msg"])
        for a, tok in crowd_addrs.items():
            ms = got.get(a, [])
            bad = [m for m in ms if m["type"] != rc.NON]
            if bad:
                sim.violation("C10/non-request-answered-with-other-type", {"crowd_member": tok[1] * 256 + tok[2], "of": crowd["n"],
                                                                           "sent": rc.summary(bad[0])})
                break
            if len(ms) != 1 or ms[0]["token"] != tok or ms[0]["code"] != rc.CONTENT:
                sim.violation("C10/pending-non-request-not-answered-once", {"crowd_member": tok[1] * 256 + tok[2], "of": crowd["n"],
                                                                            "sent": [rc.summary(m) for m in ms][:3]})
                break
    from_e = [e for e in wire if e["src"][1] == 5683 and e["src"][0] in (SERVER_IP, MCAST) and not e["forged"]
              and e["msg"] is not None and e["dst"] != E]
    # global: no CON to multicast, no multicast source address
    for e in wire:
        if e["src"] == peer.addr or e["msg"] is None:
            continue
        if is_mcast(e["dst"][0]) and e["msg"]["type"] == rc.CON:
            sim.violation("C10/con-sent-to-multicast", {"dst": fmt(e["dst"]), "t": e["t"]})
        if is_mcast(e["src"][0]):
            sim.violation("C10/multicast-source-address", {"src": fmt(e["src"]), "t": e["t"]})

    def sent_to_peer(pred):
        return [e for e in from_e if e["dst"] == peer.addr and pred(e["msg"])]

    for rec in injected:
        op = rec["op"]
        M, T = rec["mid"], rec["token"]
        ident = {"i": rec["i"], "type": op["type"], "cls": op["cls"], "code": rc.code_str(op["code"]),
                 "dst": op.get("dst"), "handler": op.get("handler"), "no_response": op.get("no_response"),
                 "token": op.get("token")}
        if rec.get("superseded"):
            # the peer used this request's token for another confirmable request before this one was acknowledged:
            # the statement says nothing about the one given up; the one that took the token is checked like any other
            continue
        acks = sent_to_peer(lambda m: m["type"] == rc.ACK and m["mid"] == M)
        rsts = sent_to_peer(lambda m: m["type"] == rc.RST and m["mid"] == M)
        resps = sent_to_peer(lambda m: m["type"] in (rc.CON, rc.NON) and m["code"] >= 64 and m["token"] == T and T != b"")
        # when the token is used again later, only what was sent before that belongs to this request
        t_hi = rec.get("t_next_same_token", float("inf"))
        resps = [e for e in resps if rec["t"] - TOL <= e["t"] < t_hi - TOL]
        inv = [x for x in invocations if x[3] == M]
        typ, cls = op["type"], op["cls"]
        mcast = op.get("dst") == "mcast"
        if cls == "request" and typ in ("CON", "NON"):
            h = op["handler"]
            rclass = {"raise": 5, "slowraise": 5, "missing": 4, "ret4": 4, "ret5": 5, "slowret5": 5, "unser": 5}.get(h, 2)
            nr = op["no_response"]
            suppressed = nr is not None and bool(nr & (1 << (rclass - 1)))
            if suppressed and h in ("raise", "slowraise", "missing"):
                # Error responses the library builds itself from a raised exception do not inherit the request's
                # No-Response option (only messages returned by a handler do, resource.Resource.render).  Whether
                # RFC 7967 obliges a server to suppress those is debatable, the statement does not say; accepted
                # either way and counted.
                sim.probe("no_response_on_library_built_error")
                suppressed = bool(not resps and all(a["msg"]["code"] == 0 for a in acks))
                if not suppressed:
                    sim.anomaly("no-response-ignored-for-library-built-error", h)
            dur = {"raise": 0.0, "slowraise": 0.5, "missing": 0.0, "slowret5": 0.5}.get(h, HANDLERS.get(h, 0.0))
            if h == "pre":
                sim.probe("handler_at_delay_minus_eps")
            if h == "post":
                sim.probe("handler_at_delay_plus_eps")
            if suppressed:
                sim.probe("no_response_suppressed")
            if h != "missing" and len(inv) != 1:  # (copies are de-duplicated: still exactly one invocation)
                sim.violation("C10/request-not-dispatched-once", dict(ident, n=len(inv)))
            if rsts:
                sim.violation("C10/request-answered-with-rst", ident)
            ndup = rec.get("ndup", 0)
            if typ == "CON":
                # copies of the request may make the endpoint repeat the acknowledgement it already sent, but there
                # is only ever ONE acknowledgement message under this ID
                if len({e["data"] for e in acks}) > 1:
                    sim.violation("C10/con-request-acknowledged-twice", dict(ident, acks=[e["data"].hex() for e in acks][:4]))
                    continue
                if not (1 <= len(acks) <= 1 + ndup):
                    sim.violation("C10/con-request-ack-count", dict(ident, n=len(acks), t=[e["t"] for e in acks], copies=ndup))
                    continue
                a = acks[0]
                piggy = dur < DELAY
                if h == "unser":
                    # the response that was ready in time could not be serialised; its 5.00 stand-in may come piggy-backed
                    # or as a separate response behind an empty ACK -- but the request is acknowledged, once
                    sim.probe("unserialisable_fast_response")
                    finals = ([a] if a["msg"]["code"] != 0 else []) + resps
                    if len({e["msg"]["mid"] for e in finals}) != 1 or (finals[0]["msg"]["code"] >> 5) != 5 or finals[0]["msg"]["token"] != T:
                        sim.violation("C10/separate-response-count", dict(ident, finals=[rc.summary(e["msg"]) for e in finals][:4]))
                    continue
                if piggy:
                    sim.probe("piggyback")
                    if suppressed:
                        if a["msg"]["code"] != 0 or resps:
                            sim.violation("C10/suppressed-response-sent", dict(ident, ack_code=a["msg"]["code"], n=len(resps)))
                    else:
                        if a["msg"]["code"] == 0 or a["msg"]["token"] != T:
                            sim.violation("C10/piggyback-missing", dict(ident, ack=rc.summary(a["msg"])))
                        elif (a["msg"]["code"] >> 5) != rclass:
                            sim.violation("C10/wrong-response-class", dict(ident, code=rc.code_str(a["msg"]["code"])))
                        if resps:
                            sim.violation("C10/separate-response-after-piggyback", dict(ident, n=len(resps)))
                else:
                    sim.probe("empty_ack_then_separate")
                    if a["msg"]["code"] != 0:
                        sim.violation("C10/late-response-piggybacked", dict(ident, ack=rc.summary(a["msg"])))
                    if abs(a["t"] - (rec["t"] + DELAY)) > 1e-6 and not ndup:
                        sim.violation("C10/empty-ack-time", dict(ident, t_ack=a["t"], expected=rec["t"] + DELAY))
                    mids = sorted({e["msg"]["mid"] for e in resps})
                    if suppressed:
                        if resps:
                            sim.violation("C10/suppressed-response-sent", dict(ident, n=len(resps)))
                    else:
                        if len(mids) != 1:
                            sim.violation("C10/separate-response-count", dict(ident, mids=mids))
                        elif mids[0] == M:
                            sim.violation("C10/separate-response-reuses-mid", ident)
                        elif (resps[0]["msg"]["code"] >> 5) != rclass:
                            sim.violation("C10/wrong-response-class", dict(ident, code=rc.code_str(resps[0]["msg"]["code"])))
            else:  # NON request
                if acks:
                    sim.violation("C10/non-request-acknowledged", dict(ident, n=len(acks)))
                if mcast:
                    # responding to multicast requests at all is optional; what is sent must be NON from a unicast source
                    for e in resps:
                        if e["msg"]["type"] != rc.NON:
                            sim.violation("C10/non-request-answered-confirmably", ident)
                    continue
                mids = sorted({e["msg"]["mid"] for e in resps})
                if suppressed:
                    if resps:
                        sim.violation("C10/suppressed-response-sent", dict(ident, n=len(resps)))
                else:
                    if len({e["data"] for e in resps}) != 1:
                        sim.violation("C10/non-request-response-count", dict(ident, n=len(resps)))
                    else:
                        if resps[0]["msg"]["type"] != rc.NON:
                            sim.violation("C10/non-request-answered-confirmably", ident)
                        if (resps[0]["msg"]["code"] >> 5) != rclass:
                            sim.violation("C10/wrong-response-class", dict(ident, code=rc.code_str(resps[0]["msg"]["code"])))
        elif cls == "empty" and typ == "CON":
            sim.probe("ping")
            if len(rsts) != 1 or acks:
                sim.violation("C10/ping-not-reset", dict(ident, rsts=len(rsts), acks=len(acks)))
        elif cls == "response" and typ in ("CON", "NON", "ACK"):
            matched = rec.get("matched", False)
            if typ == "CON":
                if matched:
                    sim.probe("matched_con_response")
                    if len(acks) != 1 or acks[0]["msg"]["code"] != 0 or rsts:
                        sim.violation("C10/matched-con-response-not-acked", dict(ident, acks=len(acks), rsts=len(rsts)))
                elif mcast:
                    sim.probe("unmatched_con_response_multicast")
                    if acks or rsts:
                        sim.violation("C10/unmatched-multicast-response-answered", dict(ident, acks=len(acks), rsts=len(rsts)))
                else:
                    sim.probe("unmatched_con_response_unicast")
                    if len(rsts) != 1 or acks:
                        sim.violation("C10/unmatched-con-response-not-reset", dict(ident, acks=len(acks), rsts=len(rsts)))
            else:
                if acks or rsts:
                    sim.violation("C10/non-or-ack-response-answered", dict(ident, acks=len(acks), rsts=len(rsts)))
            if inv:
                sim.violation("C10/response-dispatched-to-handler", ident)
        else:
            # misfits: ACK/RST with request code, RST with response code, NON/ACK/RST empty, reserved and signalling codes
            sim.probe("misfit")
            if acks or rsts or inv:
                sim.violation("C10/misfit-not-ignored", dict(ident, acks=len(acks), rsts=len(rsts), dispatched=len(inv)))
            if resps and not rec["live"]:
                sim.violation("C10/misfit-not-ignored", dict(ident, responses=len(resps)))

    # endpoint-side requests
    for i, op in enumerate(scn["ops"]):
        if op["op"] != "request":
            continue
        rec = tracker.results.get(i)
        if rec is None:
            continue
        ident = {"i": i, "target": op["target"], "tuning": op["tuning"]}
        if op["target"] == "mcast":
            # The statement only demands that no CON leaves towards a multicast destination (checked globally
            # above): the library may refuse a Reliable request (ConToMulticast) or send it non-confirmably.
            continue
        # a matched injected response must reach exactly this request, with its payload
        tok = bytes(rec["msg"].token) if rec["msg"].token else b""
        m_inj = [r for r in injected if r.get("matched") and r["token"] == tok]
        if m_inj:
            r0 = m_inj[0]
            if not rec["done"] or rec["outcome"] != "response":
                sim.violation("C10/matched-response-not-delivered", dict(ident, outcome=rec.get("outcome"),
                                                                         exc=repr(rec.get("exception"))))
            elif rec["response"].payload != b"inj%d" % r0["i"]:
                sim.violation("C10/wrong-response-delivered", dict(ident, payload=rec["response"].payload.hex()))
        elif rec["done"] and rec["outcome"] == "response":
            sim.violation("C10/unmatched-response-delivered", dict(ident, payload=rec["response"].payload.hex()))
        if rec["done"] > 1:
            sim.violation("C10/request-completed-twice", ident)
    for (t, m, en, es) in sim.loop_exceptions():
        sim.anomaly("loop-exception", "%s %s %s" % (m, en, es))
